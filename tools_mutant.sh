#!/bin/bash
# usage: tools_mutant.sh <patch.diff> <ID> [<ID> ...]      (development aid, not registered)
# Applies the patch to a scratch copy of /repo's working tree (outside /repo and /verif), runs the quick checks of
# the given properties against it (VERIF_REPO), prints their verdict, removes the copy. Evidence is not rewritten.
patch="$(realpath "$1")"; shift
tier="${MUT_TIER:-quick}"
scratch="$(mktemp -d /tmp/mut_XXXXXX)"
trap 'rm -rf "$scratch"' EXIT
mkdir -p "$scratch/repo"
rsync -a --exclude .git --exclude '__pycache__' /repo/ "$scratch/repo/"
if ! (cd "$scratch/repo" && patch -p1 --quiet < "$patch"); then echo "PATCH-FAILED $patch"; exit 3; fi
export VERIF_REPO="$scratch/repo" VERIF_REPLAY_DIR="$scratch/replays"
for id in "$@"; do
  out="$(cd /verif && ./check "$id" "$tier" --no-evidence ${MUT_WORKERS:+--workers $MUT_WORKERS} 2>&1)"; rc=$?
  echo "== $(basename "$patch") $id rc=$rc $(echo "$out" | grep -c '^VIOLATION') violation lines"
  echo "$out" | grep -E '^(VIOLATION|KNOWN-FINDING|HARNESS-ERROR|  site=)' | head -6
done
