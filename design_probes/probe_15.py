from common import *
from dinosaur import shallow_water_states as sws, held_suarez as hs, time_integration as ti, filtering
specs=sw.ShallowWaterSpecs.from_si(densities=np.array([900.,997.,1030.])*units.kg/units.m**3)
M=8; L=M+1
g=sh.Grid(longitude_wavenumbers=M,total_wavenumbers=L,longitude_nodes=3*M+1,latitude_nodes=(3*M+2)//2, radius=specs.radius)
coords=cs.CoordinateSystem(g, lc.LayerCoordinates(3))
lat=g.latitudes
# band-limited zonal jet: u = U cos(lat) * (1 + c sin^2) etc => u/cos polynomial in mu
mu=np.sin(lat)
u=np.stack([0.05*np.cos(lat)*(1+0.5*mu**2), 0.03*np.cos(lat)*(1-mu), 0.02*np.cos(lat)*mu**2])
st=sws.multi_layer(u, specs.densities, coords)
refpot=np.array([0.3,0.5,0.9])
eq=sw.ShallowWaterEquations(coords,specs,None,refpot)
# state potential includes mean? add mean potential deviation 0; total = explicit+implicit
tot=jax.tree_util.tree_map(lambda a,b:a+b, eq.explicit_terms(st), eq.implicit_terms(st))
print('SW steady', {k: float(np.abs(np.asarray(v)).max()) for k,v in tot.asdict().items()}, 'scale', float(np.abs(np.asarray(st.potential)).max()))
# SW implicit inverse
n_modal=g.modal_shape
rng=np.random.default_rng(0)
x=sw.State(*(rng.standard_normal((3,)+n_modal)*g.mask for _ in range(3)))
for eta in (0.3,-0.7,25.):
    imp=eq.implicit_terms(x)
    y=jax.tree_util.tree_map(lambda a,b:a-eta*b, x, imp)
    back=eq.implicit_inverse(y,eta)
    print('SW inv',eta,max(float(np.abs(np.asarray(a)-np.asarray(b)).max()) for a,b in zip(jax.tree_util.tree_leaves(back),jax.tree_util.tree_leaves(x))))
# HS drag
pspecs=pe.PrimitiveEquationsSpecs.from_si()
g2=sh.Grid(longitude_wavenumbers=M,total_wavenumbers=L,longitude_nodes=3*M+1,latitude_nodes=(3*M+2)//2, radius=pspecs.radius)
vert=sc.SigmaCoordinates([0,0.2,0.5,0.75,0.9,1.0]); n=5
c2=cs.CoordinateSystem(g2,vert)
tref=np.full(n,250.)
f=hs.HeldSuarezForcing(c2,pspecs,tref)
lmax=L-2
stp=pe.State(vorticity=rand_modal(rng,g2,n,lmax=lmax,zero_mean=True)*0.1, divergence=rand_modal(rng,g2,n,lmax=lmax,zero_mean=True)*0.05,
   temperature_variation=rand_modal(rng,g2,n,lmax=lmax)*5, log_surface_pressure=rand_modal(rng,g2,1,lmax=lmax)*0.02+np.log(pspecs.nondimensionalize(1e5*units.pascal))*np.sqrt(4*np.pi)*(np.arange(L)==0)*(np.arange(2*M-1)==0)[:,None])
out=f.explicit_terms(stp)
kv=f.kv()
print('HS drag vort err', float(np.abs(np.asarray(out.vorticity)+kv*np.asarray(stp.vorticity)).max()), 'div err', float(np.abs(np.asarray(out.divergence)+kv*np.asarray(stp.divergence)).max()), 'kv', kv.ravel(), 'lnps', float(np.abs(np.asarray(out.log_surface_pressure)).max()))
# sigma SBP
from dinosaur import sigma_coordinates as S
b=[0,0.07,0.3,0.45,0.8,1.0]; co=S.SigmaCoordinates(b); n=5
w=rng.standard_normal((n-1,1,1)); xx=rng.standard_normal((n,1,1))
adv=np.asarray(S.centered_vertical_advection(w,xx,co))
wp=np.concatenate([[0],w.ravel(),[0]]); conv=-(xx.ravel()*np.diff(wp))  # -x dw/dsigma * dsigma
print('SBP', float((adv.ravel()*co.layer_thickness).sum()+conv.sum()))
d=np.asarray(S.cumulative_sigma_integral(xx,co)); u_=np.asarray(S.cumulative_sigma_integral(xx,co,downward=False)); tot=np.asarray(S.sigma_integral(xx,co))
print('cum identity', float(np.abs(d+u_-tot-xx*co.layer_thickness[:,None,None]).max()))
