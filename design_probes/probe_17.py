exec(open('probe_13.py').read().split("methods=dict")[0])
h=0.5
for alpha in (0.5,0.7):
  for order in (1,2,3):
    res=[]
    for t in trees(order):
        for ct in coloured(t):
            nodes=build(ct); eq,n=make_ode(nodes)
            # exact solution y_i(t) = t^{size_i}/gamma_i ; compute per node
            def sub(ct):
                out=[]
                def rec(t):
                    out.append((size(t),gamma(t)))
                    for c in t[1]: rec(c)
                rec(ct); return out
            sg=sub(ct)
            prev=jnp.array([(-h)**s/g for s,g in sg]+[1.0]); cur=jnp.zeros(n+1).at[n].set(1.0)
            _,fut=ti.semi_implicit_leapfrog(eq,h,alpha)((prev,cur))
            res.append(abs(float(fut[0])-h**sg[0][0]/sg[0][1])<1e-12)
    print('alpha',alpha,'order',order,sum(res),'/',len(res))
