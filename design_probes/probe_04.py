import os, time, itertools
os.environ['XLA_FLAGS']='--xla_force_host_platform_device_count=8'
import jax
jax.config.update('jax_enable_x64', True)
import numpy as np, jax.numpy as jnp
from dinosaur import spherical_harmonic as sh, coordinate_systems as cs, sigma_coordinates as sc, jax_numpy_utils as jnu
print(len(jax.devices()))
def meshes(maxdev=8):
    out=[]
    for z in range(1,9):
        for x in range(1,9):
            for y in range(1,9):
                if z*x*y<=maxdev: out.append((z,x,y))
    return out
ms=meshes()
print(len(ms), ms)
rng=np.random.default_rng(0)
M,L,nlon,nlat=5,6,16,8
ref=sh.Grid(longitude_wavenumbers=M,total_wavenumbers=L,longitude_nodes=nlon,latitude_nodes=nlat,spherical_harmonics_impl=sh.FastSphericalHarmonics)
nz=5
for (z,x,y) in ms:
    t=time.time()
    devs=np.array(jax.devices()[:z*x*y]).reshape(z,x,y)
    mesh=jax.sharding.Mesh(devs,['z','x','y'])
    try:
        g=sh.Grid(longitude_wavenumbers=M,total_wavenumbers=L,longitude_nodes=nlon,latitude_nodes=nlat,spherical_harmonics_impl=sh.FastSphericalHarmonics, spmd_mesh=mesh)
        xm=np.zeros((nz,)+g.modal_shape); 
        r=rng.standard_normal((nz,)+ref.modal_shape)*ref.mask
        xm[:, :ref.modal_shape[0], :ref.modal_shape[1]]=r
        nod=np.asarray(g.to_nodal(xm)); nod_ref=np.asarray(ref.to_nodal(r))
        e1=np.abs(nod[:, :nlon,:nlat]-nod_ref).max()
        pad=np.abs(nod).sum()-np.abs(nod[:, :nlon,:nlat]).sum()
        back=np.asarray(g.to_modal(nod))
        e2=np.abs(back[:, :ref.modal_shape[0], :ref.modal_shape[1]]-r).max()
        d=np.asarray(g.d_dlon(xm)); dref=np.asarray(ref.d_dlon(r))
        e3=np.abs(d[:, :ref.modal_shape[0], :ref.modal_shape[1]]-dref).max()
        print((z,x,y), g.modal_shape, g.nodal_shape, 'err %.1e %.1e %.1e pad %.1e'%(e1,e2,e3,pad), 'dt %.1f'%(time.time()-t))
    except Exception as e:
        print((z,x,y), 'EXC', type(e).__name__, str(e)[:150])
