from common import *
import refmodel as rm, time
specs=pe.PrimitiveEquationsSpecs.from_si()
M=10; L=M+1
g=sh.Grid(longitude_wavenumbers=M,total_wavenumbers=L,longitude_nodes=4*M+1,latitude_nodes=(4*M+2)//2, radius=specs.radius)
bnd=[0,0.1,0.3,0.45,0.8,1.0]
vert=sc.SigmaCoordinates(bnd); n=vert.layers
coords=cs.CoordinateSystem(g,vert)
rng=np.random.default_rng(3)
lmax=2
orog=rand_modal(rng,g,1,lmax=lmax)[0]*1e-4
tref=np.array([200,230,250,280,300.])
st=pe.State(vorticity=rand_modal(rng,g,n,lmax=lmax,zero_mean=True)*0.1, divergence=rand_modal(rng,g,n,lmax=lmax,zero_mean=True)*0.05,
   temperature_variation=rand_modal(rng,g,n,lmax=lmax)*5, log_surface_pressure=rand_modal(rng,g,1,lmax=lmax)*0.02)
eq=pe.PrimitiveEquations(tref,orog,coords,specs)
tot=jax.tree_util.tree_map(lambda a,b:np.asarray(a+b), eq.explicit_terms(st), eq.implicit_terms(st))
t=time.time()
ref=rm.RefSphere(L, 40, 64, specs.radius)
state=dict(vorticity=st.vorticity,divergence=st.divergence,temperature=st.temperature_variation,lnps=st.log_surface_pressure)
out=rm.dry_tendency(ref,M,L-1,state,tref,orog,bnd,specs.R,specs.kappa,specs.g,specs.angular_velocity)
print('ref time',time.time()-t)
for k,kk in (('vorticity','vorticity'),('divergence','divergence'),('temperature','temperature_variation'),('lnps','log_surface_pressure')):
    a=getattr(tot,kk)[...,:L-1]; b=out[k]
    print(k, 'impl max',np.abs(a).max(),'diff',np.abs(a-b).max())
