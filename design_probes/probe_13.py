import jax
jax.config.update('jax_enable_x64', True)
import numpy as np, jax.numpy as jnp, itertools, math
from dinosaur import time_integration as ti
# rooted trees as nested tuples (children sorted); coloured: node=(colour, children)
def trees(n):
    """all rooted trees with n nodes as canonical nested tuples"""
    if n==1: return [()]
    out=set()
    # partitions of n-1 into child subtree sizes
    def parts(k, maxp):
        if k==0: yield []; return
        for p in range(min(k,maxp),0,-1):
            for rest in parts(k-p,p): yield [p]+rest
    for ps in parts(n-1,n-1):
        for combo in itertools.product(*[trees(p) for p in ps]):
            out.add(tuple(sorted(combo)))
    return sorted(out)
def coloured(t):
    """all colourings: returns list of (colour, children) ; 'G' nodes have <=1 child"""
    kids=[coloured(c) for c in t]
    res=set()
    for combo in itertools.product(*kids):
        ch=tuple(sorted(combo))
        res.add(('F',ch))
        if len(ch)<=1: res.add(('G',ch))
    return sorted(res)
def size(t): return 1+sum(size(c) for c in t[1])
def gamma(t): return size(t)*math.prod(gamma(c) for c in t[1])
def build(t):
    """flatten to nodes: returns list of (colour, [child idx])"""
    nodes=[]
    def rec(t):
        i=len(nodes); nodes.append(None)
        ch=[rec(c) for c in t[1]]
        nodes[i]=(t[0],ch); return i
    rec(t); return nodes
def make_ode(nodes):
    n=len(nodes); C=n  # index of constant component
    Gm=np.zeros((n+1,n+1))
    for i,(col,ch) in enumerate(nodes):
        if col=='G': Gm[i, ch[0] if ch else C]=1.0
    Gm=jnp.asarray(Gm)
    def F(u):
        out=[]
        for i,(col,ch) in enumerate(nodes):
            if col=='F':
                v=1.0
                for c in ch: v=v*u[c]
                out.append(v*jnp.ones(()))
            else: out.append(jnp.zeros(()))
        out.append(jnp.zeros(()))
        return jnp.stack(out)
    Gf=lambda u: Gm@u
    Ginv=lambda u,eta: jnp.linalg.solve(jnp.eye(n+1)-eta*Gm,u)
    return ti.ImplicitExplicitODE.from_functions(F,Gf,Ginv), n
methods=dict(euler=ti.backward_forward_euler, cn_rk2=ti.crank_nicolson_rk2, rk3=ti.crank_nicolson_rk3, rk4=ti.crank_nicolson_rk4, sil3=ti.imex_rk_sil3)
h=0.5
for name,meth in methods.items():
    print(name)
    for order in (1,2,3,4):
        res=[]
        for t in trees(order):
            for ct in coloured(t):
                nodes=build(ct); eq,n=make_ode(nodes)
                u0=jnp.zeros(n+1).at[n].set(1.0)
                u1=meth(eq,h)(u0)
                num=float(u1[0])/h**n; ex=1/gamma(ct)
                allF=all(c=='F' for c,_ in nodes); chain=all(len(ch)<=1 for _,ch in nodes)
                res.append((abs(num-ex)<1e-12, allF, chain))
        tot=len(res); ok=sum(r[0] for r in res); okF=sum(r[0] for r in res if r[1]); nF=sum(1 for r in res if r[1]); okFc=sum(r[0] for r in res if r[1] and r[2]); nFc=sum(1 for r in res if r[1] and r[2])
        print('  order',order,'all colourings ok %d/%d'%(ok,tot),' G=0: %d/%d'%(okF,nF),' G=0 & linear(chain): %d/%d'%(okFc,nFc))
