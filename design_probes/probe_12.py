from common import *
from dinosaur import time_integration as ti, filtering, held_suarez as hs
import time
specs=pe.PrimitiveEquationsSpecs.from_si()
M=4; L=M+1
g=sh.Grid(longitude_wavenumbers=M,total_wavenumbers=L,longitude_nodes=4*M,latitude_nodes=2*M+1, radius=specs.radius)
bnd=[0,0.2,0.5,1.0]; vert=sc.SigmaCoordinates(bnd); n=3
coords=cs.CoordinateSystem(g,vert)
rng=np.random.default_rng(3); lmax=L-2
orog=rand_modal(rng,g,1,lmax=lmax)[0]*1e-4
tref=np.array([230,250,280.])
st=pe.State(vorticity=rand_modal(rng,g,n,lmax=lmax,zero_mean=True)*0.1, divergence=rand_modal(rng,g,n,lmax=lmax,zero_mean=True)*0.05,
   temperature_variation=rand_modal(rng,g,n,lmax=lmax)*5, log_surface_pressure=rand_modal(rng,g,1,lmax=lmax)*0.02)
eq=pe.PrimitiveEquations(tref,orog,coords,specs)
forcing=hs.HeldSuarezForcing(coords,specs,tref)
dt=0.01
step=ti.step_with_filters(ti.imex_rk_sil3(ti.compose_equations([eq,forcing]),dt),[ti.exponential_step_filter(g,dt)])
from jax.flatten_util import ravel_pytree
x0,unravel=ravel_pytree(st)
f=lambda x: ravel_pytree(step(unravel(x)))[0]
t=time.time()
Jf=jax.jacfwd(f)(x0); print('jacfwd',Jf.shape,time.time()-t); t=time.time()
Jr=jax.jacrev(f)(x0); print('jacrev',time.time()-t)
print('finite',np.isfinite(Jf).all(),np.isfinite(Jr).all(),'adjoint err',float(np.abs(Jf-Jr).max()),'scale',float(np.abs(Jf).max()))
# FD 4-point along all directions? do batched
t=time.time()
fj=jax.jit(jax.vmap(f))
h=1e-3
E=np.eye(len(x0))
fd=(8*(fj(x0+h*E)-fj(x0-h*E))-(fj(x0+2*h*E)-fj(x0-2*h*E)))/(12*h)
print('fd time',time.time()-t,'fd err',float(np.abs(fd.T-Jf).max()))
