import os, sys
import jax
X64=int(sys.argv[1])
jax.config.update('jax_enable_x64', bool(X64))
import numpy as np, jax.numpy as jnp, datetime
from dinosaur import primitive_equations as pe, sigma_coordinates as sc, coordinate_systems as cs, spherical_harmonic as sh, radiation as rad, scales, xarray_utils as xu
specs=pe.PrimitiveEquationsSpecs.from_si()
g=sh.Grid.T21(); c=cs.CoordinateSystem(g, sc.SigmaCoordinates.equidistant(2))
ref=datetime.datetime(1979,1,1)
sr=rad.SolarRadiation(c,specs,ref)
# times: every 7 minutes for 40 years
mins=np.arange(0, 40*365.25*1440, 7.0)
t=specs.nondimensionalize(mins*scales.units.minute)
if not X64: t=t.astype(np.float32)
ot=jax.vmap(sr.time_to_orbital_time)(jnp.asarray(t))
for name in ('orbital_phase','synodic_phase'):
    v=np.asarray(getattr(ot,name)); print(name, v.dtype, v.min(), v.max(), 'n<0',(v<0).sum(),'n>=2pi',(v>=2*np.pi).sum(), 'n>=f32(2pi)', (v>=np.float32(2*np.pi)).sum())
# flux bounds at some times
fl=jax.vmap(sr.radiation_flux)(jnp.asarray(t[::5000]))
S=specs.nondimensionalize(rad.TOTAL_SOLAR_IRRADIANCE+rad.SOLAR_IRRADIANCE_VARIATION)
print('flux min',float(fl.min()),'max/S',float(fl.max()/S))
# datetime roundtrip
refdt=np.datetime64('1979-01-01T00:00:00')
times=refdt+np.arange(0,50*365*1440,1,dtype='int64').astype('timedelta64[m]')[::97]
nd=xu.datetime64_to_nondim_time(times,specs,refdt)
back=xu.nondim_time_to_datetime64(nd,specs,refdt)
print('datetime rt bad', (back!=times).sum(), len(times))
