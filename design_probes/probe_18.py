from common import *
import refmodel as rm, functools
M,L,nlon,nlat=5,7,16,9
rad=2.5
gr=sh.Grid(longitude_wavenumbers=M,total_wavenumbers=L,longitude_nodes=nlon,latitude_nodes=nlat,radius=rad)
ref=rm.RefSphere(L+1, 24, 40, rad)
modes=list(rm.modes(L,M))
def coefR(m,l,kind):
    x=np.zeros(gr.modal_shape); x[rm.real_layout_index(m,kind),l]=1; return x
def project(f, Lout):
    out=np.zeros((2*M-1,Lout))
    for m,l,kind in rm.modes(Lout,M):
        y,_,_=ref.Y(m,l,kind); out[rm.real_layout_index(m,kind),l]=ref.integrate(y*f)
    return out
cos2=(1-ref.mu**2)[None,:]
worst={}
for m,l,kind in modes:
    e=coefR(m,l,kind); y,yl,ym=ref.Y(m,l,kind)
    checks={
      'd_dlon': (np.asarray(gr.d_dlon(e)), project(yl,L)),
      'cos_lat_d_dlat': (np.asarray(gr.cos_lat_d_dlat(e)), project(ym,L)),
      'sec_lat_d_dlat_cos2': (np.asarray(gr.sec_lat_d_dlat_cos2(e)), project(-2*ref.mu[None,:]*y+ym,L)),
      'laplacian': (np.asarray(gr.laplacian(e)), -l*(l+1)/rad**2*e),
    }
    for k,(a,b) in checks.items():
        d=np.abs(a[:, :L-1]-b[:, :L-1]).max(); worst[k]=max(worst.get(k,0),d)
print('real', worst)
# Fast with options vs Real
def P(x):  # real -> fast layout
    out=np.zeros(x.shape[:-2]+gf.modal_shape); out[...,0,:L]=x[...,0,:]; out[...,2:2*M,:L]=x[...,1:,:]; return out
res={}
for bsm in (1,2,3,4):
  for st in (True,False):
    for rev in (True,False):
        gf=sh.Grid(longitude_wavenumbers=M,total_wavenumbers=L,longitude_nodes=nlon,latitude_nodes=nlat,radius=rad,
            spherical_harmonics_impl=functools.partial(sh.FastSphericalHarmonics,base_shape_multiple=bsm,stacked_fourier_transforms=st,reverse_einsum_arg_order=rev))
        n=len(modes); E=np.stack([coefR(*md) for md in modes])
        a=np.asarray(gf.to_nodal(P(E)))[:, :nlon,:nlat]; b=np.asarray(gr.to_nodal(E))
        e1=np.abs(a-b).max()
        nodal=np.zeros((nlon*nlat,)+gf.nodal_shape); 
        I=np.eye(nlon*nlat).reshape(nlon*nlat,nlon,nlat); nodal[:, :nlon,:nlat]=I
        a=np.asarray(gf.to_modal(nodal)); b=P(np.asarray(gr.to_modal(I)))
        e2=np.abs(a-b).max()
        ops=['d_dlon','cos_lat_d_dlat','sec_lat_d_dlat_cos2','laplacian','inverse_laplacian']
        e3=max(np.abs(np.asarray(getattr(gf,o)(P(E)))-P(np.asarray(getattr(gr,o)(E)))).max() for o in ops)
        e4=np.abs(np.asarray(gf.clip_wavenumbers(P(E)))-P(np.asarray(gr.clip_wavenumbers(E)))).max()
        e5=np.abs(gf.mask.astype(float)-P(gr.mask.astype(float))).max()
        res[(bsm,st,rev)]=(gf.modal_shape,gf.nodal_shape,e1,e2,e3,e4,e5)
for k,v in res.items(): print(k,v)
