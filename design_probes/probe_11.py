from common import *
from dinosaur import time_integration as ti, filtering
import time
specs=pe.PrimitiveEquationsSpecs.from_si()
M=6; L=M+1
g=sh.Grid(longitude_wavenumbers=M,total_wavenumbers=L,longitude_nodes=4*M,latitude_nodes=2*M+1, radius=specs.radius)
bnd=[0,0.1,0.3,0.45,0.8,1.0]; vert=sc.SigmaCoordinates(bnd); n=5
coords=cs.CoordinateSystem(g,vert)
rng=np.random.default_rng(3); lmax=L-2
m,l=g.modal_mesh
def rot(x,k):
    # real layout rotate by k grid steps
    D=2*np.pi*k/g.longitude_nodes
    y=np.array(x,copy=True)
    for mm in range(1,M):
        c=x[...,2*mm-1,:]; s=x[...,2*mm,:]
        y[...,2*mm-1,:]=c*np.cos(mm*D)-s*np.sin(mm*D); y[...,2*mm,:]=c*np.sin(mm*D)+s*np.cos(mm*D)
    return y
par=(-1.0)**(l+np.abs(m))
def mirror(x,pseudo=False): return x*par*(-1 if pseudo else 1)
orog=rand_modal(rng,g,1,lmax=lmax)[0]*1e-4
tref=np.array([200,230,250,280,300.])
q=np.abs(rand_modal(rng,g,n,lmax=lmax))*1e-3
st=pe.StateWithTime(vorticity=rand_modal(rng,g,n,lmax=lmax,zero_mean=True)*0.1, divergence=rand_modal(rng,g,n,lmax=lmax,zero_mean=True)*0.05,
   temperature_variation=rand_modal(rng,g,n,lmax=lmax)*5, log_surface_pressure=rand_modal(rng,g,1,lmax=lmax)*0.02, sim_time=0.0, tracers={'q':q,'specific_humidity':q})
def T_state(s,f,fo):
    return pe.StateWithTime(vorticity=f(s.vorticity,True),divergence=f(s.divergence),temperature_variation=f(s.temperature_variation),log_surface_pressure=f(s.log_surface_pressure),sim_time=s.sim_time,tracers={k:f(v) for k,v in s.tracers.items()})
for name,f in (('rot3',lambda x,p=False: rot(np.asarray(x),3)),('mirror',lambda x,p=False: mirror(np.asarray(x),p))):
    eqA=pe.MoistPrimitiveEquations(tref,orog,coords,specs); eqB=pe.MoistPrimitiveEquations(tref,np.asarray(f(orog)),coords,specs)
    for fn in ('explicit_terms','implicit_terms'):
        a=T_state(getattr(eqA,fn)(st),f,None); b=getattr(eqB,fn)(T_state(st,f,None))
        d=jax.tree_util.tree_map(lambda x,y: float(np.abs(np.asarray(x)-np.asarray(y)).max()), a,b)
        print(name,fn,max(jax.tree_util.tree_leaves(d)))
    dt=0.01
    t0=time.time()
    filt=[ti.exponential_step_filter(g,dt), ti.horizontal_diffusion_step_filter(g,dt,tau=0.1,order=2)]
    sA=ti.step_with_filters(ti.imex_rk_sil3(eqA,dt),filt); sB=ti.step_with_filters(ti.imex_rk_sil3(eqB,dt),filt)
    x=st; y=T_state(st,f,None)
    for k in range(3):
        x=sA(x); y=sB(y)
        d=jax.tree_util.tree_map(lambda a,b: float(np.abs(np.asarray(a)-np.asarray(b)).max()), T_state(x,f,None),y)
        # invariants
        top=float(np.abs(np.asarray(x.vorticity)[...,-1]).max()); msk=float(np.abs(np.asarray(x.temperature_variation)*(~g.mask)).max())
        print(name,'step',k,max(jax.tree_util.tree_leaves(d)),'top',top,'masked',msk,'mean vort',float(np.abs(np.asarray(x.vorticity)[:,0,0]).max()),'mean div',float(np.abs(np.asarray(x.divergence)[:,0,0]).max()),'time',float(x.sim_time))
    print('time',time.time()-t0)
