from common import *
from dinosaur import vertical_interpolation as vi, sigma_coordinates as S, radiation as rad
import itertools, datetime
# C13 constructor
lat=[0,.25,.5,.75,1]
acc=0; mism=[]
for k in range(2,6):
    for seq in itertools.product(lat,repeat=k):
        valid = seq[0]==0 and seq[-1]==1 and all(b>a for a,b in zip(seq[:-1],seq[1:]))
        try: S.SigmaCoordinates(list(seq)); ok=True
        except ValueError: ok=False
        except Exception as e: ok='exc:'+type(e).__name__
        if ok!=valid: mism.append((seq,ok))
print('C13 ctor mismatches',len(mism),mism[:5])
# C16 vertical regrid
hyb=vi.HybridCoordinates.ECMWF137()
for sig in (S.SigmaCoordinates.equidistant(8), S.SigmaCoordinates([0,.07,.3,.45,.8,1])):
  for sp in (500.,850.,1013.25,1080.):
    n=hyb.layers
    E=np.eye(n).reshape(n,n,1,1)   # batch of basis columns: (batch, level, x,y)
    spa=np.full((1,1),sp)
    out=np.asarray(jax.vmap(lambda f: vi.regrid_hybrid_to_sigma(f,hyb,sig,spa))(E))[...,0,0]  # (n src basis, target)
    W=out.T
    hb=np.asarray(hyb.get_sigma_boundaries(sp)); sb=sig.boundaries
    ov=np.maximum(np.minimum(sb[1:,None],hb[None,1:])-np.maximum(sb[:-1,None],hb[None,:-1]),0)
    cov=ov.sum(1)
    Wref=ov/cov[:,None]
    print('C16v',sig.layers,sp,'min',np.nanmin(W),'rowsum err',np.nanmax(np.abs(np.nansum(W,1)-1)),'vs ref',np.nanmax(np.abs(W-Wref)), 'nan rows',int(np.isnan(W).any(1).sum()), 'uncovered',int((cov==0).sum()))
# C17 pressure<->sigma roundtrip affine
pc=vi.PressureCoordinates(np.array([50,100,200,300,500,700,850,925,1000.]))
sig=S.SigmaCoordinates([0,.07,.3,.45,.8,1])
sp=np.array([[[1013.25,900.],[1050.,700.]]])  # (1,2,2)
p=pc.centers[:,None,None]*np.ones((1,2,2))
field=3.0+0.01*p   # affine in pressure
fs=vi.interp_pressure_to_sigma({'f':field},pc,sig,sp)['f']
expect=3.0+0.01*sig.centers[:,None,None]*sp
print('C17 p->sigma affine err', float(np.nanmax(np.abs(np.asarray(fs)-expect))), 'nans', int(np.isnan(np.asarray(fs)).sum()))
fp=vi.interp_sigma_to_pressure({'f':np.asarray(expect)},pc,sig,sp)['f']
print('C17 sigma->p affine err', float(np.nanmax(np.abs(np.asarray(fp)-field))), 'nans', int(np.isnan(np.asarray(fp)).sum()))
