import jax
jax.config.update('jax_enable_x64', True)
import numpy as np, jax.numpy as jnp
from dinosaur import primitive_equations as pe, sigma_coordinates as sc, coordinate_systems as cs
from dinosaur import spherical_harmonic as sh, scales, shallow_water as sw, layer_coordinates as lc
units=scales.units
def grid(M=5, nodes_order=3, impl=sh.RealSphericalHarmonics, radius=None, spacing='gauss', offset=0.0):
    nlon=nodes_order*M+1
    nlat=(nlon+1)//2
    return sh.Grid(longitude_wavenumbers=M,total_wavenumbers=M+1,longitude_nodes=nlon,latitude_nodes=nlat,latitude_spacing=spacing,spherical_harmonics_impl=impl,radius=radius, longitude_offset=offset)
def rand_modal(rng, g, layers, lmax=None, zero_mean=False, amp=1.0):
    shape=(layers,)+g.modal_shape
    x=rng.standard_normal(shape)*g.mask
    m,l=g.modal_mesh
    if lmax is None: lmax=g.total_wavenumbers-2
    x=x*(l<=lmax)
    if zero_mean: x=x*(l>0)
    return amp*x
def tree_maxabs(t):
    return max(float(jnp.abs(jnp.asarray(x)).max()) for x in jax.tree_util.tree_leaves(t) if jnp.size(x))
def tree_diff(a,b):
    return jax.tree_util.tree_map(lambda x,y: x-y, a,b)
