from common import *
from dinosaur import held_suarez as hs, time_integration as ti
import time
u=units
scaleA=scales.DEFAULT_SCALE
scaleB=scales.Scale(1234.5*u.km, 0.7*u.hour, 3.3*u.kg, 7.5*u.degK)
M=6; L=M+1
bnd=[0,0.1,0.3,0.45,0.8,1.0]; n=5
vert=sc.SigmaCoordinates(bnd)
rng=np.random.default_rng(3); lmax=3
def setup(scale):
    specs=pe.PrimitiveEquationsSpecs.from_si(scale=scale)
    g=sh.Grid(longitude_wavenumbers=M,total_wavenumbers=L,longitude_nodes=4*M+1,latitude_nodes=(4*M+2)//2, radius=specs.radius)
    return specs,g,cs.CoordinateSystem(g,vert)
specsA,gA,cA=setup(scaleA)
base=dict(vort=rand_modal(rng,gA,n,lmax=lmax,zero_mean=True)*1e-5, div=rand_modal(rng,gA,n,lmax=lmax,zero_mean=True)*5e-6, T=rand_modal(rng,gA,n,lmax=lmax)*5,
          lnps=rand_modal(rng,gA,1,lmax=lmax)*0.02, orog=rand_modal(rng,gA,1,lmax=lmax)[0]*300, q=np.abs(rand_modal(rng,gA,n,lmax=lmax))*1e-3)
tref_si=np.array([200,230,250,280,300.])
def run(scale, moist):
    specs,g,c=setup(scale)
    nd=specs.nondimensionalize
    lnps=base['lnps'].copy(); 
    # ps = exp(lnps) * 1e5 Pa -> nondim: add ln(nd(1e5 Pa)) to mean
    lnps[0,0,0]+=np.log(nd(1e5*u.pascal))*np.sqrt(4*np.pi)
    kw=dict(vorticity=nd(base['vort']/u.s), divergence=nd(base['div']/u.s), temperature_variation=nd(base['T']*u.degK), log_surface_pressure=lnps)
    tref=nd(tref_si*u.degK); orog=nd(base['orog']*u.m)
    if moist:
        st=pe.StateWithTime(**kw, sim_time=nd(3600*u.s), tracers={'specific_humidity':base['q']})
        eq=pe.MoistPrimitiveEquations(tref,orog,c,specs)
    else:
        st=pe.State(**kw); eq=pe.PrimitiveEquations(tref,orog,c,specs)
    forcing=hs.HeldSuarezForcing(c,specs,tref)
    e=eq.explicit_terms(st); i=eq.implicit_terms(st)
    tot=jax.tree_util.tree_map(lambda a,b:a+b,e,i)
    dim=lambda x,unit: np.asarray(specs.dimensionalize(np.asarray(x),unit).m)
    out=dict(vort=dim(tot.vorticity,u.s**-2), div=dim(tot.divergence,u.s**-2), T=dim(tot.temperature_variation,u.degK/u.s), lnps=dim(tot.log_surface_pressure,1/u.s))
    if not moist:
        f=forcing.explicit_terms(st)
        out.update(hs_vort=dim(f.vorticity,u.s**-2), hs_div=dim(f.divergence,u.s**-2), hs_T=dim(f.temperature_variation,u.degK/u.s))
        # one step imex
        dt=nd(600*u.s)
        step=ti.imex_rk_sil3(ti.compose_equations([eq,forcing]), dt)
        s1=step(st)
        out.update(step_vort=dim(s1.vorticity,u.s**-1), step_T=dim(s1.temperature_variation,u.degK), step_lnps=np.asarray(s1.log_surface_pressure)-lnps)
    return out
for moist in (False,True):
    a=run(scaleA,moist); b=run(scaleB,moist)
    print('moist',moist,{k:(float(np.abs(a[k]).max()), float(np.abs(a[k]-b[k]).max())) for k in a})
