from common import *
from dinosaur import filtering, time_integration as ti
g=sh.Grid.with_wavenumbers(8)
f=filtering.exponential_filter(g)
for name,leaf in [('scalar',1.0),('np0d',np.float64(3.0)),('vecL',np.ones(9)),('vec3',np.ones(3)),('vec1',np.ones(1)),('modal',np.ones(g.modal_shape)),('nodal',np.ones(g.nodal_shape)),('lvl_modal',np.ones((3,)+g.modal_shape)),('ML_T',np.ones(g.modal_shape[::-1])), ('(2,L)',np.ones((2,9)))]:
    try:
        o=f({'x':leaf}); print(name, np.shape(leaf), 'ok changed=',not np.array_equal(np.asarray(o['x']),leaf))
    except Exception as e: print(name, np.shape(leaf), 'EXC', type(e).__name__)
print(g.modal_shape,g.nodal_shape)
