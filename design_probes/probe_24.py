from common import *
from dinosaur import shallow_water_states as sws, primitive_equations_states as pes, xarray_utils as xu
u=units
scaleB=scales.Scale(1234.5*u.km, 0.7*u.hour, 3.3*u.kg, 7.5*u.degK)
M=8;L=M+1
# SW one_layer under two scales
for scale in (scales.DEFAULT_SCALE, scaleB):
    specs=sw.ShallowWaterSpecs.from_si(scale=scale)
    g=sh.Grid(longitude_wavenumbers=M,total_wavenumbers=L,longitude_nodes=3*M+1,latitude_nodes=(3*M+2)//2, radius=specs.radius)
    coords=cs.CoordinateSystem(g, lc.LayerCoordinates(1))
    lat=g.latitudes; mu=np.sin(lat)
    usi=20*np.cos(lat)*(1+0.5*mu**2)   # m/s
    und=specs.nondimensionalize(usi*u.m/u.s)
    st=sws.multi_layer(und[None], specs.densities, coords)
    eq=sw.ShallowWaterEquations(coords,specs,None,np.array([specs.nondimensionalize(1e4*u.m)*specs.g]))
    tot=jax.tree_util.tree_map(lambda a,b:a+b, eq.explicit_terms(st), eq.implicit_terms(st))
    print('SW steady under scale', 'default' if scale is scales.DEFAULT_SCALE else 'B', {k: float(np.abs(np.asarray(v)).max()) for k,v in tot.asdict().items()}, '2Omega', 2*specs.angular_velocity)
# PE states under two scales
outs=[]
for scale in (scales.DEFAULT_SCALE, scaleB):
    specs=pe.PrimitiveEquationsSpecs.from_si(scale=scale)
    g=sh.Grid(longitude_wavenumbers=M,total_wavenumbers=L,longitude_nodes=3*M+1,latitude_nodes=(3*M+2)//2, radius=specs.radius)
    coords=cs.CoordinateSystem(g, sc.SigmaCoordinates([0,.1,.5,1]))
    fn,aux=pes.steady_state_jw(coords,specs)
    s=fn()
    dim=lambda x,unit: np.asarray(specs.dimensionalize(np.asarray(x),unit).m)
    outs.append(dict(vort=dim(s.vorticity,1/u.s),T=dim(s.temperature_variation,u.degK),tref=dim(aux[xu.REF_TEMP_KEY],u.degK),orog=dim(aux[xu.OROGRAPHY],u.m)))
    fn2,aux2=pes.isothermal_rest_atmosphere(coords,specs,p1=1e3*u.pascal, surface_height=(100*np.cos(g.nodal_mesh[0])*(1-g.nodal_mesh[1]**2))*u.m)
    s2=fn2(jax.random.PRNGKey(0))
    lnps=np.asarray(s2.log_surface_pressure).copy(); lnps[0,0,0]-=np.log(specs.nondimensionalize(1e5*u.pascal))*np.sqrt(4*np.pi)
    outs[-1].update(lnps=lnps, orog2=dim(aux2[xu.OROGRAPHY],u.m))
print({k: float(np.abs(outs[0][k]-outs[1][k]).max()/max(1e-300,np.abs(outs[0][k]).max())) for k in outs[0]})
