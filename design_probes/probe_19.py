from common import *
import refmodel as rm, functools
M,L,nlon,nlat=5,7,16,9
rad=2.5
gr=sh.Grid(longitude_wavenumbers=M,total_wavenumbers=L,longitude_nodes=nlon,latitude_nodes=nlat,radius=rad)
gf=sh.Grid(longitude_wavenumbers=M,total_wavenumbers=L,longitude_nodes=nlon,latitude_nodes=nlat,radius=rad,
            spherical_harmonics_impl=functools.partial(sh.FastSphericalHarmonics,base_shape_multiple=2))
modes=list(rm.modes(L,M))
def coefR(m,l,kind):
    x=np.zeros(gr.modal_shape); x[rm.real_layout_index(m,kind),l]=1; return x
def P(x):
    out=np.zeros(x.shape[:-2]+gf.modal_shape); out[...,0,:L]=x[...,0,:]; out[...,2:2*M,:L]=x[...,1:,:]; return out
E=np.stack([coefR(*md) for md in modes])
for o in ['d_dlon','cos_lat_d_dlat','sec_lat_d_dlat_cos2','laplacian','inverse_laplacian']:
    d=np.abs(np.asarray(getattr(gf,o)(P(E)))-P(np.asarray(getattr(gr,o)(E))))
    idx=np.argwhere(d>1e-12)
    print(o, d.max(), 'n bad',len(idx), 'bad output l values', sorted(set(idx[:,2].tolist())) if len(idx) else None, 'from input modes', sorted(set(modes[i][1] for i in idx[:,0])) if len(idx) else None)
print(gf.modal_shape, gf.modal_axes)
a,b=gf._derivative_recurrence_weights
print('b last cols', b[:, L-2:])
a2,b2=gr._derivative_recurrence_weights
print('real b last', b2[:, L-2:])
