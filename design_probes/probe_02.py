import jax
jax.config.update('jax_enable_x64', True)
import numpy as np, jax.numpy as jnp
from dinosaur import primitive_equations as pe, sigma_coordinates as sc, pytree_utils, time_integration as ti
from dinosaur import spherical_harmonic as sh, filtering
# C03: sparse vs dense temperature implicit on non-equidistant
for b in ([0,.5,1],[0,.2,1],[0,.1,.5,1.0],[0,.25,.5,.75,1]):
    c=sc.SigmaCoordinates(b); n=c.layers
    for tref in (np.full(n,250.), 250+10*np.arange(n)):
        d=np.eye(n)[:, :, None,None]  # each column basis  shape (h, n,1,1)? need (h,m,l)
        d=np.eye(n).reshape(n,n,1)
        dense=pe.get_temperature_implicit(d,c,tref,0.28,'dense')
        sparse=pe.get_temperature_implicit(d,c,tref,0.28,'sparse')
        gd=pe.get_geopotential_diff(d,c,287.,'dense'); gs=pe.get_geopotential_diff(d,c,287.,'sparse')
        print(b, tref, 'H err', np.abs(dense-sparse).max(), 'G err', np.abs(gd-gs).max())
# C19
try:
    print(pytree_utils.flatten_dict({'ab':{}, 'ac':{}, 'x':1}))
except Exception as e: print('C19', repr(e))
# C18
specs=pe.PrimitiveEquationsSpecs.from_si()
bad=[s for s in range(0,2000) if specs.dimensionalize_timedelta64(specs.nondimensionalize_timedelta64(np.timedelta64(s,'s')))!=np.timedelta64(s,'s')]
print('C18 bad count', len(bad), bad[:10])
arr=np.arange(2000).astype('timedelta64[s]')
rt=specs.dimensionalize_timedelta64(specs.nondimensionalize_timedelta64(arr))
print('C18 array bad', (rt!=arr).sum())
# C06 length validation
eq=ti.ImplicitExplicitODE.from_functions(lambda x:x, lambda x:0*x, lambda x,s:x)
for a,b,g in [(4,3,3),(5,3,3),(4,3,4),(4,3,2),(4,2,3),(3,3,3),(4,4,3),(5,4,3)]:
    try:
        f=ti.low_storage_runge_kutta_crank_nicolson([0.]*a,[0.]*b,[0.]*g,eq,0.1); f(jnp.ones(2)); print('C06',(a,b,g),'accepted')
    except Exception as e: print('C06',(a,b,g),type(e).__name__)
# C07 filter NaN on padded
g=sh.Grid(longitude_wavenumbers=4,total_wavenumbers=5,longitude_nodes=13,latitude_nodes=7,spherical_harmonics_impl=lambda **kw: sh.FastSphericalHarmonics(base_shape_multiple=4, **kw))
print(g.modal_shape, g.modal_padding)
f=ti.horizontal_diffusion_step_filter(g, 0.1, 1.0, 1)
out=f(None, np.ones(g.modal_shape))
print('C07 nan count', np.isnan(np.asarray(out)).sum())
