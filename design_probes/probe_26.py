import os, time
os.environ['XLA_FLAGS']='--xla_force_host_platform_device_count=8'
from common import *
from dinosaur import time_integration as ti
specs=pe.PrimitiveEquationsSpecs.from_si()
M,L,nlon,nlat=5,6,16,8
def build(mesh, bnd):
    g=sh.Grid(longitude_wavenumbers=M,total_wavenumbers=L,longitude_nodes=nlon,latitude_nodes=nlat,radius=specs.radius,spherical_harmonics_impl=sh.FastSphericalHarmonics)
    c=cs.CoordinateSystem(g, sc.SigmaCoordinates(bnd), spmd_mesh=mesh)
    return c
rng=np.random.default_rng(0)
for bnd in ([0,.25,.5,.75,1.0],[0,.1,.3,.6,1.0]):
    c0=build(None,bnd); g0=c0.horizontal; n=4
    def rm_(layers,zero_mean=False,amp=1.0,lmax=L-2):
        x=rng.standard_normal((layers,)+g0.modal_shape)*g0.mask; m,l=g0.modal_mesh; x=x*(l<=lmax)
        if zero_mean: x=x*(l>0)
        return amp*x
    base=dict(vorticity=rm_(n,True,0.1),divergence=rm_(n,True,0.05),temperature_variation=rm_(n,amp=5),log_surface_pressure=rm_(1,amp=0.02))
    orog0=rm_(1,amp=1e-4)[0]; tref=np.array([220,240,260,290.])
    def run(c):
        g=c.horizontal
        pad=lambda x: np.pad(x,[(0,0)]*(x.ndim-2)+[(0,g.modal_shape[0]-g0.modal_shape[0]),(0,g.modal_shape[1]-g0.modal_shape[1])])
        st=pe.State(**{k:pad(v) for k,v in base.items()})
        eq=pe.PrimitiveEquations(tref,pad(orog0),c,specs)
        dt=0.01
        step=ti.step_with_filters(ti.imex_rk_sil3(eq,dt),[ti.exponential_step_filter(g,dt)])
        t=time.time(); out=jax.jit(step)(st); out=jax.tree_util.tree_map(np.asarray,out); dtm=time.time()-t
        crop=lambda x: x[..., :g0.modal_shape[0], :g0.modal_shape[1]]
        return jax.tree_util.tree_map(crop,out), dtm, out
    ref,t0,_=run(c0)
    print('bnd',bnd,'unsharded time %.1f'%t0)
    for shape in ((2,1,1),(1,2,2),(2,2,2),(4,1,2)):
        devs=np.array(jax.devices()[:int(np.prod(shape))]).reshape(shape)
        mesh=jax.sharding.Mesh(devs,['z','x','y'])
        try:
            o,t1,full=run(build(mesh,bnd))
            d=max(float(np.abs(a-b).max()) for a,b in zip(jax.tree_util.tree_leaves(o),jax.tree_util.tree_leaves(ref)))
            fin=all(np.isfinite(x).all() for x in jax.tree_util.tree_leaves(full))
            print('  mesh',shape,'max diff %.2e'%d,'finite',fin,'time %.1f'%t1)
        except Exception as e:
            print('  mesh',shape,'EXC',type(e).__name__,str(e)[:200])
