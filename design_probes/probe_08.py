from common import *
from dinosaur import horizontal_interpolation as hi, vertical_interpolation as vi
import itertools, time
def mk(nlon,nlat,spacing,offset):
    return sh.Grid(longitude_wavenumbers=0,total_wavenumbers=0,longitude_nodes=nlon,latitude_nodes=nlat,latitude_spacing=spacing,longitude_offset=offset)
def areas(g):
    lat=g.latitudes; lon=g.longitudes
    lb=np.asarray(hi._latitude_cell_bounds(lat))
    alat=np.sin(lb[1:])-np.sin(lb[:-1])
    # lon cells: midpoints periodic
    n=len(lon); w=np.full(n,2*np.pi/n)
    return w[:,None]*alat[None,:]
worst=0; cnt=0; bad=[]
t=time.time()
sizes=[(4,2),(5,3),(6,3),(8,4),(7,5),(12,6),(16,8)]
offs=[0.0,0.1,np.pi/5, 1.0, 3.0, 6.0]
for (a,b) in itertools.product(sizes,sizes):
  for sa,sb in itertools.product(['gauss','equiangular','equiangular_with_poles'],repeat=2):
    for oa,ob in itertools.product(offs,repeat=2):
        gs=mk(*a,sa,oa); gt=mk(*b,sb,ob)
        r=hi.ConservativeRegridder(gs,gt)
        lw=np.asarray(r.lon_weights); tw=np.asarray(r.lat_weights)
        cnt+=1
        ok=(lw>=-1e-15).all() and (tw>=-1e-15).all() and np.allclose(lw.sum(1),1,atol=1e-12) and np.allclose(tw.sum(1),1,atol=1e-12)
        As=areas(gs); At=areas(gt)
        # conservation: sum_t At[t] W[t,s] = As[s]
        cl=np.abs((At[:,0]/At[0,0]*(2*np.pi/b[0]))@lw - 2*np.pi/a[0]).max()
        alat_t=At[0]/(2*np.pi/b[0]); alat_s=As[0]/(2*np.pi/a[0])
        ct=np.abs(alat_t@tw-alat_s).max()
        if not ok or cl>1e-12 or ct>1e-12:
            bad.append((a,b,sa,sb,oa,ob,ok,cl,ct))
print(cnt,'pairs', len(bad),'bad', time.time()-t)
for x in bad[:15]: print(x)
