from common import *
import time
specs=pe.PrimitiveEquationsSpecs.from_si()
g=grid(M=6, nodes_order=4, radius=specs.radius)
vert=sc.SigmaCoordinates([0,0.1,0.3,0.45,0.8,1.0]); n=vert.layers
coords=cs.CoordinateSystem(g,vert)
rng=np.random.default_rng(0)
R=specs.R; grav=specs.g
# 1. resting isothermal over orography
T0=270.
orog=rand_modal(rng,g,1,lmax=g.total_wavenumbers-2)[0]*1e-4   # nondim heights
lnps=-grav*orog/(R*T0); lnps=lnps[None]; lnps[0,0,0]+=0.3
for tref in (np.full(n,T0), np.array([200,230,250,280,300.])):
    Tv=np.zeros((n,)+g.modal_shape); Tv[:,0,0]=(T0-tref)*np.sqrt(4*np.pi)
    st=pe.State(vorticity=np.zeros((n,)+g.modal_shape),divergence=np.zeros((n,)+g.modal_shape),temperature_variation=Tv,log_surface_pressure=lnps)
    eq=pe.PrimitiveEquations(tref,orog,coords,specs)
    tot=jax.tree_util.tree_map(lambda a,b:a+b, eq.explicit_terms(st), eq.implicit_terms(st))
    print('rest', {k: float(np.abs(jnp.asarray(v)).max()) for k,v in tot.asdict().items() if k!='tracers'}, 'scale', float(np.abs(grav*g.laplacian(orog)).max()))
# 2. solid body rotation: u=U cos(lat): psi = -a U sin(lat): vort = 2U sin/a ; in modal: sin(lat) = Y_1^0 * sqrt(4pi/3)
a=specs.radius; Om=specs.angular_velocity
m,l=g.modal_mesh
def Y10coef(c): 
    x=np.zeros(g.modal_shape); x[0,1]=c*np.sqrt(4*np.pi/3); return x
U=0.07
vort=Y10coef(2*U/a)
# variant A: any T profile, uniform lnps, orography balance: Phi_s = (U^2+2 Om a U) cos^2/2 ; cos^2 = 1 - sin^2 ; sin^2 = (2 P2 +1)/3 ; Y20 = sqrt(5/4pi) P2
def cos2coef(c):
    x=np.zeros(g.modal_shape)
    # cos^2 = 2/3 - (2/3) P2
    x[0,0]=c*(2/3)*np.sqrt(4*np.pi); x[0,2]=-c*(2/3)*np.sqrt(4*np.pi/5); return x
phis=cos2coef((U**2+2*Om*a*U)/2)
orogA=phis/grav
Tprof=np.array([210,230,250,270,295.])
for tref in (np.full(n,250.), np.array([200,230,250,280,300.])):
    Tv=np.zeros((n,)+g.modal_shape); Tv[:,0,0]=(Tprof-tref)*np.sqrt(4*np.pi)
    q=np.zeros((n,)+g.modal_shape); q[:,0,0]=0.01*np.sqrt(4*np.pi)
    for cls,stc,kw in ((pe.PrimitiveEquations,pe.State,{}),(pe.MoistPrimitiveEquations,pe.StateWithTime,dict(sim_time=0.,tracers={'specific_humidity':q}))):
        st=stc(vorticity=np.stack([vort]*n),divergence=np.zeros((n,)+g.modal_shape),temperature_variation=Tv,log_surface_pressure=np.zeros((1,)+g.modal_shape),**kw)
        eq=cls(tref,orogA,coords,specs)
        tot=jax.tree_util.tree_map(lambda a,b:a+b, eq.explicit_terms(st), eq.implicit_terms(st))
        print('solidA',cls.__name__, {k: float(np.abs(jnp.asarray(v)).max()) for k,v in tot.asdict().items() if k not in('tracers','sim_time')})
# variant B isothermal flat, lnps = (U^2+2 Om a U) cos^2 /(2 R T0)
lnpsB=cos2coef((U**2+2*Om*a*U)/(2*R*T0))[None]
for tref in (np.full(n,T0), np.array([200,230,250,280,300.])):
    Tv=np.zeros((n,)+g.modal_shape); Tv[:,0,0]=(T0-tref)*np.sqrt(4*np.pi)
    st=pe.State(vorticity=np.stack([vort]*n),divergence=np.zeros((n,)+g.modal_shape),temperature_variation=Tv,log_surface_pressure=lnpsB)
    eq=pe.PrimitiveEquations(tref,np.zeros(g.modal_shape),coords,specs)
    tot=jax.tree_util.tree_map(lambda a,b:a+b, eq.explicit_terms(st), eq.implicit_terms(st))
    print('solidB', {k: float(np.abs(jnp.asarray(v)).max()) for k,v in tot.asdict().items() if k not in('tracers','sim_time')})
