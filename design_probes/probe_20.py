from common import *
from dinosaur import time_integration as ti, filtering, pytree_utils as pu, xarray_utils as xu
import itertools, functools
# C14 nested scan values+grads
def f(c,x):
    c2={'a':jnp.sin(c['a'])*1.1+x*c['b'][0], 'b':c['b']*0.9+jnp.array([x,1.0])}
    return c2, (c2['a']*x, c['b'])
def facts(n,depth=4):
    out=[[n]]
    def rec(n,prefix):
        for d in range(2,n):
            if n%d==0:
                out.append(prefix+[d,n//d]); 
                if len(prefix)+2<depth: rec2(n//d,prefix+[d])
    def rec2(n,prefix):
        for d in range(2,n):
            if n%d==0:
                out.append(prefix+[d,n//d])
                if len(prefix)+2<depth: rec2(n//d,prefix+[d])
    rec2(n,[])
    return out
bad=0;cnt=0
for n in (4,6,8,12):
    xs=jnp.linspace(0.1,1.,n); init={'a':jnp.array(0.3),'b':jnp.array([0.2,-0.1])}
    def loss(scan):
        def L(init,xs):
            c,(o1,o2)=scan(f,init,xs); return c['a']+jnp.sum(c['b'])+jnp.sum(o1*jnp.arange(n))+jnp.sum(o2)
        return L
    ref_v=jax.lax.scan(f,init,xs); ref_g=jax.grad(loss(jax.lax.scan),(0,1))(init,xs)
    for nl in facts(n):
        scan=functools.partial(ti.nested_checkpoint_scan,nested_lengths=nl)
        v=scan(f,init,xs); g=jax.grad(loss(scan),(0,1))(init,xs)
        dv=max(float(jnp.abs(a-b).max()) for a,b in zip(jax.tree_util.tree_leaves(v),jax.tree_util.tree_leaves(ref_v)))
        dg=max(float(jnp.abs(a-b).max()) for a,b in zip(jax.tree_util.tree_leaves(g),jax.tree_util.tree_leaves(ref_g)))
        cnt+=1
        if dv>1e-13 or dg>1e-13: bad+=1; print('BAD',n,nl,dv,dg)
print('nested', cnt, 'bad', bad)
# trajectory_from_step
step=lambda x: {'u':2*x['u']+1+x['v'][0],'v':x['v']*0.5+jnp.array([1.,x['u']])}
x0={'u':jnp.array(1.0),'v':jnp.array([0.5,-1.])}
bad=0
for outer,inner,swi in itertools.product(range(1,5),range(1,5),(False,True)):
    fin,traj=ti.trajectory_from_step(step,outer,inner,start_with_input=swi)(x0)
    x=x0; frames=[]
    for k in range(outer):
        if swi: frames.append(x)
        for _ in range(inner): x=step(x)
        if not swi: frames.append(x)
    exp=jax.tree_util.tree_map(lambda *a: jnp.stack(a),*frames)
    d=max(float(jnp.abs(a-b).max()) for a,b in zip(jax.tree_util.tree_leaves((fin,traj)),jax.tree_util.tree_leaves((x,exp))))
    if d>1e-12: bad+=1; print('BAD traj',outer,inner,swi,d)
print('traj bad',bad)
# C15 array strengths
g=sh.Grid.with_wavenumbers(8)
att=np.expand_dims(np.array([1.0,2.0]),(1,2,3))
inp=np.ones((2,3)+g.modal_shape)
out=filtering.exponential_filter(g,attenuation=att)(inp)
for i in range(2):
    e=filtering.exponential_filter(g,attenuation=float(att[i].squeeze()))(inp[i])
    print('C15 slice',i,float(np.abs(np.asarray(out[i])-np.asarray(e)).max()))
tree={'s':1.0,'t':np.float64(3.0),'vec':np.ones(g.modal_shape[1]),'m':np.ones(g.modal_shape),'n':np.ones(g.nodal_shape)}
o=filtering.exponential_filter(g)(tree)
print({k:bool(np.array_equal(np.asarray(o[k]),tree[k])) for k in tree})
# C19 flatten roundtrip sample
d={'a':{'b':1,'c':{}},'x':{},'y':{'z':{'w':2}}}
fl,ek=pu.flatten_dict(d); print(pu.unflatten_dict(fl,ek)==d)
