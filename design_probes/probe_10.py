from common import *
from dinosaur import vertical_interpolation as vi
import itertools
bad=[]
cnt=0
lat=[0.0,0.25,0.5,0.75,1.0,1.5,2.0]
for k in (2,3,4):
    for xp in itertools.combinations(lat,k):
        xp=np.array(xp)
        for fp in itertools.product([-1.0,0.0,2.0],repeat=k):
            fp=np.array(fp)
            qs=np.array(sorted(set(list(xp)+[-1.0,-0.125,0.125,0.3,0.6,0.9,1.1,1.75,2.5,3.0]+[(a+b)/2 for a,b in zip(xp[:-1],xp[1:])])))
            a=np.asarray(jax.vmap(vi._dot_interp,(0,None,None))(qs,xp,fp))
            b=np.interp(qs,xp,fp)
            c=np.asarray(jax.vmap(vi.linear_interp_with_linear_extrap,(0,None,None))(qs,xp,fp))
            cnt+=1
            if np.abs(a-b).max()>1e-12: bad.append(('dot',xp,fp,qs[np.abs(a-b)>1e-12],a[np.abs(a-b)>1e-12],b[np.abs(a-b)>1e-12]))
            # linear extrap oracle
            def lin(q):
                if q<xp[0]: i=0
                elif q>=xp[-1]: i=k-2
                else: i=np.searchsorted(xp,q,side='right')-1
                return fp[i]+(fp[i+1]-fp[i])*(q-xp[i])/(xp[i+1]-xp[i])
            d=np.array([lin(q) for q in qs])
            if np.abs(c-d).max()>1e-12: bad.append(('lin',xp,fp))
print(cnt,len(bad)); print(bad[:5])
# safe extrap
xp=np.array([0.2,0.5,0.6]); fp=np.array([1.,3.,0.])
qs=np.array([-0.5,-0.1,-0.1+1e-12,0.0,0.1,0.2,0.6,0.65,0.7,0.7+1e-12,0.8])
print(np.asarray(jax.vmap(vi._linear_interp_with_safe_extrap,(0,None,None))(qs,xp,fp)))
