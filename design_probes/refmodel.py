"""Prototype reference model: pointwise continuous sigma-coordinate primitive equations + Galerkin projection."""
import numpy as np, scipy.special as sps

class RefSphere:
    def __init__(self, L, nlat, nlon, radius):
        self.L=L; self.a=radius
        mu,w=np.polynomial.legendre.leggauss(nlat)
        self.mu=mu; self.wmu=w
        self.lam=np.arange(nlon)*2*np.pi/nlon; self.wlam=2*np.pi/nlon
        out=sps.assoc_legendre_p_all(L-1, L-1, mu, norm=True, diff_n=1)  # (2, L, 2L-1, nlat)
        self.P=out[0]; self.dP=out[1]
        # basis list: (kind, m, l)
    def Y(self, m, l, kind):
        """real orthonormal harmonic on unit sphere and its (cos(lat)*gradient) components.
        returns Y, dY/dlam, (1-mu^2) dY/dmu  each (nlon,nlat)"""
        P=self.P[l,m]; dP=self.dP[l,m]
        lam=self.lam[:,None]
        if m==0:
            c=1/np.sqrt(2*np.pi); tr=np.ones_like(lam); dtr=np.zeros_like(lam)
        elif kind=='c':
            c=1/np.sqrt(np.pi); tr=np.cos(m*lam); dtr=-m*np.sin(m*lam)
        else:
            c=1/np.sqrt(np.pi); tr=np.sin(m*lam); dtr=m*np.cos(m*lam)
        return c*tr*P[None,:], c*dtr*P[None,:], c*tr*((1-self.mu**2)*dP)[None,:]
    def integrate(self, f):
        return np.einsum('...ij,j->...', f, self.wmu)*self.wlam*1.0  # unit sphere

def real_layout_index(m, kind):
    # RealSphericalHarmonics: [0, +1, -1, ...]: index 2m-1 = cos, 2m = sin
    if m==0: return 0
    return 2*m-1 if kind=='c' else 2*m

def modes(L, M):
    for m in range(M):
        for l in range(m, L):
            for kind in (('c',) if m==0 else ('c','s')):
                yield m,l,kind

def synth(ref, coef, M, with_grad=True):
    """coef: (..., 2M-1, L) in real layout -> field, dlam, (1-mu^2)dmu at ref points"""
    L=ref.L
    f=0; fl=0; fm=0
    lead=coef.shape[:-2]
    f=np.zeros(lead+(len(ref.lam),len(ref.mu))); fl=np.zeros_like(f); fm=np.zeros_like(f)
    for m,l,kind in modes(coef.shape[-1], M):
        c=coef[..., real_layout_index(m,kind), l]
        if not np.any(c): continue
        y,yl,ym=ref.Y(m,l,kind)
        f+=c[...,None,None]*y; fl+=c[...,None,None]*yl; fm+=c[...,None,None]*ym
    return f, fl, fm

def dry_tendency(ref, M, Lout, state, T_abs_mean, orog, sigma_bounds, R, kappa, g, Omega):
    """state: dict of modal arrays in Real layout (vorticity, divergence, temperature(anomaly about T_abs_mean per layer), lnps).
    Returns total tendency coefficients for l<Lout. Uses absolute temperature only."""
    a=ref.a
    sb=np.asarray(sigma_bounds); ds=np.diff(sb); sc=(sb[1:]+sb[:-1])/2; n=len(ds)
    L=state['vorticity'].shape[-1]
    lvec=np.arange(L); inv=np.zeros(L); inv[1:]=-a**2/(lvec[1:]*(lvec[1:]+1))
    psi=state['vorticity']*inv; chi=state['divergence']*inv
    cos2=(1-ref.mu**2)[None,None,:]
    zeta,_,_=synth(ref,state['vorticity'],M); delta,_,_=synth(ref,state['divergence'],M)
    _,psil,psim=synth(ref,psi,M); _,chil,chim=synth(ref,chi,M)
    # U=u cos, V=v cos
    U=(chil-psim)/a; V=(psil+chim)/a
    Tp,Tl,Tm=synth(ref,state['temperature'],M)
    T=Tp+T_abs_mean[:,None,None]
    lp,lpl,lpm=synth(ref,state['lnps'],M)   # (1,...)
    # grad lnps components times cos: (lpl/a, lpm/a)
    Gexp=(U*lpl+V*lpm)/(a*cos2)   # v . grad lnps
    Gf=delta+Gexp
    cum=np.cumsum(Gf*ds[:,None,None],axis=0)
    tot=cum[-1]
    sig_half=np.cumsum(ds)[:-1]
    sdot=sig_half[:,None,None]*tot[None]-cum[:-1]    # at interior boundaries (n-1)
    def vadv(X):
        dX=(X[1:]-X[:-1])/np.diff(sc)[:,None,None]
        flux=sdot*dX
        pad=np.zeros((1,)+X.shape[1:])
        fl=np.concatenate([pad,flux,pad],0)
        return 0.5*(fl[1:]+fl[:-1])     # sigma_dot dX/dsigma at centers
    f=2*Omega*ref.mu[None,None,:]
    # F vector (times cos): F_u cos = -(zeta+f) V + sdot dU/dsigma + R T dlnps/dlam / a
    Fu=-(zeta+f)*V+vadv(U)+R*T*lpl/a
    Fv=(zeta+f)*U+vadv(V)+R*T*lpm/a
    KE=(U**2+V**2)/(2*cos2)
    # geopotential: Phi_k = g zs + R * sum_j G[k,j] T_j   (trapezoid in log sigma)
    alpha=np.diff(np.log(sc),append=0)/2; alpha[-1]=-np.log(sc[-1])
    Gm=np.zeros((n,n))
    for j in range(n):
        Gm[j,j]=alpha[j]
        for k in range(j+1,n): Gm[j,k]=alpha[k]+alpha[k-1]
    zs,_,_=synth(ref,orog[None],M)
    Phi=g*zs+R*np.einsum('jk,kxy->jxy',Gm,T)
    # omega/p
    cumm=np.concatenate([np.zeros((1,)+cum.shape[1:]),cum[:-1]],0)
    alpham=np.concatenate([[0],alpha[:-1]])
    omp=Gexp-(alpha[:,None,None]*cum+alpham[:,None,None]*cumm)/ds[:,None,None]
    dT=-(U*Tl+V*Tm)/(a*cos2)-vadv(T)+kappa*T*omp
    dlnps=-tot[None]
    out={k:np.zeros(v.shape[:-1]+(Lout,)) for k,v in state.items()}
    for m,l,kind in modes(Lout,M):
        y,yl,ym=ref.Y(m,l,kind); i=real_layout_index(m,kind)
        # grad Y . F  = (yl*Fu_cos + ym*Fv_cos)/(a cos^2)
        out['divergence'][:,i,l]=ref.integrate((yl*Fu+ym*Fv)/(a*cos2))+ (l*(l+1)/a**2)*ref.integrate(y*(Phi+KE))
        # -k.curl F -> int gradY . (F x k) , Fxk=(Fv,-Fu)
        out['vorticity'][:,i,l]=ref.integrate((yl*Fv-ym*Fu)/(a*cos2))
        out['temperature'][:,i,l]=ref.integrate(y*dT)
        out['lnps'][:,i,l]=ref.integrate(y*dlnps)
    return out
