from common import *
from dinosaur import radiation as rad
import datetime
specs=pe.PrimitiveEquationsSpecs.from_si()
for name in ('T21','T42','TL63','T85'):
    g=getattr(sh.Grid,name)(radius=specs.radius); c=cs.CoordinateSystem(g, sc.SigmaCoordinates.equidistant(2))
    sr=rad.SolarRadiation(c,specs,datetime.datetime(1979,1,1))
    ts=specs.nondimensionalize(np.arange(0,366*24,5.0)*units.hour)
    worst=0
    for t in ts[::7]:
        fl=sr.radiation_flux(t)
        ot=sr.time_to_orbital_time(t)
        S=rad.get_direct_solar_irradiance(ot.orbital_phase, sr.total_solar_irradiance, sr.solar_irradiance_variation)
        mean=g.integrate(fl)/(4*np.pi*specs.radius**2)
        worst=max(worst, abs(float(mean/(S/4))-1))
    print(name, g.nodal_shape, 'worst rel err', worst)
