import jax
jax.config.update('jax_enable_x64', True)
import numpy as np, jax.numpy as jnp, math
from dinosaur import time_integration as ti
def eq_for(lam):
    A=jnp.array([[lam.real,-lam.imag],[lam.imag,lam.real]])
    return ti.ImplicitExplicitODE.from_functions(lambda u:0*u, lambda u:A@u, lambda u,eta: jnp.linalg.solve(jnp.eye(2)-eta*A,u))
methods=dict(euler=ti.backward_forward_euler, cn_rk2=ti.crank_nicolson_rk2, rk3=ti.crank_nicolson_rk3, rk4=ti.crank_nicolson_rk4, sil3=ti.imex_rk_sil3)
mags=10.0**np.arange(-3,6.01,0.5); angs=np.deg2rad([90,91,95,105,135,170,180])
for name,m in methods.items():
    worst=0; arg=None
    for r in mags:
        for a in angs:
            z=r*np.exp(1j*a)
            step=m(eq_for(z),1.0)
            M=np.stack([np.asarray(step(jnp.array([1.,0.]))),np.asarray(step(jnp.array([0.,1.])))],1)
            rho=max(abs(np.linalg.eigvals(M)))
            if rho>worst: worst=rho; arg=(r,np.rad2deg(a))
    print(name,'max |R|',worst,arg)
# leapfrog
for alpha in (0.5,):
    worst=0
    for r in mags:
        for a in angs:
            z=r*np.exp(1j*a)
            step=ti.semi_implicit_leapfrog(eq_for(z),1.0,alpha)
            cols=[]
            for e in np.eye(4):
                p,c=jnp.array(e[:2]),jnp.array(e[2:])
                c2,f=step((p,c)); cols.append(np.concatenate([np.asarray(c2),np.asarray(f)]))
            rho=max(abs(np.linalg.eigvals(np.stack(cols,1))))
            worst=max(worst,rho)
    print('leapfrog',alpha,'max rho',worst)
