from common import *
import time
rng=np.random.default_rng(0)
specs=pe.PrimitiveEquationsSpecs.from_si()
g=grid(M=6, nodes_order=4, radius=specs.radius)
bnd=[0,0.1,0.3,0.45,0.8,1.0]
vert=sc.SigmaCoordinates(bnd); n=vert.layers
coords=cs.CoordinateSystem(g,vert)
orog=rand_modal(rng,g,1,lmax=3)[0]*1e-4
def total(eqcls, tref, state):
    eq=eqcls(tref, orog, coords, specs)
    e=eq.explicit_terms(state); i=eq.implicit_terms(state)
    return jax.tree_util.tree_map(lambda a,b:a+b, e, i)
lmax=2
T_abs_const=np.array([250,260,255,270,290.])  # physical mean per layer
trefA=np.full(n,260.); trefB=np.array([200,230,250,280,300.])
def mkstate(cls, tref, tracers=None, **kw):
    # absolute temperature = tref + T' ; fix absolute
    Tvar=rand_modal(np.random.default_rng(1),g,n,lmax=lmax)*5
    c00=pe._CONSTANT_NORMALIZATION_FACTOR
    Tvar[:,0,0]=(T_abs_const-tref)*np.sqrt(4*np.pi)   # exact normalisation sqrt(4pi)
    r=np.random.default_rng(2)
    d=dict(vorticity=rand_modal(r,g,n,lmax=lmax,zero_mean=True)*0.1, divergence=rand_modal(r,g,n,lmax=lmax,zero_mean=True)*0.05,
      temperature_variation=Tvar, log_surface_pressure=rand_modal(r,g,1,lmax=lmax)*0.02, **kw)
    if tracers is not None: d['tracers']=tracers
    return cls(**d)
print('sqrt4pi', np.sqrt(4*np.pi), pe._CONSTANT_NORMALIZATION_FACTOR)
# dry
t=time.time()
A=total(pe.PrimitiveEquations, trefA, mkstate(pe.State,trefA)); B=total(pe.PrimitiveEquations, trefB, mkstate(pe.State,trefB))
print('dry diff', {k: float(np.abs(v).max()) for k,v in tree_diff(A,B).asdict().items() if k!='tracers'}, 'scale', tree_maxabs(A), time.time()-t)
# moist
q=np.abs(rand_modal(np.random.default_rng(5),g,n,lmax=lmax))*1e-3; q[:,0,0]=0.01*np.sqrt(4*np.pi)
tr={'specific_humidity':q}
A=total(pe.MoistPrimitiveEquations, trefA, mkstate(pe.StateWithTime,trefA,tr,sim_time=0.)); B=total(pe.MoistPrimitiveEquations, trefB, mkstate(pe.StateWithTime,trefB,tr,sim_time=0.))
dd=tree_diff(A,B).asdict()
print('moist diff', {k: float(np.abs(v).max()) for k,v in dd.items() if k not in('tracers',)}, float(np.abs(dd['tracers']['specific_humidity']).max()),'scale', {k: float(np.abs(jnp.asarray(v)).max()) for k,v in A.asdict().items() if k!='tracers'})
tr={'specific_humidity':q, 'specific_cloud_liquid_water_content':q*0.1, 'specific_cloud_ice_water_content':q*0.05}
A=total(pe.MoistPrimitiveEquationsWithCloudMoisture, trefA, mkstate(pe.StateWithTime,trefA,tr,sim_time=0.)); B=total(pe.MoistPrimitiveEquationsWithCloudMoisture, trefB, mkstate(pe.StateWithTime,trefB,tr,sim_time=0.))
dd=tree_diff(A,B).asdict()
print('cloud diff', {k: float(np.abs(v).max()) for k,v in dd.items() if k not in('tracers',)},'scale', {k: float(np.abs(jnp.asarray(v)).max()) for k,v in A.asdict().items() if k!='tracers'})
