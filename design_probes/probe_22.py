from common import *
from dinosaur import pytree_utils as pu, xarray_utils as xu, vertical_interpolation as vi
import itertools, xarray
keys=['a','ab','ac','b']
inner=[1,{}]+[{k:v} for k in ('a','ab') for v in (1,{})]+[{'a':{}, 'ab':{}},{'a':1,'ab':{}}]
ds=[]
for r in range(0,4):
    for ks in itertools.combinations(keys,r):
        for vs in itertools.product(range(len(inner)),repeat=r):
            ds.append({k:inner[i] for k,i in zip(ks,vs)})
print('dicts',len(ds))
bad={}
for d in ds:
    try:
        fl,ek=pu.flatten_dict(d); back=pu.unflatten_dict(fl,ek)
        if back!=d: bad.setdefault('mismatch',[]).append(d)
    except Exception as e:
        bad.setdefault(type(e).__name__+':'+str(e)[:40],[]).append(d)
for k,v in bad.items(): print(k,len(v),v[:3])
cnt=0;badc=[]
for impl in (sh.RealSphericalHarmonics, sh.FastSphericalHarmonics):
  for M in (3,8):
    for spacing in ('gauss','equiangular','equiangular_with_poles'):
      for off in (0.0,0.3):
        for radius in (None,2.5):
          for vert in (sc.SigmaCoordinates([0,.1,.5,1]), lc.LayerCoordinates(3), vi.PressureCoordinates([100,500,850.])):
            g=sh.Grid.with_wavenumbers(M,latitude_spacing=spacing,longitude_offset=off,radius=radius,spherical_harmonics_impl=impl)
            c=cs.CoordinateSystem(g,vert)
            dsx=xarray.Dataset(attrs=c.asdict())
            try:
                c2=xu.coordinate_system_from_attrs(dsx.attrs)
                ok=(c2.horizontal.longitude_wavenumbers==g.longitude_wavenumbers and c2.horizontal.total_wavenumbers==g.total_wavenumbers and c2.horizontal.longitude_nodes==g.longitude_nodes and c2.horizontal.latitude_nodes==g.latitude_nodes
                    and c2.horizontal.latitude_spacing==spacing and c2.horizontal.longitude_offset==off and c2.horizontal.radius==g.radius and type(c2.vertical)==type(vert) and c2.vertical==vert)
            except Exception as e:
                ok=False; print('EXC',type(e).__name__,str(e)[:100])
            cnt+=1
            if not ok: badc.append((impl.__name__,M,spacing,off,radius,type(vert).__name__))
print('coords',cnt,'bad',len(badc),badc[:5])
