import time, os
import jax
jax.config.update('jax_enable_x64', True)
import numpy as np, jax.numpy as jnp
from dinosaur import spherical_harmonic as sh
t0=time.time()
def mk(impl, M, L, nlon, nlat, spacing='gauss', **kw):
    return sh.Grid(longitude_wavenumbers=M,total_wavenumbers=L,longitude_nodes=nlon,latitude_nodes=nlat,latitude_spacing=spacing,spherical_harmonics_impl=impl, **kw)
for impl in (sh.RealSphericalHarmonics, sh.FastSphericalHarmonics):
  for (M,L,nlon,nlat) in [(4,5,13,7),(8,9,25,13),(6,7,12,8)]:
    for spacing in ('gauss','equiangular','equiangular_with_poles'):
        g=mk(impl,M,L,nlon,nlat,spacing, radius=2.5)
        t=time.time()
        ms=g.modal_shape
        n=ms[0]*ms[1]
        eye=np.eye(n).reshape((n,)+ms)
        mask=g.mask
        nod=g.to_nodal(eye)   # (n, nlon, nlat)
        back=g.to_modal(nod)
        R=np.asarray(back).reshape(n,n)
        ideal=np.diag(mask.reshape(-1).astype(float))
        err=np.abs(R-ideal).max()
        print(impl.__name__, (M,L,nlon,nlat), spacing, 'maxerr', err, 'dtype', back.dtype, 'dt %.2f'%(time.time()-t))
print('total', time.time()-t0)
