#!/opt/veriftools/pyvenv/bin/python
"""Validates MANIFEST.json and every evidence/*.json against the schemas in /root/.vp (development aid)."""
import json, sys, glob, jsonschema
ok = True
for path, schema in [('MANIFEST.json', '/root/.vp/MANIFEST.schema.json')] + [(p, '/root/.vp/EVIDENCE.schema.json') for p in sorted(glob.glob('evidence/*.json'))]:
  try:
    jsonschema.validate(json.load(open(path)), json.load(open(schema)))
    print('ok  ', path)
  except FileNotFoundError:
    print('miss', path); ok = False
  except jsonschema.ValidationError as e:
    print('BAD ', path, e.message[:300]); ok = False
sys.exit(0 if ok else 1)
