"""Explorer core: work units, recorder, worker pool, findings matcher, evidence writer.

A property module (mc/props/cXX.py) provides

  ID            'C13'
  TECHNIQUE     a few words
  ASSUMPTIONS   list[str]
  RULE          str  (how cases are enumerated, what makes one distinct / non-trivial)
  DEVICES       optional int: number of forced host devices the workers need
  WORKERS       optional int: worker cap (e.g. 4 for 8-device runs)
  def bounds(tier) -> dict            lattice bounds, copied into the evidence
  def units(tier, seed) -> list[dict] picklable work units in a fixed order (the whole bounded space)
  def work(unit, rec) -> None         executes every case of the unit on the real code, calls rec.*

Every case is identified by a canonical key (a tuple of plain python values).  A violation
carries the unit and the key; replaying it means re-running `work` restricted to that key
(`rec.only`), which must reproduce the recorded observation bit for bit.
"""
from __future__ import annotations

import hashlib
import importlib
import json
import math
import os
import sys
import time
import traceback

ROOT = os.path.dirname(os.path.dirname(os.path.abspath(__file__)))
EPS = 2.220446049250313e-16
EPS32 = 1.1920929e-07

PALETTES = ([1.0], [1.0, -0.5], [0.75, -1.25, 2.0])


def palette(seed: int, tier: str):
  """Amplitude palettes used to label excitations. VERIF_SEED only rotates which finite palette
  the quick tier uses; the thorough tier uses all of them."""
  if tier == 'thorough':
    return [list(p) for p in PALETTES]
  return [list(PALETTES[seed % len(PALETTES)])]


def _h(obj) -> int:
  return int.from_bytes(hashlib.blake2b(repr(obj).encode(), digest_size=8).digest(), 'big')


def jsonable(x):
  import numpy as np
  if isinstance(x, dict):
    return {str(k): jsonable(v) for k, v in x.items()}
  if isinstance(x, (list, tuple)):
    return [jsonable(v) for v in x]
  if isinstance(x, (np.floating,)):
    return float(x)
  if isinstance(x, (np.integer,)):
    return int(x)
  if isinstance(x, (np.bool_,)):
    return bool(x)
  if isinstance(x, np.ndarray):
    return jsonable(x.tolist())
  if isinstance(x, float) and (math.isnan(x) or math.isinf(x)):
    return repr(x)
  if isinstance(x, (str, int, float, bool)) or x is None:
    return x
  return repr(x)


class Recorder:
  """Collects coverage counters and violations for one work unit."""

  MAX_VIOL_PER_SITE = 3

  def __init__(self, unit, only=None):
    self.unit = unit
    self.only = only  # canonical key (as list) to restrict to when replaying
    self.state_hashes = set()
    self.outcome_hashes = set()
    self.transitions = 0
    self.validated = 0
    self.evaluations = 0
    self.samples = []
    self.violations = []
    self.viol_count = {}
    self._sig_count = {}
    self.notes = {}
    self.margins = {}  # site -> max(|diff| / tol)
    self.worst = {}    # site -> max |diff|

  # -- enumeration bookkeeping -------------------------------------------------------------
  def want(self, key) -> bool:
    """Always True: a replay re-executes the WHOLE unit of the recorded case and run.py filters the violations by
    key.  (Skipping the other cases of the unit made oracles that compare two cases -- e.g. "all solve methods
    agree" -- irreproducible under replay, which showed up as a HARNESS-ERROR on a C03 mutant.)"""
    return True

  def case(self, key, *, transitions=1, outcome=None, nontrivial=True, sample=None, validated=1):
    """Registers one explored state (canonical key) on which the oracle is evaluated."""
    self.evaluations += 1
    self.state_hashes.add(_h(jsonable(key)))
    self.transitions += transitions
    self.validated += validated
    if outcome is not None and nontrivial:
      self.outcome_hashes.add(_h(outcome) if not isinstance(outcome, (bytes, bytearray))
                              else int.from_bytes(hashlib.blake2b(outcome, digest_size=8).digest(), 'big'))
    if sample is not None and len(self.samples) < 2:
      self.samples.append(jsonable(sample))

  def outcome(self, arr, nontrivial=None):
    import numpy as np
    a = np.ascontiguousarray(np.asarray(arr))
    if nontrivial is None:
      nontrivial = bool(a.size) and bool(np.any(a != 0))
    if nontrivial:
      self.outcome_hashes.add(int.from_bytes(hashlib.blake2b(a.tobytes(), digest_size=8).digest(), 'big'))

  def note(self, name, n=1):
    self.notes[name] = self.notes.get(name, 0) + n

  # -- oracles ---------------------------------------------------------------------------------
  def fail(self, site, key, detail, sig=None):
    """Registers a violation of the property at `site` for the case `key`."""
    self.viol_count[site] = self.viol_count.get(site, 0) + 1
    s = {'site': site}
    if sig:
      s.update(sig)
    # cap per full signature (not per site) so that a known-finding signature can never crowd out a new one
    ck = json.dumps(jsonable(s), sort_keys=True)
    self._sig_count[ck] = self._sig_count.get(ck, 0) + 1
    if self._sig_count[ck] <= self.MAX_VIOL_PER_SITE or self.only is not None:  # no cap while replaying one case
      self.violations.append({'site': site, 'sig': jsonable(s), 'key': jsonable(key),
                              'detail': jsonable(detail), 'unit': jsonable(self.unit)})

  def check(self, ok, site, key, detail=None, sig=None):
    if not ok:
      self.fail(site, key, detail or {}, sig)
    return bool(ok)

  def close(self, a, b, *, scale, site, key, C=1e4, eps=EPS, sig=None, extra=None):
    """Passes iff max|a-b| <= C*eps*scale and both finite. scale is an explicit operand magnitude."""
    import numpy as np
    a = np.asarray(a); b = np.asarray(b)
    if a.shape != b.shape:
      try:
        a, b = np.broadcast_arrays(a, b)
      except ValueError:
        self.fail(site, key, {'shape_a': list(a.shape), 'shape_b': list(b.shape)}, sig)
        return False
    tol = C * eps * float(scale)
    if a.size == 0:
      return True
    if not (np.all(np.isfinite(a)) and np.all(np.isfinite(b))):
      d = float('inf')
    else:
      d = float(np.max(np.abs(a - b)))
    ratio = d / tol if tol > 0 else (0.0 if d == 0 else float('inf'))
    if ratio > self.margins.get(site, -1.0):
      self.margins[site] = ratio
    if d > self.worst.get(site, -1.0):
      self.worst[site] = d
    if not d <= tol:
      det = {'max_abs_diff': d, 'tol': tol, 'scale': float(scale)}
      if np.isfinite(d):
        idx = np.unravel_index(int(np.argmax(np.abs(a - b))), a.shape)
        det.update(index=[int(i) for i in idx], got=float(a[idx]), want=float(b[idx]))
      if extra:
        det.update(extra)
      self.fail(site, key, det, sig)
      return False
    return True

  def exact(self, a, b, *, site, key, sig=None):
    """Bit-for-bit equality (NaN == NaN)."""
    import numpy as np
    a = np.asarray(a); b = np.asarray(b)
    ok = a.shape == b.shape and a.dtype == b.dtype and bool(np.array_equal(a, b, equal_nan=a.dtype.kind in 'fc'))
    if not ok:
      det = {'shape_a': list(a.shape), 'shape_b': list(b.shape), 'dtype_a': str(a.dtype), 'dtype_b': str(b.dtype)}
      if a.shape == b.shape and a.size and a.dtype.kind in 'fciu' and b.dtype.kind in 'fciu':
        det['max_abs_diff'] = float(np.nanmax(np.abs(a.astype(float) - b.astype(float))))
      self.fail(site, key, det, sig)
    return ok

  def zero(self, a, *, site, key, sig=None):
    import numpy as np
    a = np.asarray(a)
    ok = not np.any(a != 0)  # NaN != 0 is True -> caught
    if not ok:
      self.fail(site, key, {'max_abs': float(np.nanmax(np.abs(a))) if not np.all(np.isnan(a)) else 'nan',
                            'count_nonzero': int(np.count_nonzero(a != 0))}, sig)
    return ok

  def finite(self, a, *, site, key, sig=None):
    import numpy as np
    ok = bool(np.all(np.isfinite(np.asarray(a))))
    if not ok:
      self.fail(site, key, {'nonfinite': int(np.sum(~np.isfinite(np.asarray(a))))}, sig)
    return ok

  def export(self):
    return dict(state_hashes=self.state_hashes, outcome_hashes=self.outcome_hashes,
                transitions=self.transitions, validated=self.validated, evaluations=self.evaluations,
                samples=self.samples, violations=self.violations, viol_count=self.viol_count,
                notes=self.notes, margins=self.margins, worst=self.worst)


# -- workers ---------------------------------------------------------------------------------

def _worker_env(devices):
  flags = os.environ.get('XLA_FLAGS', '')
  if '--xla_force_host_platform_device_count' not in flags and devices:
    flags += f' --xla_force_host_platform_device_count={devices}'
  if 'xla_cpu_multi_thread_eigen' not in flags:
    flags += ' --xla_cpu_multi_thread_eigen=false intra_op_parallelism_threads=1'
  os.environ['XLA_FLAGS'] = flags.strip()
  os.environ.setdefault('JAX_PLATFORMS', 'cpu')
  os.environ.setdefault('OMP_NUM_THREADS', '1')
  os.environ.setdefault('OPENBLAS_NUM_THREADS', '1')
  os.environ.setdefault('MKL_NUM_THREADS', '1')
  os.environ.setdefault('TF_CPP_MIN_LOG_LEVEL', '3')


_COV = None


def _init_worker(devices, x64, repo):
  _worker_env(devices)
  global _COV
  if os.environ.get('VERIF_COVERAGE_DIR') and _COV is None:
    # development aid (tools_coverage.sh): which lines of the library do the checks execute at all?
    import coverage
    _COV = coverage.Coverage(data_file=os.path.join(os.environ['VERIF_COVERAGE_DIR'], '.coverage'), data_suffix=True,
                             include=['*/dinosaur/*.py'], omit=['*_test.py'])
    _COV.start()
  if repo and repo not in sys.path:
    sys.path.insert(0, repo)
  import jax
  jax.config.update('jax_enable_x64', bool(x64))
  import warnings
  warnings.filterwarnings('ignore')


_WORKER_HISTORY = []   # indices of the units this worker process has executed so far (hidden state lives in the process)


def _run_unit(args):
  modname, index, unit, only = args
  t0 = time.time()
  history = list(_WORKER_HISTORY)
  _WORKER_HISTORY.append(index)
  rec = Recorder(unit, only=only)
  try:
    mod = importlib.import_module(modname)
    mod.work(unit, rec)
    err = None
  except Exception:  # a crash of the harness or of the library on an admissible input
    err = traceback.format_exc()
  out = rec.export()
  out['index'] = index
  out['history'] = history
  out['error'] = err
  out['wall'] = time.time() - t0
  if _COV is not None:
    _COV.save()
  return out


def run_units(modname, units, *, workers, devices=0, x64=True, only=None, progress=True, fresh=False):
  """Executes all units; returns list of exports ordered by unit index.  fresh=True: one NEW process executes the
  units sequentially in the given order (used to reproduce a case, optionally after the units that preceded it in
  the worker that found it)."""
  import multiprocessing as mp
  repo = os.environ.get('VERIF_REPO')
  jobs = [(modname, i, u, only) for i, u in enumerate(units)]
  results = []
  t0 = time.time()
  if fresh:
    ctx = mp.get_context('spawn')
    with ctx.Pool(1, initializer=_init_worker, initargs=(devices, x64, repo)) as pool:
      results = pool.map(_run_unit, jobs, chunksize=len(jobs))
  elif workers <= 1 or len(jobs) <= 1:
    _init_worker(devices, x64, repo)
    for j in jobs:
      results.append(_run_unit(j))
  else:
    ctx = mp.get_context('spawn')
    with ctx.Pool(min(workers, len(jobs)), initializer=_init_worker, initargs=(devices, x64, repo)) as pool:
      done = 0
      for r in pool.imap_unordered(_run_unit, jobs, chunksize=1):
        results.append(r)
        done += 1
        if progress and (done % max(1, len(jobs) // 10) == 0 or done == len(jobs)):
          print(f'  [{time.time()-t0:6.1f}s] units {done}/{len(jobs)}', flush=True)
  results.sort(key=lambda r: r['index'])
  return results


# -- findings --------------------------------------------------------------------------------

def load_findings():
  path = os.path.join(ROOT, 'known_findings.json')
  if not os.path.exists(path):
    return []
  with open(path) as f:
    return json.load(f).get('findings', [])


def match_finding(violation, prop_id, findings):
  """A violation is a known finding iff a `known` entry of the same property has a signature that is
  a subset of the violation's signature. `fixed` entries suppress nothing."""
  for f in findings:
    if f.get('property') != prop_id or f.get('status') != 'known':
      continue
    sig = f.get('sig', {})
    if sig and all(violation['sig'].get(k) == v for k, v in sig.items()):
      return f
  return None


# -- evidence -------------------------------------------------------------------------------------

def write_evidence(prop_id, tier, seed, level, coverage, assumptions, wall, violations):
  os.makedirs(os.path.join(ROOT, 'evidence'), exist_ok=True)
  ev = dict(property_id=prop_id, tier=tier, seed=int(seed), level=level, coverage=coverage,
            assumptions=assumptions, wall_s=round(float(wall), 3), violations=int(violations))
  path = os.path.join(ROOT, 'evidence', f'{prop_id}.json')
  tmp = path + '.tmp'
  with open(tmp, 'w') as f:
    json.dump(jsonable(ev), f, indent=1, sort_keys=True)
    f.write('\n')
  os.replace(tmp, path)
  return path


def write_replay(prop_id, violation, tier, seed, history_units=None):
  d = os.path.join(os.environ.get('VERIF_REPLAY_DIR') or os.path.join(ROOT, 'replays'), prop_id)
  os.makedirs(d, exist_ok=True)
  payload = dict(property=prop_id, tier=tier, seed=seed, site=violation['site'], sig=violation['sig'],
                 key=violation['key'], unit=violation['unit'], detail=violation['detail'])
  if history_units:
    # the case only fails after these units have run in the same process (hidden state carried by the library)
    payload['history_units'] = jsonable(history_units)
  name = hashlib.blake2b(json.dumps([payload['site'], payload['key'], payload['unit']], sort_keys=True).encode(),
                         digest_size=6).hexdigest()
  path = os.path.join(d, f'{violation["site"].replace("/", "_").replace(" ", "_")[:40]}-{name}.json')
  with open(path, 'w') as f:
    json.dump(payload, f, indent=1, sort_keys=True)
    f.write('\n')
  return path
