"""Closes the system: builders for grids, coordinate systems, equations and states on the REAL code,
and the shared configuration lattices.  Everything that touches dinosaur is imported lazily so that
`units()` can use the pure-python parts in the parent process.
"""
import functools
import itertools
import math

import numpy as np

SPACINGS = ('gauss', 'equiangular', 'equiangular_with_poles')
EARTH_RADIUS_NONDIM = 1.0  # DEFAULT_SCALE uses the Earth radius as length unit


# -- grid shape lattice ------------------------------------------------------------------------

def with_wavenumbers_shape(M, dealiasing):
  order = {'linear': 2, 'quadratic': 3, 'cubic': 4}[dealiasing]
  nlon = order * M + 1
  return (M, M + 1, nlon, math.ceil(nlon / 2))


def construct_shape(k, n):
  return (k + 1, k + 2, 4 * n, 2 * n)


HAND_PICKED = ((4, 5, 13, 7), (6, 7, 12, 8), (5, 5, 11, 6), (3, 5, 8, 5))


def grid_shapes(max_m, construct_max=6):
  """(M, L, nlon, nlat) lattice G of DESIGN section 4 (deduplicated, fixed order)."""
  out = []
  for M in range(1, max_m + 1):
    for d in ('linear', 'quadratic', 'cubic'):
      out.append(with_wavenumbers_shape(M, d))
  for k in range(0, construct_max + 1):
    for n in range(1, construct_max + 1):
      if n >= (k + 1) / 2:
        out.append(construct_shape(k, n))
  out += list(HAND_PICKED)
  seen, res = set(), []
  for s in out:
    if s not in seen and s[2] >= s[0]:
      seen.add(s); res.append(s)
  return res


def impl_variants(full=True):
  """Transform implementation descriptors: 'real' or ('fast', base_shape_multiple, stacked, reverse)."""
  v = ['real']
  for bm in (1, 2, 3, 4):
    for stacked in (True, False):
      for rev in (True, False):
        if full or (bm, stacked, rev) in ((1, True, False), (1, False, True), (2, False, False), (4, True, True), (3, False, True)):
          v.append(('fast', bm, stacked, rev))
  return v


def make_impl(desc, precision=None):
  from dinosaur import spherical_harmonic as sh
  if desc == 'real' or desc == ['real']:
    return sh.RealSphericalHarmonics
  _, bm, stacked, rev = desc
  kw = dict(base_shape_multiple=bm, stacked_fourier_transforms=stacked, reverse_einsum_arg_order=rev)
  if precision is not None:
    kw['transform_precision'] = precision
  return functools.partial(sh.FastSphericalHarmonics, **kw)


def make_grid(shape, spacing='gauss', impl='real', offset=0.0, radius=None, precision=None, mesh=None):
  from dinosaur import spherical_harmonic as sh
  M, L, nlon, nlat = shape
  kw = {}
  if mesh is not None:
    kw['spmd_mesh'] = mesh
  return sh.Grid(longitude_wavenumbers=M, total_wavenumbers=L, longitude_nodes=nlon, latitude_nodes=nlat,
                 latitude_spacing=spacing, longitude_offset=offset, radius=radius,
                 spherical_harmonics_impl=make_impl(impl, precision), **kw)


def is_fast(desc):
  return desc != 'real' and desc != ['real']


def to_real_layout(x, grid_shape, impl):
  """Fixed re-indexing of a modal array of either implementation to the Real layout (resolved block)."""
  from mc.ref import sphere
  M, L = grid_shape[0], grid_shape[1]
  x = np.asarray(x)
  if is_fast(impl):
    return sphere.fast_to_real(x, M, L)
  return x


def from_real_layout(x, grid, impl):
  from mc.ref import sphere
  x = np.asarray(x)
  if is_fast(impl):
    return sphere.real_to_fast(x, grid.modal_shape)
  return x


def padding_mask(grid, grid_shape, impl):
  """True at positions of a modal array that are NOT resolved coefficients (masked, row 1, padding)."""
  return ~np.asarray(grid.mask, dtype=bool)
