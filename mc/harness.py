"""Closes the system: builders for grids, coordinate systems, equations and states on the REAL code,
and the shared configuration lattices.  Everything that touches dinosaur is imported lazily so that
`units()` can use the pure-python parts in the parent process.
"""
import functools
import itertools
import math

import numpy as np

SPACINGS = ('gauss', 'equiangular', 'equiangular_with_poles')
EARTH_RADIUS_NONDIM = 1.0  # DEFAULT_SCALE uses the Earth radius as length unit


# -- grid shape lattice ------------------------------------------------------------------------

def with_wavenumbers_shape(M, dealiasing):
  order = {'linear': 2, 'quadratic': 3, 'cubic': 4}[dealiasing]
  nlon = order * M + 1
  return (M, M + 1, nlon, math.ceil(nlon / 2))


def construct_shape(k, n):
  return (k + 1, k + 2, 4 * n, 2 * n)


# the last two are trapezoidal truncations with L >= M+3 (coefficients M < l < L-1 exist: the l -> l+1 coupling beyond the
# triangular part is observable below the top total wavenumber)
HAND_PICKED = ((4, 5, 13, 7), (6, 7, 12, 8), (5, 5, 11, 6), (3, 5, 8, 5), (3, 6, 10, 6), (2, 7, 9, 7))


def grid_shapes(max_m, construct_max=6):
  """(M, L, nlon, nlat) lattice G of DESIGN section 4 (deduplicated, fixed order)."""
  out = []
  for M in range(1, max_m + 1):
    for d in ('linear', 'quadratic', 'cubic'):
      out.append(with_wavenumbers_shape(M, d))
  for k in range(0, construct_max + 1):
    for n in range(1, construct_max + 1):
      if n >= (k + 1) / 2:
        out.append(construct_shape(k, n))
  out += list(HAND_PICKED)
  seen, res = set(), []
  for s in out:
    if s not in seen and s[2] >= s[0]:
      seen.add(s); res.append(s)
  return res


def impl_variants(full=True):
  """Transform implementation descriptors: 'real' or ('fast', base_shape_multiple, stacked, reverse)."""
  v = ['real']
  for bm in (1, 2, 3, 4):
    for stacked in (True, False):
      for rev in (True, False):
        if full or (bm, stacked, rev) in ((1, True, False), (1, False, True), (2, False, False), (4, True, True), (3, False, True)):
          v.append(('fast', bm, stacked, rev))
  return v


def make_impl(desc, precision=None):
  from dinosaur import spherical_harmonic as sh
  if desc == 'real' or desc == ['real']:
    return sh.RealSphericalHarmonics
  _, bm, stacked, rev = desc
  kw = dict(base_shape_multiple=bm, stacked_fourier_transforms=stacked, reverse_einsum_arg_order=rev)
  if precision is not None:
    kw['transform_precision'] = precision
  return functools.partial(sh.FastSphericalHarmonics, **kw)


def make_grid(shape, spacing='gauss', impl='real', offset=0.0, radius=None, precision=None, mesh=None):
  from dinosaur import spherical_harmonic as sh
  M, L, nlon, nlat = shape
  kw = {}
  if mesh is not None:
    kw['spmd_mesh'] = mesh
  return sh.Grid(longitude_wavenumbers=M, total_wavenumbers=L, longitude_nodes=nlon, latitude_nodes=nlat,
                 latitude_spacing=spacing, longitude_offset=offset, radius=radius,
                 spherical_harmonics_impl=make_impl(impl, precision), **kw)


def is_fast(desc):
  return desc != 'real' and desc != ['real']


def to_real_layout(x, grid_shape, impl):
  """Fixed re-indexing of a modal array of either implementation to the Real layout (resolved block)."""
  from mc.ref import sphere
  M, L = grid_shape[0], grid_shape[1]
  x = np.asarray(x)
  if is_fast(impl):
    return sphere.fast_to_real(x, M, L)
  return x


def from_real_layout(x, grid, impl):
  from mc.ref import sphere
  x = np.asarray(x)
  if is_fast(impl):
    return sphere.real_to_fast(x, grid.modal_shape)
  return x


def padding_mask(grid, grid_shape, impl):
  """True at positions of a modal array that are NOT resolved coefficients (masked, row 1, padding)."""
  return ~np.asarray(grid.mask, dtype=bool)


# -- equations and states ------------------------------------------------------------------------

SQRT4PI = float(np.sqrt(4 * np.pi))


def make_coords(shape, bounds, spacing='gauss', impl='real', radius=None, mesh=None, layers=None):
  """CoordinateSystem on the real code. `bounds` = sigma boundaries; `layers` = LayerCoordinates count instead."""
  from dinosaur import coordinate_systems as cs
  from dinosaur import sigma_coordinates as sc
  from dinosaur import layer_coordinates as lc
  grid = make_grid(shape, spacing, impl, radius=radius)
  vert = lc.LayerCoordinates(layers) if layers is not None else sc.SigmaCoordinates(np.asarray(bounds, dtype=np.float64))
  if mesh is not None:
    return cs.CoordinateSystem(grid, vert, spmd_mesh=mesh)
  return cs.CoordinateSystem(grid, vert)


def pe_specs(scale=None):
  from dinosaur import primitive_equations as pe
  if scale is None:
    return pe.PrimitiveEquationsSpecs.from_si()
  return pe.PrimitiveEquationsSpecs.from_si(scale=scale)


PE_CLASSES = ('PrimitiveEquations', 'PrimitiveEquationsWithTime', 'MoistPrimitiveEquations',
              'MoistPrimitiveEquationsWithCloudMoisture')
CLOUD_TRACERS = ('specific_cloud_liquid_water_content', 'specific_cloud_ice_water_content')


def make_pe(cls_name, coords, tref, orog_real, specs, impl='real', **kw):
  """orog_real: modal orography in the Real layout (2M-1, L)."""
  from dinosaur import primitive_equations as pe
  orog = from_real_layout(np.asarray(orog_real, dtype=np.float64), coords.horizontal, impl)
  return getattr(pe, cls_name)(np.asarray(tref, dtype=np.float64), orog, coords, specs, **kw)


def pe_state(cls_name, coords, impl, vort, div, temp, lnps, tracers=None, sim_time=0.0):
  """Builds a State / StateWithTime from Real-layout coefficient arrays (any leading batch axes)."""
  from dinosaur import primitive_equations as pe
  import jax.numpy as jnp
  g = coords.horizontal
  conv = lambda x: jnp.asarray(from_real_layout(np.asarray(x, dtype=np.float64), g, impl))
  tr = {k: conv(v) for k, v in (tracers or {}).items()}
  if cls_name == 'PrimitiveEquations':
    return pe.State(conv(vort), conv(div), conv(temp), conv(lnps), tr)
  return pe.StateWithTime(conv(vort), conv(div), conv(temp), conv(lnps), sim_time, tr)


def total_tendency_fn(eq):
  """state -> explicit_terms(state) + implicit_terms(state) as a pytree of the state's type."""
  import jax

  def f(state):
    e = eq.explicit_terms(state)
    i = eq.implicit_terms(state)
    return jax.tree_util.tree_map(lambda a, b: a + b, e, i)
  return f


def pe_tendency_to_real(tend, shape, impl):
  """State-like tendency -> dict of Real-layout numpy arrays (resolved block)."""
  d = dict(vorticity=to_real_layout(tend.vorticity, shape, impl), divergence=to_real_layout(tend.divergence, shape, impl),
           temperature=to_real_layout(tend.temperature_variation, shape, impl),
           lnps=to_real_layout(tend.log_surface_pressure, shape, impl),
           tracers={k: to_real_layout(v, shape, impl) for k, v in tend.tracers.items()})
  if hasattr(tend, 'sim_time'):
    d['sim_time'] = np.asarray(tend.sim_time)
  return d


def ref_pe_for(shape, bounds, specs, radius=None, degree=3, moist=False, **kw):
  from mc.ref import pe as rpe
  M, L = shape[0], shape[1]
  extra = {}
  if moist:
    extra = dict(Rv=specs.R_vapor, cpv_over_cp=specs.Cp_vapor / specs.Cp)
  return rpe.PrimitiveEquationsRef(M, L, radius=specs.radius if radius is None else radius, sigma_bounds=bounds, R=specs.R,
                                   kappa=specs.kappa, g=specs.g, omega=specs.angular_velocity, degree=degree, **extra, **kw)


# -- excitation alphabet (simplex lattice of DESIGN section C05) -------------------------------

UNIT_AMPLITUDE = dict(vorticity=0.1, divergence=0.05, temperature=5.0, lnps=0.02, potential=0.05)


def low_modes(lmax, M, zero_mean):
  """(row index in Real layout, l) of every mode with l <= lmax (l >= 1 when zero_mean)."""
  from mc.ref import sphere
  out = []
  for m, l, kind in sphere.modes(min(M, lmax + 1), lmax + 1):
    if zero_mean and l == 0:
      continue
    out.append((sphere.real_index(m, kind), l))
  return out


def pe_alphabet(K, lmax, M):
  """Unit excitations (field, level, row, l) of the dry primitive-equation state."""
  alpha = []
  for field, zm, levels in (('vorticity', True, K), ('divergence', True, K), ('temperature', False, K), ('lnps', False, 1)):
    for k in range(levels):
      for (i, l) in low_modes(lmax, M, zm):
        alpha.append((field, k, i, l))
  return alpha


def multisets(n, depth):
  """All multisets of size <= depth over range(n), as sorted tuples: BFS order by 'add one excitation'."""
  out = [()]
  frontier = [()]
  for _ in range(depth):
    nxt = []
    for ms in frontier:
      lo = ms[-1] if ms else 0
      for e in range(lo, n):
        nxt.append(ms + (e,))
    out += nxt
    frontier = nxt
  return out


def states_from_multisets(alphabet, msets, K, M, L, palette, fields=('vorticity', 'divergence', 'temperature', 'lnps')):
  """dict field -> (B, K or 1, 2M-1, L) Real-layout coefficients; excitation e has amplitude
  UNIT_AMPLITUDE[field] * palette[e % len(palette)] and multiplicity adds up."""
  B = len(msets)
  out = {f: np.zeros((B, 1 if f == 'lnps' else K, 2 * M - 1, L)) for f in fields}
  for b, ms in enumerate(msets):
    for e in ms:
      field, k, i, l = alphabet[e]
      out[field][b, k, i, l] += UNIT_AMPLITUDE[field] * palette[e % len(palette)]
  return out
