"""Reference model for C18: exact unit scale factors, model time, calendar and orbital phases.

Independent of dinosaur and of pint.  A unit of measure is a pair (SI factor, exponents of
(m, s, kg, K)); a scale is four base magnitudes in SI.  Scale factors are products of base scales with
integer exponents, evaluated exactly with `fractions.Fraction` and rounded once.  Orbital phases are
evaluated in extended precision (np.longdouble, eps ~1e-19) from the *given* non-dimensional time, so
that the reference error is negligible against the 16*eps*|unreduced phase| criterion.
"""
from __future__ import annotations

import calendar
import datetime
import itertools
import math
from fractions import Fraction as F

import numpy as np

TWO_PI = 2.0 * math.pi

# ---- physical scales (SI magnitudes; exact binary values of the documented constants) ------------
RADIUS_M = F(6.37122e6)
OMEGA_PER_S = F(7.292e-5)
MASS_OF_DRY_ATMOSPHERE_KG = F(5.18e18)

# (length m, time s, mass kg, temperature K)
SCALES = {
    'DEFAULT': (RADIUS_M, 1 / (2 * OMEGA_PER_S), F(1), F(1)),
    'ATMOSPHERIC': (RADIUS_M, 1 / (2 * OMEGA_PER_S), MASS_OF_DRY_ATMOSPHERE_KG, F(1)),
    'SI': (F(1), F(1), F(1), F(1)),
    'CUSTOM_A': (F(1234.5) * 1000, F(0.7) * 3600, F(3.3), F(7.5)),   # 1234.5 km, 0.7 h, 3.3 kg, 7.5 K
    'CUSTOM_B': (F(1), F(1), F(1, 1000), F(100)),                    # 1 m, 1 s, 1 g, 100 K
}
SCALE_NAMES = tuple(SCALES)

# alternative base units used to express the same quantity: km, hour, gram, millikelvin
ALT_BASE_FACTORS = (F(1000), F(3600), F(1, 1000), F(1, 1000))

# named compound units: name -> (SI factor, exponents)
NAMED = {
    'Pa': (F(1), (-1, -2, 1, 0)),
    'hPa': (F(100), (-1, -2, 1, 0)),
    'J/kg/K': (F(1), (2, -2, 0, -1)),
    'W/m^2': (F(1), (0, -3, 1, 0)),
    'km/h': (F(1000, 3600), (1, -1, 0, 0)),
    # dimensionless units that still carry a factor (mixing ratios, fractions): the round trip must undo the factor too
    'g/kg': (F(1, 1000), (0, 0, 0, 0)),
    'percent': (F(1, 100), (0, 0, 0, 0)),
    'ppm': (F(1, 10 ** 6), (0, 0, 0, 0)),
    'year/day': (F(36525, 100), (0, 0, 0, 0)),
}
# a second spelling of the same dimension for the named units (name -> (SI factor, spelled in pint))
NAMED_ALT = {
    'Pa': (F(100000), 'bar'),
    'hPa': (F(1000), 'kPa'),
    'J/kg/K': (F(1000), 'kJ/kg/K'),
    'W/m^2': (F(1000), 'kW/m^2'),
    'km/h': (F(1), 'm/s'),
    'g/kg': (F(1), 'dimensionless'),
    'percent': (F(1, 1000), 'g/kg'),
    'ppm': (F(1, 100), 'percent'),
    'year/day': (F(1), 'dimensionless'),
}


def monomials(lo=-2, hi=2):
  """All exponent tuples (a, b, c, d) of m^a s^b kg^c K^d, fixed order."""
  r = range(lo, hi + 1)
  return [e for e in itertools.product(r, r, r, r)]


def alt_factor(exps):
  """SI factor of km^a hour^b g^c mK^d."""
  f = F(1)
  for base, e in zip(ALT_BASE_FACTORS, exps):
    f *= base ** e
  return f


def scale_factor(scale_name, exps) -> F:
  """Exact SI magnitude of the scale's unit for dimension exponents `exps` (integers)."""
  f = F(1)
  for base, e in zip(SCALES[scale_name], exps):
    f *= base ** int(e)
  return f


def scale_factor_float(scale_name, exps) -> float:
  """Same for rational exponents (half-integer powers): float arithmetic, a few ulp."""
  f = 1.0
  for base, e in zip(SCALES[scale_name], exps):
    e = F(e)
    if e.denominator == 1:
      f *= float(base ** int(e))
    else:
      f *= float(base) ** float(e)
  return f


def nondim_ratio(scale_name, unit_factor, exps) -> float:
  """nondimensional value of `1 unit`: unit_factor / scale_factor, rounded once."""
  return float(F(unit_factor) / scale_factor(scale_name, exps))


def nondim_exact(scale_name, magnitude, unit_factor, exps) -> float:
  return float(F(magnitude) * F(unit_factor) / scale_factor(scale_name, exps))


def time_scale_seconds(scale_name) -> F:
  return SCALES[scale_name][1]


def nondim_seconds(scale_name, seconds):
  """Non-dimensional time of `seconds` (array or scalar of whole or fractional seconds)."""
  return np.asarray(seconds, dtype=np.float64) / float(time_scale_seconds(scale_name))


def nondim_seconds_exact(scale_name, seconds: int) -> float:
  return float(F(int(seconds)) / time_scale_seconds(scale_name))


# ---- calendar ------------------------------------------------------------------------------------
EPOCH = datetime.datetime(1970, 1, 1)


def minutes_since_epoch(y, mo, d, h=0, mi=0) -> int:
  return int((datetime.datetime(y, mo, d, h, mi) - EPOCH).total_seconds()) // 60


def calendar_turns(minute_epoch: int):
  """(orbital, synodic) phase in turns, as exact fractions, of a calendar minute (UTC, proleptic
  Gregorian): orbital = (day of year - 1 + fraction of day) / days in this year."""
  when = EPOCH + datetime.timedelta(minutes=int(minute_epoch))
  days = 366 if calendar.isleap(when.year) else 365
  doy0 = (datetime.date(when.year, when.month, when.day) - datetime.date(when.year, 1, 1)).days
  frac_day = F(60 * when.hour + when.minute, 1440)
  return (doy0 + frac_day) / days, frac_day


def calendar_phases_array(minute_epoch):
  """Vectorised calendar phases (radians, float64) for an int64 array of minutes since the epoch."""
  m = np.asarray(minute_epoch, dtype=np.int64)
  day = np.floor_divide(m, 1440)
  mod = m - day * 1440
  dates = day.astype('datetime64[D]')
  years = dates.astype('datetime64[Y]')
  doy0 = (dates - years.astype('datetime64[D]')).astype(np.int64)
  y = years.astype(np.int64) + 1970
  leap = ((y % 4 == 0) & (y % 100 != 0)) | (y % 400 == 0)
  days = np.where(leap, 366.0, 365.0)
  frac_day = mod / 1440.0
  return TWO_PI * ((doy0 + frac_day) / days), TWO_PI * frac_day


# ---- orbital phases from non-dimensional time ---------------------------------------------------------
DAYS_PER_YEAR = F(36525, 100)   # Julian year: the unit `year` of the model's unit registry
LD = np.longdouble
assert np.finfo(LD).eps < 1e-18, 'extended precision reference needs an 80/128-bit long double'


def _ld_fraction(fr: F):
  """Fraction -> long double, accurate to long-double rounding: float64 head + float64 tail."""
  hi = float(fr)
  lo = float(fr - F(hi))
  return LD(hi) + LD(lo)


def expected_phases(t_nondim, scale_name, ref_minute_epoch):
  """For non-dimensional times `t_nondim` (float array, any float dtype; the values are taken as given):
  returns dict name -> (unreduced phase [rad, float64], reduced phase in [0, 2pi) [rad, float64]).
  orbital: ref + 2pi * elapsed / (365.25 d); synodic: ref + 2pi * elapsed / (1 d)."""
  t = np.asarray(t_nondim).astype(LD)
  T_days = _ld_fraction(time_scale_seconds(scale_name) / 86400)
  elapsed_days = t * T_days
  orb0, syn0 = calendar_turns(ref_minute_epoch)
  out = {}
  for name, turns in (('orbital_phase', _ld_fraction(orb0) + elapsed_days / _ld_fraction(DAYS_PER_YEAR)),
                      ('synodic_phase', _ld_fraction(syn0) + elapsed_days)):
    frac = turns - np.floor(turns)
    two_pi = LD(2) * LD('3.14159265358979323846264338327950288')
    out[name] = ((turns * two_pi).astype(np.float64), (frac * two_pi).astype(np.float64))
  return out


def expected_phase_exact(t_nondim: float, scale_name, ref_minute_epoch, name):
  """Exact-rational version of `expected_phases` for one time (self-check of the long-double path)."""
  elapsed_days = F(float(t_nondim)) * time_scale_seconds(scale_name) / 86400
  orb0, syn0 = calendar_turns(ref_minute_epoch)
  turns = orb0 + elapsed_days / DAYS_PER_YEAR if name == 'orbital_phase' else syn0 + elapsed_days
  frac = turns - math.floor(turns)
  return float(turns) * TWO_PI, float(frac) * TWO_PI


def circular_difference(a, b):
  """a - b reduced to [-pi, pi)."""
  d = np.asarray(a, dtype=np.float64) - np.asarray(b, dtype=np.float64)
  return d - TWO_PI * np.floor((d + math.pi) / TWO_PI)


# ---- lattices -------------------------------------------------------------------------------------
DENSE_START = minutes_since_epoch(1979, 1, 1)
DENSE_END = minutes_since_epoch(1980, 3, 1)          # exclusive: every minute of 1979-01-01 .. 1980-02-29
SPARSE_STRIDE = 97
SPARSE_YEARS = 50
SPARSE_COUNT = (SPARSE_YEARS * 36525 * 1440 // 100) // SPARSE_STRIDE + 1   # every 97th minute over 50 Julian years

REFERENCE_DATES = {
    'WB1979': minutes_since_epoch(1979, 1, 1),               # the library's WeatherBench reference
    'LEAP2000': minutes_since_epoch(2000, 2, 29, 12, 34),    # leap day, not midnight: negative and positive elapsed
    'Y2031': minutes_since_epoch(2031, 7, 15, 6, 1),         # after the whole lattice: elapsed time always negative
}


def lattice_minutes(name, start, count, stride=1):
  """int64 minutes since the epoch: `dense` = every minute from 1979-01-01, `sparse` = every 97th."""
  i = start + stride * np.arange(count, dtype=np.int64)
  if name == 'dense':
    return DENSE_START + i
  if name == 'sparse':
    return DENSE_START + SPARSE_STRIDE * i
  raise ValueError(name)
