"""Reference model: continuous sigma-coordinate primitive equations evaluated pointwise on the
reference grid (analytic horizontal derivatives of the synthesised fields, the documented vertical
finite differences of Durran section 8.6) and projected in weak (Galerkin) form.

numpy float64 only; never imports dinosaur.  The model knows ABSOLUTE temperature only: it has no notion
of a reference profile or of an implicit/explicit split.

  dzeta/dt  = -k . curl F ,   ddelta/dt = -div F - lap(Phi + KE)
  F   = (zeta + f) k x v + sigma_dot dv/dsigma + R Tv grad(ln ps)
  Phi = g z_s + R * trapezoid(Tv, ln sigma)
  dT/dt     = -v.grad T - sigma_dot dT/dsigma + kappa_m T omega/p
  dlnps/dt  = -sum_k (delta_k + v_k.grad ln ps) dsigma_k
  dq/dt     = -v.grad q - sigma_dot dq/dsigma

with Tv = T (1 + (Rv/R - 1) q), kappa_m = kappa (1 + (Rv/R - 1) q) / (1 + (cpv/cp - 1) q) (q = 0: dry).
All coefficient arrays are in the Real layout with shape (B, K, 2M-1, L) (ln ps: (B, 1, 2M-1, L)).
"""
import numpy as np

from mc.ref import sphere
from mc.ref import sigma as rsigma


class PrimitiveEquationsRef:

  def __init__(self, M, L, *, radius, sigma_bounds, R, kappa, g, omega, Rv=None, cpv_over_cp=None,
               nlat=None, nlon=None, degree=3):
    """degree: highest total wavenumber of the states that will be evaluated (sets the exact quadrature size)."""
    self.M, self.L = M, L
    self.a = float(radius)
    self.R, self.kappa, self.g, self.omega = float(R), float(kappa), float(g), float(omega)
    self.Rv = Rv; self.cpv_over_cp = cpv_over_cp
    self.sig = rsigma.Sigma(sigma_bounds)
    if nlat is None:
      # cubic products of degree<=`degree` fields, times f or cos^-2 bookkeeping, times the test harmonic (<= L-1)
      nlat = (3 * (degree + 2) + L + 6) // 2 + 2
    if nlon is None:
      nlon = 3 * (degree + 1) + M + 6
    self.ref = sphere.RefGrid(M, L, nlat, nlon)
    l = np.arange(L)
    self.inv_lap = np.zeros(L)
    self.inv_lap[1:] = -self.a ** 2 / (l[1:] * (l[1:] + 1))
    self.lap = -l * (l + 1) / self.a ** 2

  # -- helpers -------------------------------------------------------------------------------
  def winds(self, vort, div):
    """cos(lat)-weighted velocity (U, V) from vorticity / divergence coefficients."""
    ref = self.ref
    psi = vort * self.inv_lap
    chi = div * self.inv_lap
    _, psil, psim = ref.synth_grad(psi)
    _, chil, chim = ref.synth_grad(chi)
    return (chil - psim) / self.a, (psil + chim) / self.a

  def project_scalar(self, f):
    return self.ref.project(f)

  def project_vector(self, Fu, Fv):
    """(vorticity, divergence) tendencies -k.curl F and -div F of the vector with cos-weighted components
    (Fu, Fv), in weak form: -div F -> int grad Y . F ;  -k.curl F -> int grad Y . (F x k), F x k = (Fv, -Fu)."""
    ref = self.ref
    div_t = ref.project_grad(Fu, Fv) / self.a
    vor_t = ref.project_grad(Fv, -Fu) / self.a
    return vor_t, div_t

  # -- total tendency ------------------------------------------------------------------------------
  def tendency(self, vort, div, temp_abs, lnps, orog, q=None, tracers=None):
    """All inputs Real-layout coefficients; temp_abs is ABSOLUTE temperature. Returns dict of coefficient arrays."""
    ref, a, sig = self.ref, self.a, self.sig
    ds = sig.ds[:, None, None]
    cos2 = (1.0 - ref.mu ** 2)[None, None, None, :]
    zeta = ref.synth(vort)
    delta = ref.synth(div)
    U, V = self.winds(vort, div)
    T, Tl, Tm = ref.synth_grad(temp_abs)
    _, lpl, lpm = ref.synth_grad(lnps)                       # (B, 1, nx, ny)
    if q is not None:
      qn, ql, qm = ref.synth_grad(q)
      eps_ = self.Rv / self.R
      Tv = T * (1 + (eps_ - 1) * qn)
      kap = self.kappa * (1 + (eps_ - 1) * qn) / (1 + (self.cpv_over_cp - 1) * qn)
    else:
      Tv = T
      kap = self.kappa
    v_grad_lnps = (U * lpl + V * lpm) / (a * cos2)          # v . grad ln ps
    Gfull = delta + v_grad_lnps
    cum = np.cumsum(Gfull * ds, axis=-3)                     # sum_{j<=k} G_j dsigma_j
    tot = cum[..., -1:, :, :]
    sig_half = np.cumsum(sig.ds)[:-1][:, None, None]
    sdot = sig_half * tot - cum[..., :-1, :, :]              # sigma_dot at internal boundaries

    def vadv(X):
      """sigma_dot dX/dsigma at layer centres (averaged centred differences, zero flux at top/bottom)."""
      dX = (X[..., 1:, :, :] - X[..., :-1, :, :]) / sig.dc[:, None, None]
      flux = sdot * dX
      z = np.zeros(flux.shape[:-3] + (1,) + flux.shape[-2:])
      fl = np.concatenate([z, flux, z], axis=-3)
      return 0.5 * (fl[..., 1:, :, :] + fl[..., :-1, :, :])

    f = 2 * self.omega * ref.mu[None, None, None, :]
    Fu = -(zeta + f) * V + vadv(U) + self.R * Tv * lpl / a
    Fv = (zeta + f) * U + vadv(V) + self.R * Tv * lpm / a
    KE = (U ** 2 + V ** 2) / (2 * cos2)
    zs = ref.synth(orog)[..., None, :, :] if np.ndim(orog) == 2 else ref.synth(orog)
    Phi = self.g * zs + np.moveaxis(sig.geopotential_diff(np.moveaxis(Tv, -3, 0), self.R), 0, -3)
    # omega/p, Durran eq. 8.124
    alpha = sig.alpha()[:, None, None]
    alpham = np.concatenate([[0.0], sig.alpha()[:-1]])[:, None, None]
    cumm = np.concatenate([np.zeros(cum.shape[:-3] + (1,) + cum.shape[-2:]), cum[..., :-1, :, :]], axis=-3)
    omega_over_p = v_grad_lnps - (alpha * cum + alpham * cumm) / ds
    dT = -(U * Tl + V * Tm) / (a * cos2) - vadv(T) + kap * T * omega_over_p
    vor_t, div_t = self.project_vector(Fu, Fv)
    div_t = div_t - self.lap * ref.project(Phi + KE)         # -lap(Phi+KE): + l(l+1)/a^2 * coefficients
    out = dict(vorticity=vor_t, divergence=div_t, temperature=ref.project(dT), lnps=ref.project(-tot))
    adv = {}
    if q is not None:
      adv['specific_humidity'] = -(U * ql + V * qm) / (a * cos2) - vadv(qn)
    for name, c in (tracers or {}).items():
      cn, cl, cm = ref.synth_grad(c)
      adv[name] = -(U * cl + V * cm) / (a * cos2) - vadv(cn)
    out['tracers'] = {k: ref.project(v) for k, v in adv.items()}
    return out

  def condensate_loading_residual(self, lnps, condensate, dTref):
    """Tendency (vorticity, divergence) of the vector R * dTref_k * c * grad(ln ps): the residual model of finding F6."""
    ref, a = self.ref, self.a
    _, lpl, lpm = ref.synth_grad(lnps)
    c = ref.synth(condensate)
    w = self.R * np.asarray(dTref)[:, None, None] * c
    return self.project_vector(w * lpl / a, w * lpm / a)
