"""Reference model of the documented spectral filters. numpy only (extended precision inside); never imports dinosaur.

Everything here is written from the docstrings of dinosaur/filtering.py and dinosaur/time_integration.py:

  exponential filter      f(l) = exp(-a * ((k - c) / (1 - c)) ** (2 p))  for k > c, 1 otherwise, k = l / l_max
  diffusion filter        f(l) = exp(-scale * (l (l + 1) / radius**2) ** order)
  exponential step filter du_k/dt = -(u_k / tau) ((k - c) / (1 - c)) ** (2 p)          integrated over dt
  diffusion step filter   du_k/dt = -(u_k / tau) (l (l + 1) / (l_max (l_max + 1))) ** p   integrated over dt
  Robert-Asselin          c <- c + r (p - 2 c + f),  newest level unchanged

and from the documented layouts of the two spherical-harmonics implementations (which entries of a modal array
are resolved coefficients).  The factor of a filter is a function of the total wavenumber l = 0..L-1 only.
"""
import numpy as np

LD = np.longdouble


# ---- layouts -----------------------------------------------------------------------------------------

def _round_up(n, multiple):
  return -(-n // multiple) * multiple


def layout(impl, M, L, bsm=1):
  """Modal layout of a grid with M longitudinal and L total wavenumbers.

  Returns dict(shape=(rows, cols), m=signed longitudinal wavenumber per row (None: not a coefficient row),
  resolved=bool array: True where the entry is a spherical-harmonic coefficient (|m| <= l < L)).
  'real': rows 0, +1, -1, +2, -2, ...;  'fast': rows 0, (unused), +1, -1, ... zero-padded to multiples of
  (2*bsm, bsm)."""
  if impl == 'real':
    rows = [0]
    for m in range(1, M):
      rows += [m, -m]
    shape = (2 * M - 1, L)
  elif impl == 'fast':
    rows = [0, None]
    for m in range(1, M):
      rows += [m, -m]
    shape = (_round_up(2 * M, 2 * bsm), _round_up(L, bsm))
    rows += [None] * (shape[0] - len(rows))
  else:
    raise ValueError(impl)
  resolved = np.zeros(shape, dtype=bool)
  for i, m in enumerate(rows):
    if m is None:
      continue
    for l in range(L):
      resolved[i, l] = abs(m) <= l
  return dict(shape=shape, m=rows, resolved=resolved)


# ---- filter factors (shape: parameter shapes broadcast against the trailing axis l = 0..L-1) ----------------

def _lead(*params):
  """parameters as long doubles; array-valued parameters broadcast against the trailing l axis exactly as the
  documented formula does (their last axis has size 1 and lines up with l)."""
  return [np.asarray(p, dtype=LD) for p in params]


def exponential_factor(L, attenuation, order, cutoff):
  a, p, c = _lead(attenuation, order, cutoff)
  l = np.arange(L, dtype=LD)
  k = l / LD(L - 1)
  above = k > c
  y = np.where(above, (k - c) / (1 - c), LD(0))
  return np.where(above, np.exp(-a * y ** (2 * p)), LD(1))


def diffusion_factor(L, radius, scale, order):
  s, p = _lead(scale, order)
  l = np.arange(L, dtype=LD)
  lam = l * (l + 1) / (LD(radius) * LD(radius))
  return np.exp(-s * lam ** p)


def exponential_step_factor(L, dt, tau, order, cutoff):
  dt_, tau_ = np.asarray(dt, dtype=LD), np.asarray(tau, dtype=LD)
  return exponential_factor(L, dt_ / tau_, order, cutoff)


def diffusion_step_factor(L, dt, tau, order):
  dt_, tau_, p = _lead(dt, tau, order)
  l = np.arange(L, dtype=LD)
  lmax = LD(L - 1)
  g = (l * (l + 1)) / (lmax * (lmax + 1))
  return np.exp(-(dt_ / tau_) * g ** p)


def robert_asselin(p, c, f, r):
  p, c, f = (np.asarray(x, dtype=LD) for x in (p, c, f))
  return c + LD(r) * (p - 2 * c + f)


# ---- shape-selective application ("a leaf is rescaled iff broadcasting the scaling against it keeps its shape")

def broadcast_shape(a, b):
  """numpy broadcasting rule written out; None when the shapes are incompatible."""
  a, b = tuple(a), tuple(b)
  n = max(len(a), len(b))
  a = (1,) * (n - len(a)) + a
  b = (1,) * (n - len(b)) + b
  out = []
  for x, y in zip(a, b):
    if x == y or y == 1:
      out.append(x)
    elif x == 1:
      out.append(y)
    else:
      return None
  return tuple(out)


def is_rescaled(leaf_shape, scaling_shape):
  return broadcast_shape(leaf_shape, scaling_shape) == tuple(leaf_shape)


def scaling_shape(cols, *params):
  """shape of the scaling array: parameter shapes broadcast against the (cols,) total-wavenumber axis."""
  shape = (cols,)
  for p in params:
    shape = broadcast_shape(shape, np.shape(p))
  return shape


def pad_factor(factor, cols):
  """factor (..., L) -> (..., cols) with ones in the zero-padded columns (their value is never compared)."""
  L = factor.shape[-1]
  pad = np.ones(factor.shape[:-1] + (cols - L,), dtype=factor.dtype)
  return np.concatenate([factor, pad], axis=-1)
