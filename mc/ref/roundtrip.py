"""Reference models for the persistence / restructuring round trips (C19).

Plain python + numpy/scipy float64; never imports dinosaur.  Contents

  * nested dictionaries: enumeration of the bounded lattice, a path based model of
    flatten / unflatten and of replace_with_matching_or_default;
  * pytrees: enumeration of container structures with a bounded number of leaves, structural equality;
  * spectral layouts: row labels (m, kind) of the two documented coefficient layouts, label based
    zero-padding / prefix-slicing, real orthonormal harmonics on a tensor grid;
  * labelled datasets: the documented dimension names of state fields.
"""
import itertools

import numpy as np
import scipy.special as sps

LEAF = '*'  # marker of a leaf position in an enumerated dictionary skeleton


# ---------------------------------------------------------------------------------------------------
# nested dictionaries
# ---------------------------------------------------------------------------------------------------

def _one_level(keys, values):
  """All dictionaries over every subset of `keys` with values from `values` (skeletons)."""
  out = []
  for r in range(len(keys) + 1):
    for ks in itertools.combinations(keys, r):
      for vs in itertools.product(values, repeat=r):
        out.append(dict(zip(ks, vs)))
  return out


def design_inner_values():
  """leaf, {} and the 6 one-level dictionaries over {a, ab} of the design (8 values)."""
  inner = [LEAF, {}]
  inner += [{k: v} for k in ('a', 'ab') for v in (LEAF, {})]
  inner += [{'a': {}, 'ab': {}}, {'a': LEAF, 'ab': {}}]
  return inner


def design_dictionaries(top_keys=('a', 'ab', 'ac', 'b'), max_top=3, inner=None):
  """Every dictionary with <= max_top top-level keys from `top_keys`, values from `inner` (2,465 for the defaults)."""
  inner = design_inner_values() if inner is None else inner
  out = []
  for r in range(max_top + 1):
    for ks in itertools.combinations(top_keys, r):
      for vs in itertools.product(range(len(inner)), repeat=r):
        out.append({k: inner[i] for k, i in zip(ks, vs)})
  return out


def count_nodes(d):
  """number of keys at all depths"""
  if not isinstance(d, dict):
    return 0
  return sum(1 + count_nodes(v) for v in d.values())


def deeper_dictionaries(top_keys=('a', 'ab', 'ac', 'b'), sub_keys=('a', 'ab'), max_top=3, max_nodes=7):
  """One more nesting level than the design lattice: values are leaf, {} or any dictionary over subsets of
  `sub_keys` whose values are leaf, {} or a one-level dictionary over `sub_keys`; at most `max_nodes` keys overall."""
  level1 = _one_level(sub_keys, [LEAF, {}])                      # includes {}
  level1_values = [LEAF] + level1
  level2 = _one_level(sub_keys, level1_values)                   # includes {} and all of level1
  seen, inner = set(), [LEAF]
  for d in level2:
    r = repr(d)
    if r not in seen:
      seen.add(r)
      inner.append(d)
  nodes = [count_nodes(v) for v in inner]
  order = sorted(range(len(inner)), key=lambda i: (nodes[i], i))

  def fill(r, budget):
    """all index tuples of length r whose node counts sum to <= budget"""
    if r == 0:
      yield ()
      return
    for i in order:
      if nodes[i] > budget:
        break
      for rest in fill(r - 1, budget - nodes[i]):
        yield (i,) + rest

  out = []
  for r in range(max_top + 1):
    for ks in itertools.combinations(top_keys, r):
      for vs in fill(r, max_nodes - r):
        out.append({k: inner[i] for k, i in zip(ks, vs)})
  return out


def instantiate(skel, tag='v', path=()):
  """Replaces every LEAF marker by a value that names its own position (so that misplaced leaves are seen)."""
  if isinstance(skel, dict):
    return {k: instantiate(v, tag, path + (k,)) for k, v in skel.items()}
  return '%s:%s' % (tag, '/'.join(path))


def leaf_paths(d, path=()):
  """{path tuple: value} of every non-dictionary value, and the list of paths of empty dictionaries."""
  leaves, empties = {}, []
  for k, v in d.items():
    p = path + (k,)
    if isinstance(v, dict):
      if v:
        sub_l, sub_e = leaf_paths(v, p)
        leaves.update(sub_l)
        empties.extend(sub_e)
      else:
        empties.append(p)
    else:
      leaves[p] = v
  return leaves, empties


def key_is_rejected(d, sep):
  """Documented rejection: a key that contains the separator."""
  for k, v in d.items():
    if sep in k:
      return True
    if isinstance(v, dict) and key_is_rejected(v, sep):
      return True
  return False


def has_empty_string_key_with_nonempty_dict(d):
  for k, v in d.items():
    if isinstance(v, dict):
      if k == '' and v:
        return True
      if has_empty_string_key_with_nonempty_dict(v):
        return True
  return False


def flatten_model(d, sep):
  """What the documented flat form must be: joined paths of leaves, joined paths of empty dictionaries."""
  leaves, empties = leaf_paths(d)
  return {sep.join(p): v for p, v in leaves.items()}, tuple(sep.join(p) for p in empties)


def build_from_paths(leaves, empties):
  out = {}
  for p, v in list(leaves.items()) + [(p, {}) for p in empties]:
    cur = out
    for k in p[:-1]:
      cur = cur.setdefault(k, {})
    cur[p[-1]] = v
  return out


class Rejected(Exception):
  pass


def replace_model(x, replace, default, check_used=True):
  """`x` structure (empty sub-dictionaries kept) with leaves taken from `replace` at the same path, else `default`.
  A leaf of `replace` at a path that is not a leaf path of `x` is rejected when check_used."""
  lx, ex = leaf_paths(x)
  lr, _ = leaf_paths(replace)
  if check_used and set(lr) - set(lx):
    raise Rejected(sorted(set(lr) - set(lx)))
  return build_from_paths({p: lr.get(p, default) for p in lx}, ex)


# ---------------------------------------------------------------------------------------------------
# pytrees
# ---------------------------------------------------------------------------------------------------

def _compositions(n):
  """ordered compositions of n into positive parts"""
  if n == 0:
    yield ()
    return
  for first in range(1, n + 1):
    for rest in _compositions(n - first):
      yield (first,) + rest


def structures(n, depth=2):
  """Container skeletons with exactly n leaves ('L' marks a leaf slot): ('T', children...) tuples and
  ('D', children...) dictionaries, nesting depth <= depth."""
  def gen(n, depth):
    if n == 1:
      yield 'L'
    if depth == 0:
      return
    for comp in _compositions(n):
      if len(comp) == 1 and depth < 2:
        continue  # unary chains only directly under the root
      parts = [list(gen(c, depth - 1)) for c in comp]
      for choice in itertools.product(*parts):
        yield ('T',) + tuple(choice)
        yield ('D',) + tuple(choice)
  return list(gen(n, depth))


DICT_KEYS = ('b', 'a', 'c')  # insertion order differs from sorted order on purpose


def materialise(skel, leaves):
  """Builds the python container from a skeleton, consuming `leaves` in *canonical pytree order* (tuples in
  order, dictionaries by sorted key).  Returns the container."""
  it = iter(leaves)

  def build(s):
    if s == 'L':
      return next(it)
    kind, children = s[0], s[1:]
    if kind == 'T':
      return tuple(build(c) for c in children)
    keys = DICT_KEYS[:len(children)]
    order = sorted(range(len(children)), key=lambda i: keys[i])
    built = {}
    for i in order:
      built[i] = build(children[i])
    return {keys[i]: built[i] for i in range(len(children))}  # inserted in non-sorted order
  return build(skel)


def extra_structures():
  """Hand written additions: lists, None entries, empty containers (skeleton builders taking the leaf list)."""
  return {
      1: [('list1', lambda x: [x[0]]), ('none_tuple', lambda x: (None, x[0])), ('dict_empty', lambda x: {'a': x[0], 'e': {}})],
      2: [('list2', lambda x: [x[0], x[1]]), ('none_mid', lambda x: (x[0], None, x[1])),
          ('list_in_dict', lambda x: {'k': [x[0], x[1]]})],
      3: [('list3', lambda x: [x[0], x[1], x[2]]), ('mixed', lambda x: [x[0], {'k': x[1]}, (x[2],)]),
          ('none_dict', lambda x: {'a': x[0], 'n': None, 'z': (x[1], x[2])})],
  }


def same_structure(a, b):
  """Structural equality of containers (types, keys, arity); leaves are anything that is not tuple/list/dict/None."""
  if isinstance(a, dict) or isinstance(b, dict):
    return (isinstance(a, dict) and isinstance(b, dict) and set(a) == set(b)
            and all(same_structure(a[k], b[k]) for k in a))
  if isinstance(a, (tuple, list)) or isinstance(b, (tuple, list)):
    return (type(a) == type(b) and len(a) == len(b) and all(same_structure(x, y) for x, y in zip(a, b)))
  if a is None or b is None:
    return a is None and b is None
  return True


def leaves_in_order(t):
  """Leaves in canonical pytree order (dict keys sorted, None skipped)."""
  if isinstance(t, dict):
    out = []
    for k in sorted(t):
      out += leaves_in_order(t[k])
    return out
  if isinstance(t, (tuple, list)):
    out = []
    for v in t:
      out += leaves_in_order(v)
    return out
  if t is None:
    return []
  return [t]


# ---------------------------------------------------------------------------------------------------
# spectral layouts
# ---------------------------------------------------------------------------------------------------

def rows(layout, M):
  """(m, kind) label of every row of the coefficient array; kind 'c' | 's'.  Real: 0, 1c, 1s, 2c, 2s ...
  Fast: 0c, 0s (structural zero), 1c, 1s, ...  as documented in spherical_harmonic.py."""
  if layout == 'real':
    return [(0, 'c')] + [(m, k) for m in range(1, M) for k in ('c', 's')]
  if layout == 'fast':
    return [(m, k) for m in range(M) for k in ('c', 's')]
  raise ValueError(layout)


def signed_wavenumbers(layout, M):
  """the library's modal axis convention: +m for cos rows, -m for sin rows"""
  return [m if k == 'c' else -m for m, k in rows(layout, M)]


def modal_shape(layout, M, L):
  return (len(rows(layout, M)), L)


def relabel(x, layout, src, dst):
  """Moves coefficients by label: entry ((m,kind), l) of `x` (layout rows of src=(M,L)) goes to the same label of
  dst=(M',L'); labels absent in dst are dropped, labels absent in src are zero.  Covers up- and down-sampling."""
  x = np.asarray(x)
  (Ms, Ls), (Md, Ld) = src, dst
  rs, rd = rows(layout, Ms), rows(layout, Md)
  out = np.zeros(x.shape[:-2] + (len(rd), Ld), dtype=x.dtype)
  pos = {lab: i for i, lab in enumerate(rs)}
  lc = min(Ls, Ld)
  for j, lab in enumerate(rd):
    if lab in pos:
      out[..., j, :lc] = x[..., pos[lab], :lc]
  return out


def harmonics(layout, M, L, lam, mu):
  """Y[row, l, i, j]: real orthonormal harmonics (unit sphere) on the tensor grid lam x mu, rows in `layout` order;
  zero where m > l and on the structural-zero row."""
  lam = np.asarray(lam, dtype=np.float64)
  mu = np.asarray(mu, dtype=np.float64)
  P = sps.assoc_legendre_p_all(L - 1, max(M - 1, 0), mu, norm=True)[0]  # [l, m, j] (negative m wrapped at the end)
  rs = rows(layout, M)
  Y = np.zeros((len(rs), L, lam.size, mu.size))
  for i, (m, kind) in enumerate(rs):
    if m == 0:
      if kind == 's':
        continue
      f = np.full_like(lam, 1 / np.sqrt(2 * np.pi))
    else:
      f = (np.cos(m * lam) if kind == 'c' else np.sin(m * lam)) / np.sqrt(np.pi)
    for l in range(m, L):
      Y[i, l] = f[:, None] * P[l, m][None, :]
  return Y


# ---------------------------------------------------------------------------------------------------
# labelled datasets: documented dimension names
# ---------------------------------------------------------------------------------------------------

MODAL_DIMS = ('longitudinal_mode', 'total_wavenumber')
NODAL_DIMS = ('lon', 'lat')


def expected_dims(role, representation, has_sample, has_time):
  """role: 'volume' (layers, ., .), 'surface' (1, ., .) in a system with more than one layer, 'scalar'."""
  lead = (('sample',) if has_sample else ()) + (('time',) if has_time else ())
  if role == 'scalar':
    return lead
  hor = MODAL_DIMS if representation == 'modal' else NODAL_DIMS
  return lead + ({'volume': 'level', 'surface': 'surface'}[role],) + hor


def sigma_centres(boundaries):
  b = np.asarray(boundaries, dtype=np.float64)
  return (b[1:] + b[:-1]) / 2
