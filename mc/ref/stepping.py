"""Sequential definitions of the stepping / scan combinators. numpy float64 only; never imports dinosaur or jax.

Everything here is a plain python loop over explicit numpy states.  States are nested dict / tuple / list
containers of numpy arrays ("pytrees"); `tmap` / `tstack` are the only tree helpers needed.

The *data* of the generic step functions, filters and scan bodies (small integer / dyadic matrices) lives here
too; the property module builds the jax versions from the same constants, the functions below are the numpy
versions.  All generic values are integers or dyadic rationals of modest size, so every result is exactly
representable in float64 and any off-by-one, dropped, duplicated or re-ordered step changes it by >= 2**-6.
"""
import math
import numpy as np

# ------------------------------------------------------------------------------------------------
# tiny pytree helpers
# ------------------------------------------------------------------------------------------------


def tmap(fn, tree, *rest):
  if isinstance(tree, dict):
    return {k: tmap(fn, tree[k], *[r[k] for r in rest]) for k in tree}
  if isinstance(tree, (tuple, list)):
    return type(tree)(tmap(fn, t, *[r[i] for r in rest]) for i, t in enumerate(tree))
  if tree is None:
    return None
  return fn(tree, *rest)


def tleaves(tree):
  if isinstance(tree, dict):
    return [l for k in sorted(tree) for l in tleaves(tree[k])]
  if isinstance(tree, (tuple, list)):
    return [l for t in tree for l in tleaves(t)]
  if tree is None:
    return []
  return [np.asarray(tree)]


def tstack(trees, like=None):
  """stacks a list of identical pytrees on a new leading axis (empty list: zero-length stack of `like`)."""
  if not trees:
    return tmap(lambda a: np.zeros((0,) + np.shape(a)), like)
  return tmap(lambda *xs: np.stack([np.asarray(x) for x in xs]), trees[0], *trees[1:])


def tindex(tree, k):
  return tmap(lambda a: np.asarray(a)[k], tree)


def f64(tree):
  return tmap(lambda a: np.asarray(a, dtype=np.float64), tree)


# ------------------------------------------------------------------------------------------------
# generic step: three non-commuting affine maps selected by a step counter carried in the state
# ------------------------------------------------------------------------------------------------

A = np.array([[[1.0, 1.0], [0.0, 1.0]],      # shear
              [[0.0, 1.0], [-1.0, 0.0]],     # quarter turn
              [[1.0, 0.0], [1.0, 1.0]]])     # transposed shear
B = np.array([[1.0, 0.0], [0.0, -2.0], [0.5, 0.25]])
NMAPS = 3


def count_step(state):
  """x -> A[n mod 3] x + B[n mod 3];  n -> n + 1.  state = {'x': (2,), 'n': ()}"""
  x = np.asarray(state['x'], dtype=np.float64)
  n = float(state['n'])
  i = int(round(n)) % NMAPS
  return {'x': A[i] @ x + B[i], 'n': np.float64(n + 1.0)}


def initial_state(amp):
  return {'x': np.array([1.0, 2.0]) * amp, 'n': np.float64(0.0)}


def post_process(state):
  """a frame post-processing that changes the tree structure and mixes leaves."""
  return {'s': state['x'][0] - 2.0 * state['x'][1], 'm': (2.0 * state['n'], state['x'])}


# ------------------------------------------------------------------------------------------------
# sequential definitions
# ------------------------------------------------------------------------------------------------

def repeated(step, n):
  def f(x):
    for _ in range(n):
      x = step(x)
    return x
  return f


def trajectory(step, x0, outer, inner, start_with_input, post=lambda x: x):
  """frame k = post(state after k*inner steps) if start_with_input else post(state after (k+1)*inner steps);
  final = state after outer*inner steps."""
  x = x0
  frames = []
  for _ in range(outer):
    if start_with_input:
      frames.append(post(x))
    for _ in range(inner):
      x = step(x)
    if not start_with_input:
      frames.append(post(x))
  return x, tstack(frames)


def with_filters(step, filters):
  """every filter sees the state *before* the step and the running filtered state, in list order."""
  def f(u):
    v = step(u)
    for flt in filters:
      v = flt(u, v)
    return v
  return f


# three non-commuting step filters (u = state before the step, v = state after it) ---------------
FILTER_DIAG = np.array([0.5, 2.0])
FILTER_MIX = 0.25
FILTER_PERM = np.array([[0.0, 1.0], [1.0, 0.0]])
FILTER_SHIFT = np.array([1.0, 0.0])


def filter_scale(u, v):
  return {'x': FILTER_DIAG * v['x'], 'n': v['n']}


def filter_mix(u, v):
  """relaxes towards the pre-step state (the only filter that reads `u`)."""
  return {'x': v['x'] + FILTER_MIX * (u['x'] - v['x']), 'n': v['n']}


def filter_swap(u, v):
  return {'x': FILTER_PERM @ v['x'] + FILTER_SHIFT, 'n': v['n']}


FILTERS = (filter_scale, filter_mix, filter_swap)


# ------------------------------------------------------------------------------------------------
# scan bodies, flat scan, and its hand-written reverse-mode derivative
# ------------------------------------------------------------------------------------------------
# carry = {'x': (2,), 'n': ()}
# with xs    : x_k = {'a': (), 'b': (2,)}:  M = A[0] + a*A[1];  x' = M x + b
# without xs : i = n mod 3               :  M = A[i];           x' = M x + B[i]
# n' = n + 1;   outputs  y = (x' * n, {'s': x[0] * a + n})   (a := 1 without xs)

def _step_mats(n, xk):
  if xk is None:
    i = int(round(float(n))) % NMAPS
    return A[i], B[i], 1.0
  a = float(xk['a'])
  return A[0] + a * A[1], np.asarray(xk['b'], dtype=np.float64), a


def scan_body(carry, xk):
  x = np.asarray(carry['x'], dtype=np.float64)
  n = float(carry['n'])
  M, b, a = _step_mats(n, xk)
  x1 = M @ x + b
  return {'x': x1, 'n': np.float64(n + 1.0)}, (x1 * n, {'s': np.float64(x[0] * a + n)})


def scan(f, init, xs, length):
  c = init
  ys = []
  for k in range(length):
    c, y = f(c, None if xs is None else tindex(xs, k))
    ys.append(y)
  like = (np.zeros(2), {'s': np.float64(0.0)})
  return c, tstack(ys, like=like)


def scan_xs(length):
  """scanned inputs: a in {-1,0,1} (integer matrices, so everything stays exactly representable), b half-integers;
  the pair sequence has no short period, so a permutation of sub-scans changes the result."""
  k = np.arange(length)
  return {'a': ((k + k // 4) % 3) - 1.0,
          'b': np.stack([(k % 2) * 1.0, (k % 4) - 1.5], axis=-1)}


def loss_weights(length):
  """position dependent weights, so that any permutation of the stacked outputs changes the loss."""
  k = np.arange(length, dtype=np.float64)
  return dict(wx=np.array([1.0, -3.0]), wn=2.0,
              wy=np.stack([(k % 7) - 3.0, 1.0 - (k % 3)], axis=-1) * 0.5,
              ws=((k % 5) - 2.0) * 0.5)


def loss(carry, ys, w):
  y, s = ys[0], ys[1]['s']
  return float(np.sum(w['wx'] * carry['x']) + w['wn'] * carry['n'] + np.sum(w['wy'] * y) + np.sum(w['ws'] * s))


def scan_loss_and_grad(init, xs, length):
  """loss(flat scan) and its gradient w.r.t. init (and xs), by explicit reverse accumulation."""
  w = loss_weights(length)
  # forward sweep, keeping the states
  states = [f64(init)]
  c = init
  for k in range(length):
    c, _ = scan_body(c, None if xs is None else tindex(xs, k))
    states.append(c)
  carry, ys = scan(scan_body, init, xs, length)
  value = loss(carry, ys, w)
  bx = np.array(w['wx'], dtype=np.float64)
  bn = float(w['wn'])
  ga = np.zeros(length)
  gb = np.zeros((length, 2))
  for k in reversed(range(length)):
    x = states[k]['x']; n = float(states[k]['n'])
    xk = None if xs is None else tindex(xs, k)
    M, b, a = _step_mats(n, xk)
    x1 = M @ x + b
    by, bs = w['wy'][k], float(w['ws'][k])
    bx1 = bx + by * n                      # y = x1 * n
    bn = bn + float(by @ x1) + bs          # n' = n + 1 ; y ; s
    bx = M.T @ bx1
    bx[0] += bs * a                        # s = x[0] * a + n
    if xk is not None:
      ga[k] = float(bx1 @ (A[1] @ x)) + bs * x[0]
      gb[k] = bx1
  g_init = {'x': bx, 'n': np.float64(bn)}
  g_xs = None if xs is None else {'a': ga, 'b': gb}
  return value, carry, ys, g_init, g_xs


def tuples_with_product(n, depth, min_factor=1):
  """all ordered tuples of `depth` integers >= min_factor whose product is n."""
  if depth == 1:
    return [(n,)] if n >= min_factor else []
  out = []
  for a in range(min_factor, n + 1):
    if n % a == 0:
      out += [(a,) + t for t in tuples_with_product(n // a, depth - 1, min_factor)]
  return out


def factorisations(n, max_depth=4, with_ones=False):
  """ordered factorisations of n (factors >= 2; the trivial (n,) included) up to max_depth; with_ones adds every
  tuple that also contains unit factors."""
  out = []
  for d in range(1, max_depth + 1):
    for t in tuples_with_product(n, d, 1):
      if d == 1 or with_ones or min(t) >= 2:
        out.append(t)
  return out


# ------------------------------------------------------------------------------------------------
# weighted accumulation and digital filter initialisation
# ------------------------------------------------------------------------------------------------

def accumulate(step, weights, state):
  """sum_{i=1..len(weights)} weights[i-1] * step^i(state)   (the initial state itself carries no weight)."""
  acc = tmap(lambda a: np.zeros_like(np.asarray(a, dtype=np.float64)), state)
  x = state
  for w in weights:
    x = step(x)
    acc = tmap(lambda s, a: a + w * np.asarray(s, dtype=np.float64), x, acc)
  return acc


def lanczos_dfi_coefficients(N, dt, cutoff_period):
  """Lynch & Huang (1992): h_n = sin(n theta_c)/(n pi) * sin(n pi/(N+1))/(n pi/(N+1)), theta_c = 2 pi dt/tau_c,
  h_0 = theta_c/pi, for n = -N..N, normalised to unit sum.  Returns (h_0, h_1..h_N) after normalisation."""
  theta = 2.0 * math.pi * dt / cutoff_period
  h0 = theta / math.pi
  h = []
  for n in range(1, N + 1):
    window = math.sin(n * math.pi / (N + 1)) / (n * math.pi / (N + 1))
    h.append(math.sin(n * theta) / (n * math.pi) * window)
  total = h0 + 2.0 * sum(h)
  return h0 / total, np.array(h) / total


def dfi(forward_step, backward_step, state, N, dt, cutoff_period):
  """x* = sum_{n=-N..N} h_n x(n dt) with x(n dt) from n forward steps, x(-n dt) from n backward steps."""
  h0, h = lanczos_dfi_coefficients(N, dt, cutoff_period)
  out = tmap(lambda a: h0 * np.asarray(a, dtype=np.float64), state)
  for step in (forward_step, backward_step):
    x = state
    for n in range(N):
      x = step(x)
      out = tmap(lambda s, a: a + h[n] * np.asarray(s, dtype=np.float64), x, out)
  return out


# linear test equation for DFI:  d/dt (p, q) = (EX + IM) (p, q),  m' = 0
def oscillator_matrices(omega_ex, omega_im, damp_im=0.0):
  J = np.array([[0.0, -1.0], [1.0, 0.0]])
  return omega_ex * J, omega_im * J - damp_im * np.eye(2)


def imex_euler_matrix(EX, IM, dt):
  """forward Euler on EX, backward Euler on IM:  x1 = (1 - dt IM)^-1 (1 + dt EX) x0."""
  return np.linalg.solve(np.eye(2) - dt * IM, np.eye(2) + dt * EX)


def fix_sim_time(t, dt):
  """nearest integer multiple of dt, in the arithmetic of the operands' dtype."""
  return dt * np.round(t / dt)
