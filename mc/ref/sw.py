"""Reference model: layered rotating shallow-water equations on the sphere, pointwise + weak-form projection.
numpy float64 only; never imports dinosaur.

  dzeta/dt  = -div((zeta + f) v)
  ddelta/dt =  k . curl((zeta + f) v) - lap(p + |v|^2 / 2),   p_i = sum_j D_ij phi_j + phi_orography
  dphi/dt   = -div((phi_ref + phi) v)

D_ij = rho_j / rho_i for j above i (j < i... see density_ratio), 1 for j below or equal: the pressure in layer i
is the weight of everything above it (scaled by density ratio) plus the layers below lifting it.
Coefficient arrays: Real layout, shape (B, K, 2M-1, L).
"""
import numpy as np

from mc.ref import sphere


def density_ratio(rho):
  """D[i, j] = rho[j] / rho[i] if j < i... documented as: min(rho[j] / rho[i], 1) including the diagonal."""
  rho = np.asarray(rho, dtype=np.float64)
  return np.minimum(rho[None, :] / rho[:, None], 1.0)


class ShallowWaterRef:

  def __init__(self, M, L, *, radius, omega, densities, degree=3, nlat=None, nlon=None):
    self.M, self.L = M, L
    self.a = float(radius)
    self.omega = float(omega)
    self.D = density_ratio(densities)
    if nlat is None:
      nlat = (2 * (degree + 2) + L + 6) // 2 + 2
    if nlon is None:
      nlon = 2 * (degree + 1) + M + 6
    self.ref = sphere.RefGrid(M, L, nlat, nlon)
    l = np.arange(L)
    self.inv_lap = np.zeros(L); self.inv_lap[1:] = -self.a ** 2 / (l[1:] * (l[1:] + 1))
    self.lap = -l * (l + 1) / self.a ** 2

  def winds(self, vort, div):
    ref = self.ref
    _, psil, psim = ref.synth_grad(vort * self.inv_lap)
    _, chil, chim = ref.synth_grad(div * self.inv_lap)
    return (chil - psim) / self.a, (psil + chim) / self.a

  def tendency(self, vort, div, phi, phi_ref, orography=None):
    ref, a = self.ref, self.a
    cos2 = (1.0 - ref.mu ** 2)[None, None, None, :]
    U, V = self.winds(vort, div)                      # cos(lat) * velocity
    zeta = ref.synth(vort)
    f = 2 * self.omega * ref.mu[None, None, None, :]
    Au, Av = (zeta + f) * U, (zeta + f) * V
    vor_t = ref.project_grad(Au, Av) / a               # -div A
    curlA = ref.project_grad(-Av, Au) / a              # k . curl A
    KE = (U ** 2 + V ** 2) / (2 * cos2)
    p = np.einsum('ij,...jml->...iml', self.D, phi)
    if orography is not None:
      p = p + orography
    div_t = curlA - self.lap * (p + ref.project(KE))
    h = ref.synth(phi) + np.asarray(phi_ref, dtype=np.float64)[:, None, None]
    phi_t = ref.project_grad(h * U, h * V) / a         # -div(h v)
    return dict(vorticity=vor_t, divergence=div_t, potential=phi_t)
