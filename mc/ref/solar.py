"""Reference model of the documented top-of-atmosphere solar geometry. numpy float64 only; never imports dinosaur.

Documented model (radiation.py docstrings):
  * orbital phase 0 / 2*pi = January 1st 00:00 UTC, synodic phase 0 / 2*pi = midnight UTC;
  * model time advances the orbital phase by 2*pi per Julian year (365.25 days) and the synodic phase by 2*pi
    per day, starting from the calendar phases of the reference datetime (day of year / days in that year);
  * S(phase) = TSI + variation * cos(phase - perihelion), perihelion on January 3rd (+3 days);
  * declination = inclination * sin(phase - equinox), equinox 79 days after January 1st;
  * equation of time (minutes) 9.87 sin 2b - 7.53 cos b - 1.5 sin b, b = phase - equinox;
  * hour angle = mean solar time + equation of time + longitude - pi;
  * flux = S * max(0, sin(altitude)).

sin(altitude) is evaluated here as the scalar product of the local vertical with the direction of the sun (sub-solar
point at latitude = declination, longitude = pi - synodic phase - equation of time), not through the hour-angle
formula of the implementation.  Phases of lattice times are reduced with exact integer arithmetic.
"""
import numpy as np

TWO_PI = 2.0 * np.pi
JULIAN_YEAR_DAYS = 365.25
MINUTES_PER_DAY = 1440
TSI = 1361.0            # W / m^2
VARIATION = 47.0        # W / m^2
PERIHELION_DAY = 3.0
EQUINOX_DAY = 79.0
INCLINATION_DEG = 23.45

_CUM = (0, 31, 59, 90, 120, 151, 181, 212, 243, 273, 304, 334)


def is_leap(year: int) -> bool:
  return year % 4 == 0 and (year % 100 != 0 or year % 400 == 0)


def days_in_year(year: int) -> int:
  return 366 if is_leap(year) else 365


def day_of_year(year: int, month: int, day: int) -> int:
  """1-based."""
  return _CUM[month - 1] + day + (1 if (month > 2 and is_leap(year)) else 0)


def phases_from_reference(ref, minutes):
  """Orbital and synodic phase in [0, 2*pi) of model time `minutes` (integer array, may be negative) after the
  reference datetime `ref` = (year, month, day, hour, minute).  Exact integer reduction; also returns the
  magnitude of the unreduced phases (for error scales)."""
  y, mo, d, h, mi = ref
  minutes = np.asarray(minutes, dtype=np.int64)
  diy = days_in_year(y)
  ref_min_of_day = h * 60 + mi
  ref_min_of_year = (day_of_year(y, mo, d) - 1) * MINUTES_PER_DAY + ref_min_of_day
  # orbital fraction = ref_min_of_year / (1440*diy) + minutes / (1440*365.25); 1440*365.25 = 525960 exactly
  den_ref = MINUTES_PER_DAY * diy               # minutes in the reference calendar year
  den_run = 525960                              # minutes in a Julian year
  # common denominator den_ref * den_run; numerator exact in int64 (|minutes| < 1e9)
  num = ref_min_of_year * den_run + minutes * den_ref
  den = den_ref * den_run
  orb_frac = np.mod(num, den).astype(np.float64) / float(den)
  syn_frac = np.mod(ref_min_of_day + minutes, MINUTES_PER_DAY).astype(np.float64) / MINUTES_PER_DAY
  unreduced_orb = np.abs(num.astype(np.float64) / float(den)) * TWO_PI
  unreduced_syn = np.abs((ref_min_of_day + minutes).astype(np.float64) / MINUTES_PER_DAY) * TWO_PI
  return TWO_PI * orb_frac, TWO_PI * syn_frac, unreduced_orb, unreduced_syn


def irradiance(orbital_phase, mean=TSI, variation=VARIATION):
  """S(t): instantaneous solar constant."""
  return mean + variation * np.cos(np.asarray(orbital_phase) - TWO_PI * PERIHELION_DAY / JULIAN_YEAR_DAYS)


def perihelion_irradiance(mean=TSI, variation=VARIATION):
  return mean + variation


def declination(orbital_phase):
  b = np.asarray(orbital_phase) - TWO_PI * EQUINOX_DAY / JULIAN_YEAR_DAYS
  return np.deg2rad(INCLINATION_DEG) * np.sin(b)


def equation_of_time(orbital_phase):
  """radians of synodic phase."""
  b = np.asarray(orbital_phase) - TWO_PI * EQUINOX_DAY / JULIAN_YEAR_DAYS
  minutes = 9.87 * np.sin(2 * b) - 7.53 * np.cos(b) - 1.5 * np.sin(b)
  return TWO_PI * minutes / MINUTES_PER_DAY


def subsolar_longitude(orbital_phase, synodic_phase):
  """Longitude at which the hour angle vanishes (local apparent noon)."""
  return np.pi - np.asarray(synodic_phase) - equation_of_time(orbital_phase)


def sin_altitude_grid(orbital_phase, synodic_phase, lon, sin_lat):
  """sin(altitude) on the tensor grid lon x lat for a vector of times: shape (T, nlon, nlat).
  Scalar product of the local vertical and the sun direction."""
  op = np.atleast_1d(np.asarray(orbital_phase, dtype=np.float64))
  sp = np.atleast_1d(np.asarray(synodic_phase, dtype=np.float64))
  lon = np.asarray(lon, dtype=np.float64)
  mu = np.asarray(sin_lat, dtype=np.float64)
  cl = np.sqrt((1.0 - mu) * (1.0 + mu))
  dec = declination(op)
  ls = subsolar_longitude(op, sp)
  # vertical n = (cl cos lon, cl sin lon, mu); sun s = (cos dec cos ls, cos dec sin ls, sin dec)
  sx = np.cos(dec) * np.cos(ls)
  sy = np.cos(dec) * np.sin(ls)
  sz = np.sin(dec)
  horiz = sx[:, None] * np.cos(lon)[None, :] + sy[:, None] * np.sin(lon)[None, :]      # (T, nlon)
  out = np.empty((len(op), len(lon), len(mu)))
  np.multiply(horiz[:, :, None], cl[None, None, :], out=out)
  out += (sz[:, None] * mu[None, :])[:, None, :]
  return out


def sin_altitude_points(orbital_phase, synodic_phase, lon, lat):
  """Same for broadcastable arrays of points (lat in radians)."""
  dec = declination(orbital_phase)
  ls = subsolar_longitude(orbital_phase, synodic_phase)
  lon = np.asarray(lon, dtype=np.float64)
  lat = np.asarray(lat, dtype=np.float64)
  n = (np.cos(lat) * np.cos(lon), np.cos(lat) * np.sin(lon), np.sin(lat))
  s = (np.cos(dec) * np.cos(ls), np.cos(dec) * np.sin(ls), np.sin(dec))
  return n[0] * s[0] + n[1] * s[1] + n[2] * s[2]


def gauss_weights(nlat):
  """Gauss-Legendre nodes (sin lat, ascending) and weights (sum 2)."""
  return np.polynomial.legendre.leggauss(int(nlat))


def global_mean(field, weights):
  """Area mean over the sphere of field(..., nlon, nlat): uniform in longitude, Gauss in sin(latitude)."""
  return (np.asarray(field).mean(axis=-2) * (np.asarray(weights) / 2.0)).sum(axis=-1)


def mean_quadrature_bound(nlon, nlat):
  """Relative bound on the quadrature error of the global mean of max(0, sin altitude) (a field with a kink on the
  terminator): 2 / n^2 with n the number of latitude nodes (longitude resolved at least as finely: n <= nlon/2)."""
  n = min(float(nlat), float(nlon) / 2.0)
  return 2.0 / n ** 2


SPECIAL_DAYS = (2, 78, 79, 171, 172, 265, 266, 354, 355)   # 0-based day offsets: perihelion, equinoxes, solstices
