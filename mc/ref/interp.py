"""Reference model of the documented 1-D piecewise-linear interpolants and of the vertical-coordinate
conversions built on them. numpy float64 + fractions only; never imports dinosaur.

Three documented behaviours outside the source range [xp[0], xp[-1]]:

  'constant'  the end value                                   (interp, _dot_interp, vertical_interpolation,
                                                               primitive_equations._vertical_interp)
  'linear'    the end cell's line, without limit              (linear_interp_with_linear_extrap)
  'safe'      the end cell's line for n cells of the end cell's width (closed interval), missing (NaN)
              beyond                                          (_linear_interp_with_safe_extrap)

The cell search is a plain scan (no searchsorted), the value is f_i + (f_{i+1}-f_i) * (x-x_i)/(x_{i+1}-x_i).
"""
import itertools
from fractions import Fraction

import numpy as np

DYADIC = (0.0, 0.25, 0.5, 0.75, 1.0, 1.5, 2.0)
DATA_VALUES = (-1.0, 0.0, 2.0)
AFFINE = ((2.0, 0.0), (0.0, 1.0), (-1.5, 3.0))   # (a, b): f = a + b*x


def node_sets(sizes=(2, 3, 4), lattice=DYADIC):
  """all strictly increasing subsets of the lattice with the given sizes."""
  return [tuple(c) for k in sizes for c in itertools.combinations(lattice, k)]


def data_vectors(k, values=DATA_VALUES):
  return [tuple(v) for v in itertools.product(values, repeat=k)]


def queries(lo=-1.0, hi=3.0, step=1.0 / 16):
  n = int(round((hi - lo) / step))
  return np.array([lo + i * step for i in range(n + 1)])


def cell(x, xp):
  """index i of the cell [xp[i], xp[i+1]) that holds x; end cells for points outside; the last cell for
  x == xp[-1]."""
  n = len(xp)
  if x < xp[0]:
    return 0
  for i in range(n - 1):
    if xp[i] <= x < xp[i + 1]:
      return i
  return n - 2


def safe_range(xp, n):
  """closed interval on which the n-cell extrapolation is defined (same float operations as repeated
  padding: each pad repeats the end cell's width)."""
  lo, hi = xp[0], xp[-1]
  dl, dh = xp[1] - xp[0], xp[-1] - xp[-2]
  for _ in range(n):
    lo = lo - dl
    hi = hi + dh
  return lo, hi


def evaluate(xq, xp, fp, mode, n=1):
  """xq (Q,), xp (k,), fp (..., k) -> (..., Q)."""
  xq = np.asarray(xq, dtype=np.float64)
  xp = np.asarray(xp, dtype=np.float64)
  fp = np.asarray(fp, dtype=np.float64)
  out = np.empty(fp.shape[:-1] + (len(xq),))
  lo, hi = safe_range(xp, n) if mode == 'safe' else (None, None)
  for j, x in enumerate(xq):
    i = cell(x, xp)
    t = (x - xp[i]) / (xp[i + 1] - xp[i])
    v = fp[..., i] + (fp[..., i + 1] - fp[..., i]) * t
    if mode == 'constant':
      if x < xp[0]:
        v = fp[..., 0]
      elif x > xp[-1]:
        v = fp[..., -1]
    elif mode == 'safe':
      if x < lo or x > hi:
        v = np.full(fp.shape[:-1], np.nan)
    elif mode != 'linear':
      raise ValueError(mode)
    out[..., j] = v
  return out


def neighbour_bounds(xq, xp, fp):
  """(lo, hi, inside): inside the source range an interpolated value lies between the values at the two
  nodes that bracket the query (and equals the node value at a node)."""
  xq = np.asarray(xq); xp = np.asarray(xp); fp = np.asarray(fp, dtype=np.float64)
  lo = np.zeros(fp.shape[:-1] + (len(xq),)); hi = np.zeros_like(lo)
  inside = np.zeros(len(xq), dtype=bool)
  for j, x in enumerate(xq):
    if x < xp[0] or x > xp[-1]:
      continue
    inside[j] = True
    hit = [i for i in range(len(xp)) if xp[i] == x]
    if hit:
      lo[..., j] = hi[..., j] = fp[..., hit[0]]
    else:
      i = cell(x, xp)
      lo[..., j] = np.minimum(fp[..., i], fp[..., i + 1])
      hi[..., j] = np.maximum(fp[..., i], fp[..., i + 1])
  return lo, hi, inside


def max_weight(xq, xp):
  """largest |(x - x_i)/(x_{i+1}-x_i)| over the queries (conditioning of linear extrapolation)."""
  w = 1.0
  for x in xq:
    i = cell(x, xp)
    w = max(w, abs((x - xp[i]) / (xp[i + 1] - xp[i])), abs(1 - (x - xp[i]) / (xp[i + 1] - xp[i])))
  return w


# -- membership of a float target in a closed range, with exact-rational tie handling --------------------

def range_status(t_float, lo_float, hi_float, t_exact=None, lo_exact=None, hi_exact=None, ulps=64):
  """'in' / 'out' / 'ambiguous'.

  A target within `ulps` relative round-offs of a range end is ambiguous (not asserted), unless the exact
  rational values are given, tie exactly, and every float involved equals its exact value (then no evaluation
  order can move it: the closed range contains it)."""
  eps = np.finfo(np.float64).eps
  for end_f, end_x in ((lo_float, lo_exact), (hi_float, hi_exact)):
    if abs(t_float - end_f) <= ulps * eps * max(abs(t_float), abs(end_f), 1e-300):
      if (t_exact is not None and end_x is not None and t_exact == end_x
          and Fraction(float(t_float)) == t_exact and Fraction(float(end_f)) == end_x):
        return 'in'
      return 'ambiguous'
  return 'in' if lo_float < t_float < hi_float else 'out'


def near_node(t, xp, ulps=64):
  eps = np.finfo(np.float64).eps
  return [i for i in range(len(xp)) if abs(t - xp[i]) <= ulps * eps * max(abs(t), abs(xp[i]), 1e-300)]


def safe_column(targets, xp, fp, n=1, t_exact=None, xp_exact=None):
  """n-cell safe interpolation of one column.

  Returns (value, status): value[j] is the reference value (NaN when outside), status[j] in
  {'in','out','ambiguous'}; for 'in' points whose bracketing nodes (both neighbours at a node hit) are not all
  finite the status is 'stencil' (not asserted)."""
  xp = np.asarray(xp, dtype=np.float64); fp = np.asarray(fp, dtype=np.float64)
  lo, hi = safe_range(xp, n)
  lo_x = hi_x = None
  if xp_exact is not None:
    lo_x = xp_exact[0] - n * (xp_exact[1] - xp_exact[0])
    hi_x = xp_exact[-1] + n * (xp_exact[-1] - xp_exact[-2])
  vals = evaluate(targets, xp, fp, 'safe', n)
  status = []
  for j, t in enumerate(targets):
    st = range_status(t, lo, hi, None if t_exact is None else t_exact[j], lo_x, hi_x)
    if st == 'in':
      i = cell(t, xp)
      need = {i, i + 1}
      for h in near_node(t, xp):
        need |= {max(h - 1, 0), h, min(h + 1, len(xp) - 1)}
      if not np.all(np.isfinite(fp[..., sorted(need)])):
        st = 'stencil'
    status.append(st)
  return vals, status


# -- vertical coordinates -------------------------------------------------------------------------------------

def sigma_centers(boundaries):
  b = np.asarray(boundaries, dtype=np.float64)
  return (b[1:] + b[:-1]) / 2


def hybrid_sigma_centers(a_boundaries, b_boundaries, surface_pressure):
  """sigma at the centre of each hybrid layer: pressure = a + b*ps on the boundaries, sigma = pressure/ps."""
  a = np.asarray(a_boundaries, dtype=np.float64); b = np.asarray(b_boundaries, dtype=np.float64)
  s = a / surface_pressure + b
  return (s[1:] + s[:-1]) / 2


def surface_pressure_column(levels, phi, gz):
  """pressure at which the piecewise-linear geopotential phi(levels) (strictly decreasing, extended linearly
  beyond both ends) equals gz = g * orography. Returns (p, conditioning |w|)."""
  levels = np.asarray(levels, dtype=np.float64); phi = np.asarray(phi, dtype=np.float64)
  n = len(levels)
  i = n - 2
  if gz >= phi[0]:
    i = 0
  else:
    for j in range(n - 1):
      if phi[j] >= gz > phi[j + 1]:
        i = j
        break
  w = (phi[i] - gz) / (phi[i] - phi[i + 1])
  return levels[i] + w * (levels[i + 1] - levels[i]), max(abs(w), abs(1 - w))
