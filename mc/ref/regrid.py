"""Reference model of conservative (area / thickness overlap) regridding. numpy float64 only; never imports dinosaur.

Horizontal: a grid is a tensor product of longitude cells and latitude cells. Cell centres are the grid
nodes; cell bounds are the midpoints between neighbouring centres (periodic in longitude; closed by the
poles in latitude). The area of a cell is (longitude width) x (difference of sin(latitude) bounds). The
conservative weight of source cell s in target cell t is area(s & t) / area(t covered by the source).

Vertical: source layers are bounded by hybrid levels p = a + b * p_surface, target layers by
sigma * p_surface. The weight of source layer s in target layer t is the pressure thickness of s & t
divided by the thickness of t covered by the source column.
"""
import itertools
import numpy as np

PERIOD = 2 * np.pi


# -- cell centres ---------------------------------------------------------------------------------
def lon_centres(nlon, offset):
  return offset + PERIOD * np.arange(nlon) / nlon


def lat_centres(nlat, spacing):
  if spacing == 'gauss':
    x, _ = np.polynomial.legendre.leggauss(nlat)
    return np.arcsin(x)
  if spacing == 'equiangular':
    return -np.pi / 2 + (np.arange(nlat) + 0.5) * np.pi / nlat
  if spacing == 'equiangular_with_poles':
    return -np.pi / 2 + np.arange(nlat) * np.pi / (nlat - 1)
  raise ValueError(spacing)


# -- cell bounds ------------------------------------------------------------------------------------
def lat_bounds(c):
  c = np.asarray(c, dtype=np.float64)
  return np.concatenate([[-np.pi / 2], (c[1:] + c[:-1]) / 2, [np.pi / 2]])


def lon_bounds(c):
  """(lower, upper) of every cell: half way to the previous / next centre going round the circle."""
  c = np.asarray(c, dtype=np.float64)
  gap_next = np.mod(np.roll(c, -1) - c, PERIOD)
  gap_prev = np.mod(c - np.roll(c, 1), PERIOD)
  return c - gap_prev / 2, c + gap_next / 2


# -- overlaps -------------------------------------------------------------------------------------------
def _signed_interval_overlap(t_lo, t_hi, s_lo, s_hi):
  """min(upper) - max(lower) for every (target, source) pair; negative = gap between the intervals."""
  return np.minimum(t_hi[:, None], s_hi[None, :]) - np.maximum(t_lo[:, None], s_lo[None, :])


def lon_signed_overlap(src_c, tgt_c):
  """signed arc overlap on the circle: the largest signed overlap over all 2*pi images of the source arc.
  Each arc is shorter than half the circle, so at most one image overlaps."""
  s_lo, s_hi = lon_bounds(src_c)
  t_lo, t_hi = lon_bounds(tgt_c)
  best = None
  for k in range(-4, 5):
    ov = _signed_interval_overlap(t_lo, t_hi, s_lo + k * PERIOD, s_hi + k * PERIOD)
    best = ov if best is None else np.maximum(best, ov)
  return best


def lon_overlap(src_c, tgt_c):
  """arc length shared by target cell t and source cell s (sum over images; (target, source))."""
  s_lo, s_hi = lon_bounds(src_c)
  t_lo, t_hi = lon_bounds(tgt_c)
  tot = 0.0
  for k in range(-4, 5):
    tot = tot + np.maximum(_signed_interval_overlap(t_lo, t_hi, s_lo + k * PERIOD, s_hi + k * PERIOD), 0.0)
  return tot


def lat_signed_overlap(src_c, tgt_c):
  sb, tb = lat_bounds(src_c), lat_bounds(tgt_c)
  return _signed_interval_overlap(tb[:-1], tb[1:], sb[:-1], sb[1:])


def lat_overlap(src_c, tgt_c):
  """normalised area (difference of sin latitude) shared by target band t and source band s."""
  sb, tb = np.sin(lat_bounds(src_c)), np.sin(lat_bounds(tgt_c))
  return np.maximum(_signed_interval_overlap(tb[:-1], tb[1:], sb[:-1], sb[1:]), 0.0)


def normalise(ov):
  return ov / ov.sum(axis=1, keepdims=True)


def lon_widths(c):
  lo, hi = lon_bounds(c)
  return hi - lo


def lat_areas(c):
  b = np.sin(lat_bounds(c))
  return b[1:] - b[:-1]


class Horizontal:
  """Reference regridder between two tensor-product grids. Cells are flattened lon-major: index = i_lon*nlat + i_lat."""

  def __init__(self, src, tgt):
    """src, tgt = (nlon, nlat, spacing, offset)"""
    self.src, self.tgt = src, tgt
    self.slon, self.slat = lon_centres(src[0], src[3]), lat_centres(src[1], src[2])
    self.tlon, self.tlat = lon_centres(tgt[0], tgt[3]), lat_centres(tgt[1], tgt[2])
    self.wlon = normalise(lon_overlap(self.slon, self.tlon))        # (tlon, slon)
    self.wlat = normalise(lat_overlap(self.slat, self.tlat))        # (tlat, slat)
    self.W = np.kron(self.wlon, self.wlat)                          # (tlon*tlat, slon*slat)
    self.area_s = np.outer(lon_widths(self.slon), lat_areas(self.slat)).ravel()
    self.area_t = np.outer(lon_widths(self.tlon), lat_areas(self.tlat)).ravel()
    # geometric relation of every (target, source) cell pair, decided with a margin so that nothing depends
    # on which side of a rounding boundary a coincident cell edge falls
    margin = 1e-9
    so_lon = lon_signed_overlap(self.slon, self.tlon)
    so_lat = lat_signed_overlap(self.slat, self.tlat)
    clear_lon, clear_lat = so_lon > margin, so_lat > margin
    apart_lon, apart_lat = so_lon < -margin, so_lat < -margin
    self.overlapping = np.kron(clear_lon, clear_lat).astype(bool)   # certainly share area
    self.apart = np.logical_or(np.kron(apart_lon, np.ones_like(apart_lat)),
                               np.kron(np.ones_like(apart_lon), apart_lat)).astype(bool)  # certainly disjoint

  def apply(self, field):
    """field (..., slon, slat) without NaN -> (..., tlon, tlat)"""
    f = np.asarray(field, dtype=np.float64)
    flat = f.reshape(f.shape[:-2] + (-1,))
    out = flat @ self.W.T
    return out.reshape(f.shape[:-2] + (self.tgt[0], self.tgt[1]))

  def nan_semantics(self, field):
    """For a field with NaNs returns, per target cell (flattened):
       nan_weight   reference weight carried by the NaN source cells,
       valid_mean   weighted mean of the non-NaN source cells (NaN where they carry no weight),
       some_valid_overlaps   a non-NaN source cell certainly overlaps the target cell,
       all_valid_apart       every non-NaN source cell is certainly disjoint from the target cell,
       all_nan_apart         every NaN source cell is certainly disjoint from the target cell."""
    f = np.asarray(field, dtype=np.float64).ravel()
    isn = np.isnan(f)
    nan_weight = self.W[:, isn].sum(axis=1)
    wv = self.W[:, ~isn]
    den = wv.sum(axis=1)
    with np.errstate(invalid='ignore', divide='ignore'):
      valid_mean = (wv @ f[~isn]) / den
    return dict(nan_weight=nan_weight, valid_weight=den, valid_mean=valid_mean,
                some_valid_overlaps=self.overlapping[:, ~isn].any(axis=1),
                all_valid_apart=self.apart[:, ~isn].all(axis=1),
                all_nan_apart=self.apart[:, isn].all(axis=1))


# -- vertical -----------------------------------------------------------------------------------------------
SYNTHETIC_HYBRIDS = {
    # pure sigma, 5 equal layers (every boundary coincides with a tenths-lattice boundary)
    'sigma5': ([0.0, 0.0, 0.0, 0.0, 0.0, 0.0], [0.0, 0.2, 0.4, 0.6, 0.8, 1.0]),
    # pressure levels aloft, terrain following below (hPa); strictly increasing for 500..1080 hPa
    'mixed5': ([0.0, 20.0, 60.0, 100.0, 60.0, 0.0], [0.0, 0.0, 0.05, 0.3, 0.75, 1.0]),
    # model top at 60 hPa: the uppermost sigma layers are not (or only partly) covered by the source column
    'top60': ([60.0, 90.0, 120.0, 70.0, 0.0], [0.0, 0.0, 0.15, 0.6, 1.0]),
}


def hybrid_pressure_bounds(a, b, ps):
  return np.asarray(a, dtype=np.float64) + np.asarray(b, dtype=np.float64) * ps


class Vertical:
  def __init__(self, a, b, sigma_bounds, ps):
    self.src = hybrid_pressure_bounds(a, b, ps)                       # pressure bounds of source layers
    self.tgt = np.asarray(sigma_bounds, dtype=np.float64) * ps        # pressure bounds of target layers
    self.ps = float(ps)
    self.increasing = bool(np.all(np.diff(self.src) > 0))
    so = _signed_interval_overlap(self.tgt[:-1], self.tgt[1:], self.src[:-1], self.src[1:])
    self.overlap = np.maximum(so, 0.0)                                # (target, source), pressure thickness
    self.covered = self.overlap.sum(axis=1)                           # thickness of target layer t covered by the source
    margin = 1e-9 * self.ps
    self.row_covered = (so > margin).any(axis=1)                      # certainly covered by at least one source layer
    self.row_uncovered = (so < -margin).all(axis=1)                   # certainly not covered at all
    with np.errstate(invalid='ignore', divide='ignore'):
      self.W = self.overlap / self.covered[:, None]
    # thickness of every source layer inside the target column [0, ps]
    self.src_thickness_in_range = np.maximum(np.minimum(self.src[1:], self.tgt[-1]) - np.maximum(self.src[:-1], self.tgt[0]), 0.0)


def tenths_level_sets(max_layers=None):
  inner = [i / 10 for i in range(1, 10)]
  out = []
  for k in range(0, 10):
    if max_layers is not None and k + 1 > max_layers:
      break
    for sub in itertools.combinations(inner, k):
      out.append([0.0] + list(sub) + [1.0])
  return out


IRREGULAR = ([0.0, 0.07, 0.3, 0.45, 0.8, 1.0], [0.0, 0.1, 0.5, 1.0])
