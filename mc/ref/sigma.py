"""Reference model of the documented vertical (sigma) calculus. numpy float64 only; never imports dinosaur.

Layers are indexed from the top (sigma=0) to the surface (sigma=1); `b` are the K+1 boundaries.
"""
import itertools
import numpy as np


def valid_boundaries(seq) -> bool:
  """The documented admissibility rule: strictly increasing from 0 to 1."""
  seq = list(seq)
  if len(seq) < 2 or seq[0] != 0 or seq[-1] != 1:
    return False
  return all(b > a for a, b in zip(seq[:-1], seq[1:]))


def tenths_level_sets(max_layers=None):
  """All level sets whose internal boundaries are a subset of {.1,...,.9}, smallest first."""
  inner = [i / 10 for i in range(1, 10)]
  out = []
  for k in range(0, 10):
    if max_layers is not None and k + 1 > max_layers:
      break
    for sub in itertools.combinations(inner, k):
      out.append([0.0] + list(sub) + [1.0])
  return out


IRREGULAR = ([0.0, 0.07, 0.3, 0.45, 0.8, 1.0], [0.0, 0.1, 0.5, 1.0])


class Sigma:
  def __init__(self, b):
    self.b = np.asarray(b, dtype=np.float64)
    self.K = len(self.b) - 1
    self.ds = self.b[1:] - self.b[:-1]
    self.c = (self.b[1:] + self.b[:-1]) / 2
    self.dc = self.c[1:] - self.c[:-1]

  # midpoint rule in sigma ----------------------------------------------------------------
  def cumulative_integral(self, x, axis, downward=True):
    """integral from the top to each layer's lower boundary (downward) or from the surface up to each
    layer's upper boundary (upward); x located at layer centres."""
    x = np.moveaxis(np.asarray(x, dtype=np.float64), axis, 0)
    xd = x * self.ds.reshape((-1,) + (1,) * (x.ndim - 1))
    out = np.zeros_like(xd)
    for k in range(self.K):
      if downward:
        out[k] = xd[:k + 1].sum(axis=0)
      else:
        out[k] = xd[k:].sum(axis=0)
    return np.moveaxis(out, 0, axis)

  def integral(self, x, axis, keepdims=True):
    x = np.moveaxis(np.asarray(x, dtype=np.float64), axis, 0)
    xd = x * self.ds.reshape((-1,) + (1,) * (x.ndim - 1))
    out = xd.sum(axis=0, keepdims=True)
    out = np.moveaxis(out, 0, axis)
    return out if keepdims else np.squeeze(out, axis=axis)

  # trapezoid rule in log(sigma) -----------------------------------------------------------
  def log_integrand_pieces(self, x, axis):
    """piece[j] = trapezoid of x over [ln c_j, ln c_{j+1}] for j < K-1, and x_{K-1} * (0 - ln c_{K-1}) for
    the last piece (constant between the lowest centre and the surface)."""
    x = np.moveaxis(np.asarray(x, dtype=np.float64), axis, 0)
    lc = np.log(self.c)
    pieces = np.zeros_like(x)
    for j in range(self.K - 1):
      pieces[j] = 0.5 * (x[j] + x[j + 1]) * (lc[j + 1] - lc[j])
    pieces[self.K - 1] = x[self.K - 1] * (0.0 - lc[self.K - 1])
    return pieces

  def cumulative_log_integral(self, x, axis, downward=True):
    pieces = self.log_integrand_pieces(x, axis)
    out = np.zeros_like(pieces)
    for k in range(self.K):
      out[k] = pieces[:k + 1].sum(axis=0) if downward else pieces[k:].sum(axis=0)
    return np.moveaxis(out, 0, axis)

  def geopotential_diff(self, T, R):
    """Phi_k - Phi_surface = R * int_{ln c_k}^{0} T d(ln sigma), trapezoid between centres, constant below
    the lowest centre. T has layers on axis 0."""
    return R * self.cumulative_log_integral(T, 0, downward=False)

  # finite differences ---------------------------------------------------------------------
  def centered_difference(self, x, axis):
    x = np.moveaxis(np.asarray(x, dtype=np.float64), axis, 0)
    out = (x[1:] - x[:-1]) / self.dc.reshape((-1,) + (1,) * (x.ndim - 1))
    return np.moveaxis(out, 0, axis)

  def centered_advection(self, w, x, axis):
    """-(w dx/dsigma) at centres: average of the two adjacent interface products, zero flux at the
    top and bottom boundaries. w lives on the K-1 internal boundaries."""
    w = np.moveaxis(np.asarray(w, dtype=np.float64), axis, 0)
    x = np.moveaxis(np.asarray(x, dtype=np.float64), axis, 0)
    w, x = np.broadcast_arrays(w, x) if w.shape[1:] != x.shape[1:] and False else (w, x)
    dx = (x[1:] - x[:-1]) / self.dc.reshape((-1,) + (1,) * (x.ndim - 1))
    flux = w * dx
    z = np.zeros((1,) + flux.shape[1:])
    f = np.concatenate([z, flux, z], axis=0)
    out = -0.5 * (f[1:] + f[:-1])
    return np.moveaxis(out, 0, axis)

  # Durran 8.6.5 matrices ------------------------------------------------------------------------
  def alpha(self):
    lc = np.log(self.c)
    a = np.zeros(self.K)
    a[:-1] = (lc[1:] - lc[:-1]) / 2
    a[-1] = -lc[-1]
    return a

  def G(self, R):
    """geopotential matrix: Phi = G T (Durran 8.6.5), upper triangular."""
    a = self.alpha()
    g = np.zeros((self.K, self.K))
    for j in range(self.K):
      g[j, j] = a[j]
      for k in range(j + 1, self.K):
        g[j, k] = a[k] + a[k - 1]
    return R * g

  def H(self, Tref, kappa):
    """temperature-implicit matrix, written from the continuous terms it discretises:

      dT'/dt |_implicit = -H D,  H D = -( kappa*Tref*(omega/p)_D  -  sigma_dot_D dTref/dsigma )

    with, for a divergence column D, (omega/p)_k = -(alpha_k C_k + alpha_{k-1} C_{k-1}) / ds_k,
    C_k = sum_{j<=k} D_j ds_j, sigma_dot_{k+1/2} = sigma_{k+1/2} C_K - C_k and the averaged centred
    advection of Tref. Built column by column from those formulas (not from the closed-form matrix)."""
    Tref = np.asarray(Tref, dtype=np.float64)
    K = self.K
    a = self.alpha()
    h = np.zeros((K, K))
    for s in range(K):
      D = np.zeros(K); D[s] = 1.0
      C = np.cumsum(D * self.ds)
      Cm = np.concatenate([[0.0], C[:-1]])
      am = np.concatenate([[0.0], a[:-1]])
      omega_over_p = -(a * C + am * Cm) / self.ds
      sig_half = np.cumsum(self.ds)[:-1]
      sdot = sig_half * C[-1] - C[:-1]
      adv = self.centered_advection(sdot, Tref, 0)          # -sigma_dot dTref/dsigma
      tend = kappa * Tref * omega_over_p + adv             # dT/dt due to D
      h[:, s] = -tend
    return h
