"""Reference model for C06: rooted bi-coloured trees, B-series order conditions, textbook tableaux,
closed-form stability functions.  numpy / fractions only; never imports dinosaur or jax.

Trusted base (B-series theory, Hairer-Norsett-Wanner II.2 / II.15, Ascher-Ruuth-Spiteri 1997): a one-step
method of (additive) Runge-Kutta type applied to  y' = F(y) + G y  has order p for every smooth F and every
linear G  iff  its elementary weight Phi(tau) equals 1/gamma(tau) for every rooted tree tau with <= p nodes
whose nodes are coloured F or G, where a G node has at most one child (G'' = 0).

For a coloured tree tau with n nodes the *tree ODE* has one component per node plus one constant component c:

    y_i' = prod_{children j of i} y_j       (empty product -> c),      c' = 0,      y(0) = 0, c = a.

F nodes put their right-hand side into F (polynomial), G nodes into the matrix G (they have <= 1 child, so the
right-hand side is linear; G is strictly upper triangular, hence nilpotent, hence (1 - eta G)^-1 is exact).
Exact solution:  y_i(t) = a^leaves(tau_i) t^|tau_i| / gamma(tau_i).   Every elementary differential other
than the one of tau itself vanishes in the root component at y = 0, so one step of size h of a B-series method
returns exactly  a^leaves(tau) h^n Phi(tau)  in the root component.
"""
from __future__ import annotations

import itertools
import math
from fractions import Fraction as Fr

import numpy as np

# ---------------------------------------------------------------------------------------------
# rooted trees and colourings
# ---------------------------------------------------------------------------------------------


def _partitions(k, maxp):
  if k == 0:
    yield []
    return
  for p in range(min(k, maxp), 0, -1):
    for rest in _partitions(k - p, p):
      yield [p] + rest


def rooted_trees(n):
  """All rooted (unlabelled, unordered) trees with n nodes as canonical nested tuples of children."""
  if n == 1:
    return [()]
  out = set()
  for ps in _partitions(n - 1, n - 1):
    for combo in itertools.product(*[rooted_trees(p) for p in ps]):
      out.add(tuple(sorted(combo)))
  return sorted(out)


N_ROOTED = {1: 1, 2: 1, 3: 2, 4: 4, 5: 9, 6: 20, 7: 48}  # OEIS A000081, used as a self-check


def colourings(t, colours=('F', 'G')):
  """All colourings (colour, children) of the tree t; a 'G' node has at most one child."""
  kids = [colourings(c, colours) for c in t]
  res = set()
  for combo in itertools.product(*kids):
    ch = tuple(sorted(combo))
    if 'F' in colours:
      res.add(('F', ch))
    if 'G' in colours and len(ch) <= 1:
      res.add(('G', ch))
  return sorted(res)


def coloured_trees(n):
  out = []
  for t in rooted_trees(n):
    out += colourings(t)
  return out


N_COLOURED = {1: 2, 2: 4, 3: 11, 4: 34}  # measured in the design phase; self-check


def size(ct):
  return 1 + sum(size(c) for c in ct[1])


def gamma(ct):
  """Density gamma(tau) = |tau| * prod gamma(children)."""
  return size(ct) * math.prod(gamma(c) for c in ct[1])


def leaves(ct):
  return 1 if not ct[1] else sum(leaves(c) for c in ct[1])


def is_chain(ct):
  return len(ct[1]) <= 1 and all(is_chain(c) for c in ct[1])


def colours_of(ct):
  s = {ct[0]}
  for c in ct[1]:
    s |= colours_of(c)
  return s


def show(ct):
  return ct[0] if not ct[1] else ct[0] + '(' + ','.join(show(c) for c in ct[1]) + ')'


def chain(colour, n):
  ct = (colour, ())
  for _ in range(n - 1):
    ct = (colour, (ct,))
  return ct


def flatten(ct):
  """Depth-first numbering, root = 0; returns [(colour, [child indices], subtree)]; children have larger indices."""
  nodes = []

  def rec(t):
    i = len(nodes)
    nodes.append(None)
    ch = [rec(c) for c in t[1]]
    nodes[i] = (t[0], ch, t)
    return i

  rec(ct)
  return nodes


class TreeODE:
  """Specification of the tree ODE of a coloured tree (pure data; the property module turns it into callables)."""

  def __init__(self, ct, amp=1.0):
    self.tree = ct
    self.amp = float(amp)
    self.nodes = flatten(ct)
    self.n = len(self.nodes)
    n, C = self.n, self.n
    self.G = np.zeros((n + 1, n + 1))
    self.f_nodes = []  # (i, [indices whose product is the rhs]) for F nodes; empty product -> component C
    for i, (col, ch, _) in enumerate(self.nodes):
      if col == 'G':
        self.G[i, ch[0] if ch else C] = 1.0
      else:
        self.f_nodes.append((i, list(ch) if ch else [C]))
    self.u0 = np.zeros(n + 1)
    self.u0[C] = self.amp

  def exact(self, t):
    """Exact solution at time t from y(0)=0, c=amp."""
    u = np.empty(self.n + 1)
    for i, (_, _, sub) in enumerate(self.nodes):
      u[i] = self.amp ** leaves(sub) * t ** size(sub) / gamma(sub)
    u[self.n] = self.amp
    return u

  def root_scale(self, h):
    """a^leaves h^n: the factor multiplying Phi(tau) in the root component after one step."""
    return self.amp ** leaves(self.tree) * h ** self.n

  # numpy evaluation of the right-hand sides (used only by the reference's own self test)
  def F(self, u):
    out = np.zeros(self.n + 1)
    for i, idx in self.f_nodes:
      out[i] = np.prod([u[j] for j in idx])
    return out


# ---------------------------------------------------------------------------------------------
# elementary weights of (additive) Runge-Kutta tableaux
# ---------------------------------------------------------------------------------------------


def elementary_weight(ct, tableaux):
  """Phi(tau) for an additive RK method.  tableaux: {colour: (A, b)} with A (s,s), b (s,), numpy float64.

  g_j(tau) = prod_k (A^{colour(tau_k)} g(tau_k))_j ,  Phi(tau) = b^{colour(tau)} . g(tau).
  """
  s = len(next(iter(tableaux.values()))[1])

  def g(t):
    v = np.ones(s)
    for c in t[1]:
      v = v * (tableaux[c[0]][0] @ g(c))
    return v

  return float(tableaux[ct[0]][1] @ g(ct))


def low_storage_to_butcher(betas, gammas):
  """Butcher tableau (A, b) of the 2N-storage scheme  h_k = F(u_{k-1}) + beta_k h_{k-1},  u_k = u_{k-1} + gamma_k dt h_k.

  h_k = sum_j w_kj F_j with w_kk = 1, w_kj = beta_k w_{k-1,j};  u_k = u_0 + dt sum_j (sum_{m=j..k} gamma_m w_mj) F_j.
  """
  s = len(betas)
  w = [[Fr(0)] * s for _ in range(s)]
  for k in range(s):
    w[k][k] = Fr(1)
    for j in range(k):
      w[k][j] = Fr(betas[k]) * w[k - 1][j]
  U = [[sum(Fr(gammas[m]) * w[m][j] for m in range(j, k + 1)) for j in range(s)] for k in range(s)]
  A = np.zeros((s, s))
  for k in range(1, s):
    for j in range(k):
      A[k, j] = float(U[k - 1][j])
  b = np.array([float(U[s - 1][j]) for j in range(s)])
  return A, b


def imex_lists_to_square(a_ex, a_im, b_ex, b_im):
  """The library's list-of-rows convention (row i-1 = stage i, first stage explicit) -> square matrices."""
  s = len(b_ex)
  Ae = np.zeros((s, s))
  Ai = np.zeros((s, s))
  for i in range(1, s):
    for j in range(i):
      Ae[i, j] = float(a_ex[i - 1][j])
    for j in range(i + 1):
      Ai[i, j] = float(a_im[i - 1][j])
  return {'F': (Ae, np.array([float(x) for x in b_ex])), 'G': (Ai, np.array([float(x) for x in b_im]))}


# ---------------------------------------------------------------------------------------------
# textbook coefficient sets (transcribed from the cited papers, NOT from dinosaur)
# ---------------------------------------------------------------------------------------------

# Williamson (1980) third-order 2N-storage scheme, as in Canuto et al. (2007) App. D.3
WILLIAMSON_RK3 = dict(alphas=[Fr(0), Fr(1, 3), Fr(3, 4), Fr(1)],
                      betas=[Fr(0), Fr(-5, 9), Fr(-153, 128)],
                      gammas=[Fr(1, 3), Fr(15, 16), Fr(8, 15)])
# its Butcher form (Williamson 1980): c = (0, 1/3, 3/4)
WILLIAMSON_RK3_BUTCHER = (np.array([[0, 0, 0], [1 / 3, 0, 0], [-3 / 16, 15 / 16, 0]]), np.array([1 / 6, 3 / 10, 8 / 15]))

# Carpenter & Kennedy (1994) fourth-order five-stage 2N-storage scheme, rational form
CARPENTER_KENNEDY_RK4 = dict(
    alphas=[Fr(0), Fr(1432997174477, 9575080441755), Fr(2526269341429, 6820363962896),
            Fr(2006345519317, 3224310063776), Fr(2802321613138, 2924317926251), Fr(1)],
    betas=[Fr(0), -Fr(567301805773, 1357537059087), -Fr(2404267990393, 2016746695238),
           -Fr(3550918686646, 2091501179385), -Fr(1275806237668, 842570457699)],
    gammas=[Fr(1432997174477, 9575080441755), Fr(5161836677717, 13612068292357), Fr(1720146321549, 2090206949498),
            Fr(3134564353537, 4481467310338), Fr(2277821191437, 14882151754819)])
# The scheme is published (and shipped) as 13-digit decimals; its order conditions and its agreement with the
# rational form hold to that precision only.
TABULATED_DIGITS_EPS = 1e-12

HEUN_BUTCHER = (np.array([[0.0, 0.0], [1.0, 0.0]]), np.array([0.5, 0.5]))
FORWARD_EULER_BUTCHER = (np.zeros((1, 1)), np.array([1.0]))

# Whitaker & Kar (2013) SIL3, eq. (A1)-(A2) style: explicit 4-stage, implicit trapezoidal-like DIRK
SIL3 = dict(a_ex=[[Fr(1, 3)], [Fr(1, 6), Fr(1, 2)], [Fr(1, 2), Fr(-1, 2), Fr(1)]],
            a_im=[[Fr(1, 6), Fr(1, 6)], [Fr(1, 3), Fr(0), Fr(1, 3)], [Fr(3, 8), Fr(0), Fr(3, 8), Fr(1, 4)]],
            b_ex=[Fr(1, 2), Fr(-1, 2), Fr(1), Fr(0)],
            b_im=[Fr(3, 8), Fr(0), Fr(3, 8), Fr(1, 4)])

_g222 = (2.0 - math.sqrt(2.0)) / 2.0
_d222 = 1.0 - 1.0 / (2.0 * _g222)
_g233 = (3.0 + math.sqrt(3.0)) / 6.0

# Ascher, Ruuth & Spiteri (1997) IMEX Runge-Kutta schemes, in the library's list-of-rows convention.
TEXTBOOK_IMEX = {
    # forward-backward Euler (1,1,1), order 1
    'ars111': dict(order=1, a_ex=[[1.0]], a_im=[[0.0, 1.0]], b_ex=[1.0, 0.0], b_im=[0.0, 1.0]),
    # implicit-explicit midpoint (1,2,2), order 2
    'ars122': dict(order=2, a_ex=[[0.5]], a_im=[[0.0, 0.5]], b_ex=[0.0, 1.0], b_im=[0.0, 1.0]),
    # L-stable two-stage DIRK (2,2,2), order 2
    'ars222': dict(order=2, a_ex=[[_g222], [_d222, 1.0 - _d222]], a_im=[[0.0, _g222], [0.0, 1.0 - _g222, _g222]],
                   b_ex=[_d222, 1.0 - _d222, 0.0], b_im=[0.0, 1.0 - _g222, _g222]),
    # two-stage third-order DIRK (2,3,3), order 3
    'ars233': dict(order=3, a_ex=[[_g233], [_g233 - 1.0, 2.0 * (1.0 - _g233)]],
                   a_im=[[0.0, _g233], [0.0, 1.0 - 2.0 * _g233, _g233]],
                   b_ex=[0.0, 0.5, 0.5], b_im=[0.0, 0.5, 0.5]),
}


def floats(xs):
  return [[float(v) for v in x] if isinstance(x, (list, tuple)) else float(x) for x in xs]


# ---------------------------------------------------------------------------------------------
# stability functions of the implicit parts (closed forms)
# ---------------------------------------------------------------------------------------------


def series_mul(a, b, N):
  out = [Fr(0)] * (N + 1)
  for i, x in enumerate(a):
    for j, y in enumerate(b):
      if i + j <= N:
        out[i + j] += x * y
  return out


def cn_product_series(mus, N):
  """Taylor coefficients r_0..r_N of prod_k (1 + mu_k z)/(1 - mu_k z) (exact rational arithmetic)."""
  r = [Fr(1)] + [Fr(0)] * N
  for mu in mus:
    mu = Fr(mu)
    geo = [mu ** k for k in range(N + 1)]            # 1/(1 - mu z)
    r = series_mul(series_mul(r, [Fr(1), mu], N), geo, N)
  return [float(x) for x in r]


def cn_mus(alphas):
  """Crank-Nicolson sub-step weights of the low-storage schemes: half the increments of alpha."""
  return [(Fr(alphas[k + 1]) - Fr(alphas[k])) / 2 for k in range(len(alphas) - 1)]


def cn_product_eval(mus, z):
  r = 1.0 + 0.0j
  for mu in mus:
    m = float(mu)
    r = r * (1.0 + m * z) / (1.0 - m * z)
  return r


def backward_euler_series(N):
  return [1.0] * (N + 1)                            # 1/(1-z)


def rk_series(A, b, N):
  """Taylor coefficients of R(z) = 1 + z b^T (I - zA)^-1 1:  r_k = b^T A^(k-1) 1."""
  r = [1.0]
  v = np.ones(len(b))
  for _ in range(N):
    r.append(float(b @ v))
    v = A @ v
  return r


def rk_stability_eval(A, b, z):
  """R(z) of a diagonally implicit tableau on y' = lambda y, stage by stage in complex scalar arithmetic."""
  s = len(b)
  Y = np.zeros(s, dtype=complex)
  for i in range(s):
    Y[i] = (1.0 + z * sum(A[i, j] * Y[j] for j in range(i))) / (1.0 - z * A[i, i])
  return 1.0 + z * sum(b[j] * Y[j] for j in range(s))


def leapfrog_explicit_root(ode: TreeODE, h):
  """Explicit leapfrog u(+h) = u(-h) + 2h F(u(0)) on an all-F tree ODE started from the exact values: root component."""
  prev = ode.exact(-h)
  return prev[0] + 2.0 * h * ode.F(ode.u0)[0]


def leapfrog_implicit_root(n, amp, h):
  """Centred implicit leapfrog = Crank-Nicolson over 2h: u(+h) = R(2hG) u(-h), R(w) = (1+w/2)/(1-w/2), on the all-G chain
  with n nodes started from the exact values a (-h)^m / m! : root component in closed form."""
  r = cn_product_series([Fr(1, 2)], n)              # coefficients of R(w)
  return amp * sum(r[j] * (2.0 * h) ** j * (-h) ** (n - j) / math.factorial(n - j) for j in range(n + 1))


# ---------------------------------------------------------------------------------------------
# design orders stated by the property (C06) and the tree sets they select
# ---------------------------------------------------------------------------------------------

# general: every smooth F, linear G;  g0: G = 0;  g0_linear: G = 0 and linear F (chain trees)
DESIGN_ORDER = {
    'backward_forward_euler': dict(general=1, g0=1, g0_linear=1),
    'crank_nicolson_rk2': dict(general=2, g0=2, g0_linear=2),
    'crank_nicolson_rk3': dict(general=2, g0=3, g0_linear=3),
    'crank_nicolson_rk4': dict(general=2, g0=4, g0_linear=4),
    'imex_rk_sil3': dict(general=2, g0=2, g0_linear=3),
    'semi_implicit_leapfrog': dict(general=2, g0=2, g0_linear=2),
}
for _k, _v in TEXTBOOK_IMEX.items():
  DESIGN_ORDER['imex_runge_kutta:' + _k] = dict(general=_v['order'], g0=_v['order'], g0_linear=_v['order'])


def asserted(method, ct):
  """Is Phi(tau) = 1/gamma(tau) part of the stated design order of `method`?  Returns the name of the set or None."""
  d = DESIGN_ORDER[method]
  n = size(ct)
  if n <= d['general']:
    return 'general'
  if colours_of(ct) == {'F'}:
    if n <= d['g0']:
      return 'G=0'
    if is_chain(ct) and n <= d['g0_linear']:
      return 'G=0,linear F'
  return None


def explicit_tableau(method):
  """Butcher tableau of the underlying explicit method (what the scheme must reduce to when G = 0)."""
  if method == 'backward_forward_euler':
    return FORWARD_EULER_BUTCHER
  if method == 'crank_nicolson_rk2':
    return HEUN_BUTCHER
  if method == 'crank_nicolson_rk3':
    return low_storage_to_butcher(WILLIAMSON_RK3['betas'], WILLIAMSON_RK3['gammas'])
  if method == 'crank_nicolson_rk4':
    return low_storage_to_butcher(CARPENTER_KENNEDY_RK4['betas'], CARPENTER_KENNEDY_RK4['gammas'])
  if method == 'imex_rk_sil3':
    return imex_lists_to_square(**SIL3)['F']
  if method.startswith('imex_runge_kutta:'):
    t = TEXTBOOK_IMEX[method.split(':')[1]]
    return imex_lists_to_square(t['a_ex'], t['a_im'], t['b_ex'], t['b_im'])['F']
  raise KeyError(method)


def implicit_series(method, N):
  """Taylor coefficients of the stability function of the underlying implicit method (F = 0)."""
  if method == 'backward_forward_euler':
    return backward_euler_series(N)
  if method == 'crank_nicolson_rk2':
    return cn_product_series([Fr(1, 2)], N)
  if method == 'crank_nicolson_rk3':
    return cn_product_series(cn_mus(WILLIAMSON_RK3['alphas']), N)
  if method == 'crank_nicolson_rk4':
    return cn_product_series(cn_mus(CARPENTER_KENNEDY_RK4['alphas']), N)
  if method == 'imex_rk_sil3':
    A, b = imex_lists_to_square(**SIL3)['G']
    return rk_series(A, b, N)
  if method.startswith('imex_runge_kutta:'):
    t = TEXTBOOK_IMEX[method.split(':')[1]]
    A, b = imex_lists_to_square(t['a_ex'], t['a_im'], t['b_ex'], t['b_im'])['G']
    return rk_series(A, b, N)
  raise KeyError(method)


def implicit_stability(method, z):
  """R(z) of the underlying implicit method at a complex z = h*lambda, and the operand magnitude of its last
  linear combination relative to the result (1 for resolvent-type updates, 1+|z| for tableau-type updates
  y0 + dt*sum b_j G Y_j)."""
  if method == 'backward_forward_euler':
    return 1.0 / (1.0 - z), 1.0
  if method == 'crank_nicolson_rk2':
    return cn_product_eval([0.5], z), 1.0
  if method == 'crank_nicolson_rk3':
    return cn_product_eval(cn_mus(WILLIAMSON_RK3['alphas']), z), 1.0
  if method == 'crank_nicolson_rk4':
    return cn_product_eval(cn_mus(CARPENTER_KENNEDY_RK4['alphas']), z), 1.0
  if method == 'imex_rk_sil3':
    A, b = imex_lists_to_square(**SIL3)['G']
    return rk_stability_eval(A, b, z), 1.0 + abs(z)
  raise KeyError(method)


def leapfrog_companion_radius(z):
  """Spectral radius of the two-level map of the centred implicit leapfrog on u' = lambda u: mu^2 = R_CN(2z)."""
  return math.sqrt(abs((1.0 + z) / (1.0 - z)))


# ---------------------------------------------------------------------------------------------
# coefficient-length rules
# ---------------------------------------------------------------------------------------------


def low_storage_lengths_consistent(la, lb, lg):
  """alphas are the sub-step times 0 = a_0 < ... < a_s = 1 (s+1 values) for s stages with s betas and s gammas."""
  return la - 1 == lb == lg


def imex_lengths_consistent(l_a_ex, l_a_im, l_b_ex, l_b_im):
  """s stages: s weights b_ex, b_im and s-1 rows a_ex, a_im (the first stage is the initial value)."""
  return l_b_ex == l_b_im and l_a_ex == l_a_im == l_b_ex - 1 and l_b_ex >= 1


def stiff_lattice(tier):
  """(|z|, arg in degrees) points: closed left half-plane, conjugates included."""
  if tier == 'thorough':
    exps = [k / 4 for k in range(-12, 25)]
    degs = [90, 90.1, 91, 92, 95, 100, 105, 120, 135, 150, 170, 175, 179, 180]
  else:
    exps = [k / 2 for k in range(-6, 13)]
    degs = [90, 91, 95, 105, 135, 170, 180]
  angles = []
  for d in degs:
    angles.append(float(d))
    if d != 180:
      angles.append(-float(d))
  return exps, angles


def self_test():
  for n, k in N_ROOTED.items():
    if n <= 6:
      assert len(rooted_trees(n)) == k, (n, len(rooted_trees(n)))
  for n, k in N_COLOURED.items():
    assert len(coloured_trees(n)) == k, (n, len(coloured_trees(n)))
  A, b = low_storage_to_butcher(WILLIAMSON_RK3['betas'], WILLIAMSON_RK3['gammas'])
  assert np.allclose(A, WILLIAMSON_RK3_BUTCHER[0], atol=1e-15) and np.allclose(b, WILLIAMSON_RK3_BUTCHER[1], atol=1e-15)
  # the stated design orders hold for the reference tableaux themselves (so a mismatch is the implementation's)
  for name, order in (('crank_nicolson_rk2', 2), ('crank_nicolson_rk3', 3), ('crank_nicolson_rk4', 4)):
    Ab = explicit_tableau(name)
    for n in range(1, order + 1):
      for t in rooted_trees(n):
        ct = colourings(t, ('F',))[0]
        assert abs(elementary_weight(ct, {'F': Ab}) - 1 / gamma(ct)) < 1e-14, (name, show(ct))
  for name, t in list(TEXTBOOK_IMEX.items()) + [('sil3', dict(order=2, **SIL3))]:
    tabs = imex_lists_to_square(t['a_ex'], t['a_im'], t['b_ex'], t['b_im'])
    for n in range(1, t['order'] + 1):
      for ct in coloured_trees(n):
        assert abs(elementary_weight(ct, tabs) - 1 / gamma(ct)) < 1e-14, (name, show(ct))
  tabs = imex_lists_to_square(**SIL3)
  for n in (1, 2, 3):
    ct = chain('F', n)
    assert abs(elementary_weight(ct, tabs) - 1 / gamma(ct)) < 1e-14
  return True


if __name__ == '__main__':
  print(self_test())
