"""Reference model of the Held-Suarez (1994) forcing coefficients. numpy float64 only; never imports dinosaur.

  k_v(sigma)      = k_f * max(0, (sigma - sigma_b) / (1 - sigma_b))
  k_T(lat, sigma) = k_a + (k_s - k_a) * max(0, (sigma - sigma_b) / (1 - sigma_b)) * cos^4(lat)
  T_eq(lat, p)    = max(minT, [maxT - dTy sin^2(lat) - dThz ln(p/p0) cos^2(lat)] (p/p0)^kappa),   p = sigma * p_s
  dv/dt = -k_v v   (hence d(zeta, delta)/dt = -k_v (zeta, delta));  dT/dt = -k_T (T - T_eq);  d ln p_s/dt = 0.

All quantities are in whatever consistent unit system the caller uses (rates in 1/time, temperatures, pressures).
"""
import numpy as np


def boundary_layer_profile(sigma, sigma_b):
  sigma = np.asarray(sigma, dtype=np.float64)
  out = np.zeros_like(sigma)
  inside = sigma > sigma_b
  out[inside] = (sigma[inside] - sigma_b) / (1.0 - sigma_b)
  return out


def kv(sigma, sigma_b, kf):
  """(K,)"""
  return kf * boundary_layer_profile(sigma, sigma_b)


def kt(sigma, sin_lat, sigma_b, ka, ks):
  """(K, nlat)"""
  mu = np.asarray(sin_lat, dtype=np.float64)
  c2 = (1.0 - mu) * (1.0 + mu)
  return ka + (ks - ka) * boundary_layer_profile(sigma, sigma_b)[:, None] * (c2 * c2)[None, :]


def teq(sigma, sin_lat, surface_pressure, p0, kappa, minT, maxT, dTy, dThz):
  """surface_pressure (..., nlon, nlat) -> (..., K, nlon, nlat)"""
  sigma = np.asarray(sigma, dtype=np.float64)
  mu = np.asarray(sin_lat, dtype=np.float64)
  ps = np.asarray(surface_pressure, dtype=np.float64)
  s2 = mu * mu
  c2 = (1.0 - mu) * (1.0 + mu)
  lnr = np.log(sigma)[:, None, None] + np.log(ps / p0)[..., None, :, :]      # ln(p / p0)
  bracket = maxT - dTy * s2 - dThz * lnr * c2
  t = bracket * np.exp(kappa * lnr)
  return np.where(t < minT, minT, t)


def levels_clearly_above(sigma, sigma_b, band=1e-9):
  """mask of levels strictly above the boundary layer top by more than `band` (no friction there, exactly)."""
  return np.asarray(sigma, dtype=np.float64) <= sigma_b - band


def levels_near_top(sigma, sigma_b, band=1e-9):
  return np.abs(np.asarray(sigma, dtype=np.float64) - sigma_b) < band
