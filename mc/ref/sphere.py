"""Reference spherical harmonics. numpy/scipy float64 only; never imports dinosaur.

Real orthonormal harmonics on the unit sphere

  Y_{0,l}      = Pbar_l^0(mu) / sqrt(2 pi)
  Y_{m,l,cos}  = Pbar_l^m(mu) cos(m lam) / sqrt(pi)
  Y_{m,l,sin}  = Pbar_l^m(mu) sin(m lam) / sqrt(pi)

with Pbar the associated Legendre functions of unit L2([-1,1]) norm including the Condon-Shortley
phase, from scipy.special.assoc_legendre_p_all(norm=True).  Coefficient arrays use the "Real" layout
(rows 0 | 2m-1 (cos) | 2m (sin), columns l); `real_to_fast` / `fast_to_real` are the fixed re-indexing
to the padded "Fast" layout (rows 0 | 1 = structural zero | 2m (cos) | 2m+1 (sin)).
"""
import numpy as np
import scipy.special as sps


def real_index(m, kind):
  if m == 0:
    return 0
  return 2 * m - 1 if kind == 'c' else 2 * m


def fast_index(m, kind):
  if m == 0:
    return 0
  return 2 * m if kind == 'c' else 2 * m + 1


def modes(M, L):
  """All basis functions (m, l, kind) of the triangular truncation m < M, m <= l < L."""
  out = []
  for m in range(M):
    for kind in (('c',) if m == 0 else ('c', 's')):
      for l in range(m, L):
        out.append((m, l, kind))
  return out


def real_to_fast(x, fast_shape):
  """x: (..., 2M-1, L) -> (..., *fast_shape) with zero row 1 and zero padding."""
  x = np.asarray(x)
  rows, L = x.shape[-2:]
  out = np.zeros(x.shape[:-2] + tuple(fast_shape), dtype=x.dtype)
  out[..., 0, :L] = x[..., 0, :]
  out[..., 2:rows + 1, :L] = x[..., 1:, :]
  return out


def fast_to_real(x, M, L):
  """Crops to the resolved block and drops the structural-zero row 1."""
  x = np.asarray(x)
  out = np.zeros(x.shape[:-2] + (2 * M - 1, L), dtype=x.dtype)
  out[..., 0, :] = x[..., 0, :L]
  out[..., 1:, :] = x[..., 2:2 * M, :L]
  return out


def real_mask(M, L):
  mask = np.zeros((2 * M - 1, L), dtype=bool)
  for m, l, kind in modes(M, L):
    mask[real_index(m, kind), l] = True
  return mask


def legendre(L, M, mu):
  """Pbar[l, m, j] and dPbar/dmu[l, m, j] for l < L, m < M at the points mu."""
  mu = np.asarray(mu, dtype=np.float64)
  out = sps.assoc_legendre_p_all(L - 1, M - 1, mu, norm=True, diff_n=1)
  # shape (2, L, 2(M-1)+1, n): orders 0..M-1 first, negative orders at the end
  return out[0][:, :M, :], out[1][:, :M, :]


class Basis:
  """Y, dY/dlam and (1-mu^2) dY/dmu of every mode on the tensor grid lam x mu, Real layout.

  Y[i, l, x, y] with i the Real-layout row. Entries outside the triangle are zero."""

  def __init__(self, M, L, lam, mu, derivatives=True):
    self.M, self.L = M, L
    self.lam = np.asarray(lam, dtype=np.float64)
    self.mu = np.asarray(mu, dtype=np.float64)
    P, dP = legendre(L, M, np.clip(self.mu, -1.0, 1.0))
    nx, ny = len(self.lam), len(self.mu)
    self.Y = np.zeros((2 * M - 1, L, nx, ny))
    if derivatives:
      self.Yl = np.zeros_like(self.Y)
      self.Ym = np.zeros_like(self.Y)
    one_minus_mu2 = 1.0 - self.mu ** 2
    for m in range(M):
      for kind in (('c',) if m == 0 else ('c', 's')):
        i = real_index(m, kind)
        if m == 0:
          c = 1 / np.sqrt(2 * np.pi); tr = np.ones(nx); dtr = np.zeros(nx)
        elif kind == 'c':
          c = 1 / np.sqrt(np.pi); tr = np.cos(m * self.lam); dtr = -m * np.sin(m * self.lam)
        else:
          c = 1 / np.sqrt(np.pi); tr = np.sin(m * self.lam); dtr = m * np.cos(m * self.lam)
        for l in range(m, L):
          self.Y[i, l] = c * tr[:, None] * P[l, m][None, :]
          if derivatives:
            self.Yl[i, l] = c * dtr[:, None] * P[l, m][None, :]
            self.Ym[i, l] = c * tr[:, None] * (one_minus_mu2 * dP[l, m])[None, :]

  def synth(self, coef):
    """coef (..., 2M-1, L) -> field (..., nx, ny)"""
    return np.einsum('...il,ilxy->...xy', coef, self.Y)

  def synth_grad(self, coef):
    """returns f, df/dlam, (1-mu^2) df/dmu"""
    return (np.einsum('...il,ilxy->...xy', coef, self.Y), np.einsum('...il,ilxy->...xy', coef, self.Yl),
            np.einsum('...il,ilxy->...xy', coef, self.Ym))


class RefGrid(Basis):
  """Basis on the reference's own Gauss x equispaced grid with exact quadrature for integrands of
  polynomial degree <= 2*nlat-1 in mu and trigonometric degree < nlon in lam."""

  def __init__(self, M, L, nlat, nlon, derivatives=True):
    mu, w = np.polynomial.legendre.leggauss(nlat)
    lam = np.arange(nlon) * 2 * np.pi / nlon
    super().__init__(M, L, lam, mu, derivatives=derivatives)
    self.wmu = w
    self.wlam = 2 * np.pi / nlon

  def integrate(self, f):
    return np.einsum('...xy,y->...', f, self.wmu) * self.wlam

  def project(self, f):
    """coefficients int f Y over the unit sphere: (..., nx, ny) -> (..., 2M-1, L)"""
    return np.einsum('...xy,ilxy,y->...il', f, self.Y, self.wmu) * self.wlam

  def project_grad(self, fu, fv):
    """int (grad Y . F) cos^2 ... helper: returns int (Yl*fu + Ym*fv) / (1-mu^2) for every mode, i.e. the
    weak form int grad Y . F dA on the unit sphere for F = (fu, fv)/cos(lat) given as cos(lat)-weighted components."""
    inv = 1.0 / (1.0 - self.mu ** 2)
    return (np.einsum('...xy,ilxy,y->...il', fu, self.Yl, self.wmu * inv)
            + np.einsum('...xy,ilxy,y->...il', fv, self.Ym, self.wmu * inv)) * self.wlam


# -- symmetry maps on coefficients (Real layout) ----------------------------------------------

def rotate(coef, delta):
  """coefficients of f(lam - delta): (c, s) -> (c cos(m d) - s sin(m d), s cos(m d) + c sin(m d))."""
  coef = np.asarray(coef, dtype=np.float64)
  out = coef.copy()
  M = (coef.shape[-2] + 1) // 2
  for m in range(1, M):
    c = coef[..., 2 * m - 1, :]
    s = coef[..., 2 * m, :]
    cd, sd = np.cos(m * delta), np.sin(m * delta)
    out[..., 2 * m - 1, :] = c * cd - s * sd
    out[..., 2 * m, :] = s * cd + c * sd
  return out


def mirror(coef):
  """coefficients of f(lam, -mu): multiply (m, l) by (-1)^(l+m)."""
  coef = np.asarray(coef, dtype=np.float64)
  rows, L = coef.shape[-2:]
  m = np.array([0] + [(i + 1) // 2 for i in range(1, rows)])
  sign = (-1.0) ** (m[:, None] + np.arange(L)[None, :])
  return coef * sign


def resolved_pair(spacing, nlat, l, lp):
  """quadrature theory: is int Pbar_l^m Pbar_l'^m dmu exact on this latitude rule?"""
  if spacing == 'gauss':
    return l + lp <= 2 * nlat - 1
  return l + lp <= nlat - 1   # interpolatory rule on nlat nodes: exact to degree nlat-1
