"""C18: unit and time conversions are mutually inverse and multiplicative.

Bounded-exhaustive enumeration on the real code (dinosaur.scales.Scale, PrimitiveEquationsSpecs,
xarray_utils time helpers, radiation orbital-time functions):

* 5 scales x every unit m^a s^b kg^c K^d with exponents in -2..2 (625) + 5 named compound units
  x magnitudes amp*10^k, k = -12..12 x value form (python float / int, numpy array, jax array):
  non-dimensional value against the exact rational scale factor of mc.ref.units; round trip in the same
  and in another compatible unit (km, hour, gram, millikelvin / bar, kPa, ...); independence of the
  unit the input was expressed in; power laws; product and quotient laws on pairs of units.
* every whole-second duration (scalar and array) through (non)dimensionalize_timedelta64: exact.
* every minute of 1979-01-01..1980-02-29 and every 97th minute over 50 years x 3 reference dates
  through datetime64_to_nondim_time / nondim_time_to_datetime64 (exact) and datetime_to_time.
* orbital / synodic phases (SolarRadiation.time_to_orbital_time in float64 and float32; op-by-op
  jax.vmap, jax.jit(jax.vmap) and plain-python scalar paths; datetime_to_orbital_time) on the same
  lattices: inside [0, 2*pi) and equal to the elapsed time modulo 2*pi within
  16*eps*max(|unreduced phase|, 2*pi).  A phase outside [0, 2*pi) by no more than that bound is the
  recorded finding F7 (site orbital_phase_range); anything larger is a violation.

Array routes are driven one real array call per case (a day of minutes, 1000 sparse stamps, 10000
seconds; `validated` counts the elements); scalar routes one call per element.

Extensions after the seeded-breakage rounds (DESIGN.md 8.5): The unit lattice includes dimensionless units that carry a factor (g/kg, percent, ppm, year/day).
"""
import datetime
import struct
from fractions import Fraction as F

import numpy as np

from mc import core
from mc.ref import units as ru

ID = 'C18'
TECHNIQUE = ('bounded-exhaustive enumeration (explicit-state) of scales x units x magnitudes x value forms and of '
             'duration / datetime lattices on the real code, against exact rational scale factors and an '
             'extended-precision phase reference')
ASSUMPTIONS = [
    'reference model mc/ref/units.py: python Fractions for scale factors, numpy long double (eps 1e-19) for phases',
    'pint arithmetic is exercised as part of the implementation (it is what Scale is built on); no pint in the reference',
    'small scope: the statement is decided for the enumerated scales, units, magnitudes, durations and datetimes only',
    'offset units (degC) and scales with fewer than four dimensions are outside the enumerated space',
    'orbital reference dates lie on whole minutes (datetime_to_orbital_time ignores seconds by construction)',
]
RULE = ('case = one real call (or call chain) of the conversion API on one input: (scale, unit, magnitude or magnitude array, '
        'value form) | (scale, unit pair) | (scale, duration or block of 10000 consecutive durations) | (scale, reference date, '
        'datetime or block of consecutive lattice datetimes, dtype/path); traces_validated counts the array elements behind a '
        'block case; distinct = distinct canonical key; non-trivial = every case (the conversion is applied for real); '
        'distinct_nontrivial counts distinct implementation outputs')

KS = list(range(-12, 13))
POWERS = (-2, -1, 0, 0.5, 1, 1.5, 2, 3)
SIG_F7 = {'function': 'SolarRadiation/OrbitalTime synodic/orbital phase',
          'kind': 'overshoot<=16*eps*max(|unreduced|,2pi)'}
DURATION_CHUNK = 4321            # scalar blocks: 20 blocks cover 0..86400 (the last one is clipped)
ARRAY_UNIT = 500_000             # seconds per duration_array work unit (thorough)
ARRAY_CALL = 10_000              # seconds per array call (one case)
LATTICE_CALL = {'dense': 1440, 'sparse': 1000}   # datetimes per array call (one case): a day / 1000 stamps
ORBITAL_SCALAR_STRIDE = {'quick': 29, 'thorough': 5}
DATETIME_TO_TIME_STRIDE = {'quick': 16, 'thorough': 3}


def bounds(tier):
  q = tier == 'quick'
  return dict(
      scales=list(ru.SCALE_NAMES),
      units='m^a s^b kg^c K^d, exponents -2..2 (625) + Pa, hPa, J/kg/K, W/m^2, km/h + dimensionless units with a factor: g/kg, percent, ppm, year/day',
      magnitudes='amp * 10^k, k=-12..12, amp from the seed palette (quick) / all palettes (thorough), and 0',
      forms=['float', 'int (when integral)', 'numpy float64 array', 'jax float64 array'],
      powers=list(POWERS),
      pair_laws='ordered pairs (every unit) x (%s)' % ('units with exponents in -1..1 + named (90)' if q else 'every unit (634)'),
      durations_scalar='every whole second 0..86400, 5 scales' + ('' if q else ' and -86400..0; minutes 0..1440, hours 0..240, ms 0..3600000 step 1000'),
      durations_array=('0..86400 and -86400..0' if q else '-86400..0 and 0..10^7') + ', stride 1, %d per array call' % ARRAY_CALL,
      datetimes='every minute 1979-01-01..1980-02-29 (612000, one day per array call) + every 97th minute over 50 years '
                '(271114, 1000 per array call); 0-d route on every 97th lattice element',
      datetime_dtypes=['dense: datetime64[m]', 'sparse: datetime64[ns]'] if q else ['datetime64[m]', 'datetime64[s]', 'datetime64[ns]'],
      reference_dates={k: str(np.datetime64(int(v), 'm')) for k, v in ru.REFERENCE_DATES.items()},
      orbital_dtypes=['float64', 'float32'],
      orbital_paths=['jax.vmap op-by-op on both lattices', 'jax.jit(jax.vmap) on both lattices', 'python scalar (sparse lattice, stride %d)' % ORBITAL_SCALAR_STRIDE[tier]],
      datetime_to_time='sparse lattice stride %d%s' % (DATETIME_TO_TIME_STRIDE[tier], '' if q else ' + dense lattice under DEFAULT/WB1979'),
      calendar_phase='datetime_to_orbital_time on every element of both lattices',
      time_axis_steps='1..60 units of ns(x1e9)/us(x1e6)/ms(x1e3)/s/m/h/D',
  )


def _amps(seed, tier):
  out = []
  for p in core.palette(seed, tier):
    for a in p:
      if a not in out:
        out.append(a)
  return out


def _chunks(n, size):
  return [(s, min(size, n - s)) for s in range(0, n, size)]


def units(tier, seed):
  q = tier == 'quick'
  amps = _amps(seed, tier)
  us = []
  for sc in ru.SCALE_NAMES:
    for a in range(-2, 3):
      us.append(dict(kind='roundtrip', scale=sc, a=a, amps=amps))
    us.append(dict(kind='roundtrip', scale=sc, a='named', amps=amps))
  for sc in ru.SCALE_NAMES:
    for a in list(range(-2, 3)) + ['named']:
      us.append(dict(kind='laws', scale=sc, a=a, amps=amps, partners='core' if q else 'all'))
  # durations
  for sc in ru.SCALE_NAMES:
    for s, n in _chunks(86401, DURATION_CHUNK):
      us.append(dict(kind='duration_scalar', scale=sc, start=s, count=n, sign=1, other_units=(s == 0 and not q)))
    if not q:
      for s, n in _chunks(86401, DURATION_CHUNK):
        us.append(dict(kind='duration_scalar', scale=sc, start=s, count=n, sign=-1, other_units=False))
    us.append(dict(kind='duration_array', scale=sc, start=-86400, count=86401))
    if q:
      us.append(dict(kind='duration_array', scale=sc, start=0, count=86401))
    else:
      for s, n in _chunks(10_000_001, ARRAY_UNIT):
        us.append(dict(kind='duration_array', scale=sc, start=s, count=n))
    us.append(dict(kind='time_axis', scale=sc))
  # datetimes and orbital phases
  n_dense = ru.DENSE_END - ru.DENSE_START
  for sc in ru.SCALE_NAMES:
    for ref in ru.REFERENCE_DATES:
      for lat in ('dense', 'sparse'):
        tunits = ['m' if lat == 'dense' else 'ns'] if q else (['m', 's'] if lat == 'dense' else ['ns', 'm'])
        for tu in tunits:
          us.append(dict(kind='datetime', scale=sc, ref=ref, lattice=lat, tunit=tu))
        for dt in ('float64', 'float32'):
          for path in ('vmap', 'jit'):
            us.append(dict(kind='orbital', scale=sc, ref=ref, lattice=lat, dtype=dt, path=path))
      stride = ORBITAL_SCALAR_STRIDE[tier]
      for s, n in _chunks((ru.SPARSE_COUNT + stride - 1) // stride, 14_000):
        for dt in ('float64', 'float32'):
          us.append(dict(kind='orbital', scale=sc, ref=ref, lattice='sparse', start=s * stride, count=n, dtype=dt,
                         path='scalar', stride=stride))
      stride = DATETIME_TO_TIME_STRIDE[tier]
      for s, n in _chunks((ru.SPARSE_COUNT + stride - 1) // stride, 17_000):
        us.append(dict(kind='datetime_to_time', scale=sc, ref=ref, lattice='sparse', start=s * stride, count=n, stride=stride))
      if not q and sc == 'DEFAULT' and ref == 'WB1979':
        for s, n in _chunks(n_dense, 17_000):
          us.append(dict(kind='datetime_to_time', scale=sc, ref=ref, lattice='dense', start=s, count=n, stride=1))
  for lat, total in (('dense', n_dense), ('sparse', ru.SPARSE_COUNT)):
    for s, n in _chunks(total, 153_000):
      us.append(dict(kind='calendar_phase', lattice=lat, start=s, count=n))
  return us


# ---- helpers (worker side) ----------------------------------------------------------------------

def _scale(name):
  from dinosaur import scales
  u = scales.units
  if name == 'DEFAULT':
    return scales.DEFAULT_SCALE
  if name == 'ATMOSPHERIC':
    return scales.ATMOSPHERIC_SCALE
  if name == 'SI':
    return scales.Scale(1 * u.m, 1 * u.s, 1 * u.kg, 1 * u.K)
  if name == 'CUSTOM_A':
    return scales.Scale(1234.5 * u.km, 0.7 * u.hour, 3.3 * u.kg, 7.5 * u.degK)
  if name == 'CUSTOM_B':
    return scales.Scale(1 * u.m, 1 * u.s, 1 * u.g, 100 * u.K)
  raise ValueError(name)


def _specs(name):
  from dinosaur import primitive_equations as pe
  return pe.PrimitiveEquationsSpecs.from_si(scale=_scale(name))


def _unit_table(block):
  """[(label, exps, pint unit, SI factor, alt pint unit, alt SI factor)] for a block of the unit lattice."""
  from dinosaur import scales
  u = scales.units
  base = (u.m, u.s, u.kg, u.K)
  alt = (u.km, u.hour, u.g, u.mK)
  out = []
  if block == 'named':
    for name, (fac, exps) in ru.NAMED.items():
      afac, aname = ru.NAMED_ALT[name]
      out.append((name, exps, u.Unit(name), fac, u.Unit(aname), afac))
    return out
  for exps in ru.monomials():
    if block != 'all' and block != 'core' and exps[0] != block:
      continue
    if block == 'core' and max(abs(e) for e in exps) > 1:
      continue
    U = base[0] ** exps[0] * base[1] ** exps[1] * base[2] ** exps[2] * base[3] ** exps[3]
    A = alt[0] ** exps[0] * alt[1] ** exps[1] * alt[2] ** exps[2] * alt[3] ** exps[3]
    out.append(('m^%d s^%d kg^%d K^%d' % exps, exps, U, F(1), A, ru.alt_factor(exps)))
  return out


def _mag(amp, k):
  """amp * 10^k rounded once; also returns the exact rational it stands for (the float's own value)."""
  m = float(F(amp) * F(10) ** k)
  return m


def _rel(rec, got, want, site, key, extra=None, C=1e4, sig=None):
  """relative comparison element by element: got/want against 1 (want != 0)."""
  got = np.asarray(got, dtype=np.float64)
  want = np.asarray(want, dtype=np.float64)
  with np.errstate(all='ignore'):
    r = got / want
  return rec.close(r, np.ones_like(r), scale=1.0, site=site, key=key, C=C, extra=extra, sig=sig)


# ---- unit round trips -------------------------------------------------------------------------------

def _work_roundtrip(unit, rec):
  import jax.numpy as jnp
  sname = unit['scale']
  S = _scale(sname)
  specs = _specs(sname)
  table = _unit_table(unit['a'])
  for ui, (label, exps, U, fac, A, afac) in enumerate(table):
    ratio = F(fac) / ru.scale_factor(sname, exps)          # exact non-dimensional value of one U
    conv = F(fac) / F(afac)                                # exact number of A in one U
    for ai, amp in enumerate(unit['amps']):
      mags = np.array([_mag(amp, k) for k in KS])
      want = np.array([float(F(m) * ratio) for m in mags])
      mags_alt = np.array([float(F(m) * conv) for m in mags])
      # -- numpy array form (and jax array form for the first amplitude) ----------------------
      forms = [('array', mags, mags_alt)]
      if ai == 0:
        forms.append(('jax', jnp.asarray(mags), jnp.asarray(mags_alt)))
      for form, mg, mga in forms:
        key = ('roundtrip', sname, label, amp, form)
        x = S.nondimensionalize(mg * U)
        y = S.dimensionalize(x, U)
        ya = S.dimensionalize(x, A)
        xa = S.nondimensionalize(mga * A)
        xn = np.asarray(x, dtype=np.float64)
        rec.case(key, transitions=4, outcome=xn.tobytes() + np.asarray(y.m, dtype=np.float64).tobytes(), validated=len(KS),
                 sample={'scale': sname, 'unit': str(U), 'other_unit': str(A), 'magnitudes': 'amp*10^k, k=-12..12',
                         'amp': amp, 'form': form, 'nondim[k=0]': float(xn[12])})
        ex = {'unit': str(U), 'scale': sname}
        _rel(rec, xn, want, 'nondim_vs_exact_scale_factor', key, ex)
        _rel(rec, y.m, mags, 'roundtrip_same_unit', key, ex)
        _rel(rec, ya.m, mags_alt, 'roundtrip_other_compatible_unit', key, dict(ex, other=str(A)))
        _rel(rec, xa, want, 'independent_of_input_unit', key, dict(ex, other=str(A)))
        rec.check(y.units == U and ya.units == A, 'dimensionalize_returns_requested_unit', key,
                  {'got': [str(y.units), str(ya.units)], 'want': [str(U), str(A)]})
      # -- scalar forms ---------------------------------------------------------------------------
      for k, m, w, ma in zip(KS, mags.tolist(), want.tolist(), mags_alt.tolist()):
        vals = [('float', m)]
        if float(m).is_integer() and abs(m) < 2 ** 53:
          vals.append(('int', int(m)))
        for form, v in vals:
          key = ('roundtrip', sname, label, amp, k, form)
          # the specs wrappers are the public route used by the models; alternate with the Scale itself
          conv_nd, conv_d = (specs.nondimensionalize, specs.dimensionalize) if (k + ui) % 2 else (S.nondimensionalize, S.dimensionalize)
          x = conv_nd(v * U)
          y = conv_d(x, U)
          ya = conv_d(x, A)
          xa = conv_nd(ma * A)
          rec.case(key, transitions=4, outcome=struct.pack('<3d', float(x), float(y.m), float(ya.m)),
                   sample={'scale': sname, 'quantity': '%r %s' % (v, U), 'nondim': float(x), 'back': float(y.m)})
          ex = {'unit': str(U), 'scale': sname, 'magnitude': v}
          _rel(rec, x, w, 'nondim_vs_exact_scale_factor', key, ex)
          _rel(rec, y.m, m, 'roundtrip_same_unit', key, ex)
          _rel(rec, ya.m, ma, 'roundtrip_other_compatible_unit', key, dict(ex, other=str(A)))
          _rel(rec, xa, w, 'independent_of_input_unit', key, dict(ex, other=str(A)))
      # -- zero ----------------------------------------------------------------------------------------
      if ai == 0:
        key = ('roundtrip', sname, label, 0.0, 'float')
        x = S.nondimensionalize(0.0 * U)
        y = S.dimensionalize(x, A)
        rec.case(key, transitions=2, outcome=struct.pack('<2d', float(x), float(y.m)), nontrivial=False)
        rec.zero(np.array([float(x), float(y.m)]), site='zero_maps_to_zero', key=key)
      # -- power law: nondim(q**p) == nondim(q)**p --------------------------------------------------
      k0 = KS[(3 * ui + ai) % len(KS)]
      m0 = abs(_mag(amp, k0))
      q = m0 * U
      x = S.nondimensionalize(q)
      for p in POWERS:
        key = ('power', sname, label, amp, k0, p)
        got = S.nondimensionalize(q ** p)
        rec.case(key, transitions=2, outcome=struct.pack('<d', float(got)),
                 sample={'scale': sname, 'quantity': '%r %s' % (m0, U), 'power': p, 'nondim(q**p)': float(got)})
        _rel(rec, got, x ** p, 'power_law', key, {'unit': str(U), 'p': p, 'magnitude': m0})
        if float(p).is_integer():
          w = float((F(m0) * ratio) ** int(p))
        else:
          w = m0 ** p * float(fac) ** p / ru.scale_factor_float(sname, [F(e) * F(p) for e in exps])
        _rel(rec, got, w, 'power_vs_exact_scale_factor', key, {'unit': str(U), 'p': p, 'magnitude': m0})


def _work_laws(unit, rec):
  sname = unit['scale']
  S = _scale(sname)
  amps = unit['amps']
  left = _unit_table(unit['a'])
  right = _unit_table(unit['partners']) + _unit_table('named')
  off = {-2: 0, -1: 1, 0: 2, 1: 3, 2: 4, 'named': 5}[unit['a']]

  def quantity(idx, salt, U):
    amp = amps[(idx + salt) % len(amps)]
    k = KS[(7 * idx + 3 * salt) % len(KS)]
    m = _mag(amp, k)
    return m, m * U

  R = []
  for j, (label, exps, U, fac, A, afac) in enumerate(right):
    m, qj = quantity(j, 1, U)
    R.append((label, m, qj, S.nondimensionalize(qj)))
  for i, (label_i, exps, U, fac, A, afac) in enumerate(left):
    mi, qi = quantity(i, off, U)
    xi = S.nondimensionalize(qi)
    prod = np.empty(len(R)); quot = np.empty(len(R)); wp = np.empty(len(R)); wq = np.empty(len(R))
    for j, (label_j, mj, qj, xj) in enumerate(R):
      prod[j] = S.nondimensionalize(qi * qj)
      quot[j] = S.nondimensionalize(qi / qj)
      wp[j] = xi * xj
      wq[j] = xi / xj
      rec.case(('law', sname, label_i, mi, label_j, mj), transitions=2, outcome=struct.pack('<2d', prod[j], quot[j]),
               sample={'scale': sname, 'q1': '%r %s' % (mi, U), 'q2': '%r %s' % (mj, qj.units),
                       'nondim(q1*q2)': prod[j], 'nondim(q1)*nondim(q2)': wp[j]})
    key = ('law', sname, label_i, mi, 'all partners')
    for got, want, site in ((prod, wp, 'product_law'), (quot, wq, 'quotient_law')):
      with np.errstate(all='ignore'):
        r = got / want
      bad = int(np.argmax(np.abs(r - 1))) if np.all(np.isfinite(r)) else int(np.argmax(~np.isfinite(r)))
      _rel(rec, got, want, site, ('law', sname, label_i, mi, R[bad][0], R[bad][1]),
           {'q1': '%r %s' % (mi, U), 'q2': '%r %s' % (R[bad][1], R[bad][2].units)})


# ---- durations ----------------------------------------------------------------------------------------

def _work_duration_scalar(unit, rec):
  sname = unit['scale']
  specs = _specs(sname)
  sign = unit['sign']
  T = ru.time_scale_seconds(sname)
  todo = [('s', 1, sign * s) for s in range(unit['start'], unit['start'] + unit['count'])]
  if unit['other_units']:
    todo += [('m', 60, n) for n in range(0, 1441)] + [('h', 3600, n) for n in range(0, 241)]
    todo += [('ms', F(1, 1000), 1000 * n) for n in range(0, 3601)]
  worst = (0.0, None)
  for tu, per, n in todo:
    if sign < 0 and n == 0:
      continue
    key = ('duration', sname, 'scalar', tu, n)
    td = np.timedelta64(n, tu)
    x = specs.nondimensionalize_timedelta64(td)
    back = specs.dimensionalize_timedelta64(x)
    secs = int(n * per)
    rec.case(key, transitions=2, outcome=(int(back / np.timedelta64(1, 's')),),
             sample={'scale': sname, 'duration': str(td), 'nondim': float(x), 'back': str(back)})
    ok = isinstance(back, np.timedelta64) and back == td
    rec.check(ok, 'whole_second_duration_round_trip', key,
              {'duration': str(td), 'nondim': float(x), 'back': str(back)})
    w = float(F(secs) / T)
    err = abs(float(x) - w) / abs(w) if w else abs(float(x))
    if err >= worst[0]:
      worst = (err, (key, float(x), w))
  if worst[1]:
    key, x, w = worst[1]
    if w:
      _rel(rec, x, w, 'nondim_duration_vs_exact', key)
    else:
      rec.zero(np.array(x), site='nondim_duration_zero', key=key)


def _work_duration_array(unit, rec):
  sname = unit['scale']
  specs = _specs(sname)
  for s0, n in _chunks(unit['count'], ARRAY_CALL):
    secs = unit['start'] + s0 + np.arange(n, dtype=np.int64)
    td = secs.astype('timedelta64[s]')
    key = ('duration', sname, 'array', 's', int(secs[0]), int(secs[-1]))
    x = specs.nondimensionalize_timedelta64(td)
    back = specs.dimensionalize_timedelta64(x)
    want = ru.nondim_seconds(sname, secs)
    rec.case(key, transitions=2, validated=n, outcome=np.asarray(back).tobytes(),
             sample={'scale': sname, 'durations': 'array of every whole second %d..%d' % (secs[0], secs[-1]),
                     'nondim[:2]': x[:2].tolist(), 'back[:3]': str(back[:3])})
    ok = back.dtype.kind == 'm' and back.shape == td.shape and bool(np.all(back == td))
    if not ok:
      idx = np.flatnonzero(np.asarray(back != td)) if back.shape == td.shape else np.arange(1)
      i = int(idx[0])
      rec.check(False, 'whole_second_duration_round_trip', key,
                {'first_failing_duration_s': int(secs[i]), 'nondim': float(x[i]), 'back': str(back[i] if back.shape == td.shape else back),
                 'failing_in_block': int(idx.size), 'failing_first_10': [int(v) for v in secs[idx[:10]]]})
    nz = secs != 0
    _rel(rec, x[nz], want[nz], 'nondim_duration_vs_exact', key)
    rec.zero(x[~nz], site='nondim_duration_zero', key=key)


def _work_time_axis(unit, rec):
  from dinosaur import xarray_utils as xu
  sname = unit['scale']
  specs = _specs(sname)
  T = ru.time_scale_seconds(sname)
  ref = np.datetime64('1979-01-01T00:00:00')
  for tu, mult, per in (('ns', 10 ** 9, 1), ('us', 10 ** 6, 1), ('ms', 1000, 1), ('s', 1, 1), ('m', 1, 60),
                        ('h', 1, 3600), ('D', 1, 86400)):
    for k in range(1, 61):
      key = ('time_axis', sname, tu, k)
      axis = ref.astype('datetime64[%s]' % tu) + (k * mult * np.arange(3)).astype('timedelta64[%s]' % tu)
      got = xu.nondim_time_delta_from_time_axis(axis, specs)
      w = float(F(k * per) / T)
      rec.case(key, outcome=struct.pack('<d', float(got)),
               sample={'scale': sname, 'axis': [str(a) for a in axis], 'nondim_delta': float(got)})
      _rel(rec, got, w, 'time_axis_delta_vs_exact', key, {'axis_unit': tu, 'step': k})
      nd = xu.datetime64_to_nondim_time(axis, specs, ref)
      got_f = xu.nondim_time_delta_from_time_axis(nd, specs)
      _rel(rec, got_f, w, 'time_axis_delta_float_axis', key, {'axis_unit': tu, 'step': k})


# ---- datetimes ------------------------------------------------------------------------------------------

def _lattice(unit):
  stride = unit.get('stride', 1)
  count = unit['count']
  total = (ru.DENSE_END - ru.DENSE_START) if unit['lattice'] == 'dense' else ru.SPARSE_COUNT
  count = min(count, (total - unit['start'] + stride - 1) // stride)
  return ru.lattice_minutes(unit['lattice'], unit['start'], count, stride)


def _work_datetime(unit, rec):
  from dinosaur import xarray_utils as xu
  sname = unit['scale']
  specs = _specs(sname)
  tu = unit['tunit']
  lat = unit['lattice']
  total = (ru.DENSE_END - ru.DENSE_START) if lat == 'dense' else ru.SPARSE_COUNT
  ref_min = ru.REFERENCE_DATES[unit['ref']]
  ref = np.datetime64(int(ref_min), 'm').astype('datetime64[%s]' % ('m' if tu == 'm' else 's'))
  for s0, n in _chunks(total, LATTICE_CALL[lat]):
    mins = ru.lattice_minutes(lat, s0, n)
    times = mins.astype('datetime64[m]').astype('datetime64[%s]' % tu)
    key = ('datetime', sname, unit['ref'], tu, lat, int(mins[0]), int(mins[-1]))
    nd = xu.datetime64_to_nondim_time(times, specs, ref)
    back = xu.nondim_time_to_datetime64(nd, specs, ref)
    want = ru.nondim_seconds(sname, (mins - ref_min) * 60)
    rec.case(key, transitions=2, validated=n, outcome=np.asarray(nd).tobytes() + np.asarray(back).tobytes(),
             sample={'scale': sname, 'reference': str(ref), 'datetimes': '%s .. %s (%d stamps, %s)' % (times[0], times[-1], n, times.dtype),
                     'nondim[:2]': np.asarray(nd)[:2].tolist(), 'back[:2]': [str(v) for v in back[:2]]})
    eq = np.asarray(back == times)
    if not (back.shape == times.shape and eq.all()):
      idx = np.flatnonzero(~eq) if back.shape == times.shape else np.arange(1)
      i = int(idx[0])
      rec.check(False, 'datetime_round_trip_exact_at_minute_resolution', key,
                {'first_failing_datetime': str(times[i]), 'reference': str(ref), 'nondim': float(nd[i]),
                 'back': str(back[i] if back.shape == times.shape else back), 'failing_in_block': int(idx.size)})
    nz = want != 0
    _rel(rec, nd[nz], want[nz], 'nondim_time_vs_exact', key, {'reference': str(ref)})
    rec.zero(nd[~nz], site='nondim_time_zero_at_reference', key=key)
  # 0-d route on the sub-lattice of every 97th element
  mins = ru.lattice_minutes(lat, 0, (total + 96) // 97, 97)
  want = ru.nondim_seconds(sname, (mins - ref_min) * 60)
  for m, w in zip(mins.tolist(), want.tolist()):
    key = ('datetime', sname, unit['ref'], tu, m, 'scalar')
    t = np.datetime64(m, 'm').astype('datetime64[%s]' % tu)
    x = xu.datetime64_to_nondim_time(t, specs, ref)
    b = xu.nondim_time_to_datetime64(x, specs, ref)
    rec.case(key, transitions=2, outcome=(float(x), str(b)))
    rec.check(bool(b == t), 'datetime_round_trip_scalar', key,
              {'datetime': str(t), 'reference': str(ref), 'nondim': float(x), 'back': str(b)})
    if w:
      _rel(rec, x, w, 'nondim_time_vs_exact', key, {'reference': str(ref)})


def _work_datetime_to_time(unit, rec):
  from dinosaur import radiation as rad
  sname = unit['scale']
  specs = _specs(sname)
  mins = _lattice(unit)
  ref_min = ru.REFERENCE_DATES[unit['ref']]
  ref64 = np.datetime64(int(ref_min), 'm')
  refdt = ru.EPOCH + datetime.timedelta(minutes=int(ref_min))
  sr = rad.SolarRadiation(_coords(), specs, refdt)
  want = ru.nondim_seconds(sname, (mins - ref_min) * 60)
  got = np.empty(len(mins)); got64 = np.empty(len(mins))
  for i, m in enumerate(mins.tolist()):
    when = ru.EPOCH + datetime.timedelta(minutes=m)
    got[i] = rad.datetime_to_time(when, specs, ref64)
    got64[i] = sr.datetime_to_time(np.datetime64(m, 'm'))      # the method route, datetime64 input
    rec.case(('datetime_to_time', sname, unit['ref'], m), transitions=2, outcome=struct.pack('<2d', got[i], got64[i]),
             sample={'scale': sname, 'reference': str(ref64), 'when': str(when), 'nondim_time': got[i]})
  for g, site in ((got, 'datetime_to_time_vs_exact'), (got64, 'SolarRadiation_datetime_to_time_datetime64_vs_exact')):
    nz = want != 0
    if nz.any():
      i = int(np.argmax(np.abs(g[nz] / want[nz] - 1)))
      _rel(rec, g[nz], want[nz], site, ('datetime_to_time', sname, unit['ref'], int(mins[nz][i])),
           {'reference': str(ref64)})
    rec.zero(g[~nz], site=site + '_zero', key=('datetime_to_time', sname, unit['ref'], int(ref_min)))


# ---- orbital phases ---------------------------------------------------------------------------------------

_COORDS = []


def _coords():
  if not _COORDS:
    from dinosaur import coordinate_systems as cs, sigma_coordinates as sc, spherical_harmonic as sh
    _COORDS.append(cs.CoordinateSystem(sh.Grid.with_wavenumbers(2), sc.SigmaCoordinates.equidistant(1)))
  return _COORDS[0]


def _phase_checks(rec, name, phase, t, mins, unit, eps, keyf):
  """Range and consistency oracles for one phase array (`phase` as returned, `t` the times as given)."""
  ph = np.asarray(phase)
  p64 = ph.astype(np.float64)
  if not rec.finite(p64, site='orbital_phase_finite', key=keyf(0) + (name,)):
    return
  exp = ru.expected_phases(t, unit['scale'], ru.REFERENCE_DATES[unit['ref']])[name]
  case_key = keyf
  keyf = lambda i: case_key(i) + (name,)     # violation key = case key + the observable
  unreduced, reduced = exp
  bscale = np.maximum(np.abs(unreduced), ru.TWO_PI)
  # consistency with elapsed time, modulo 2*pi
  d = np.abs(ru.circular_difference(p64, reduced)) / bscale
  i = int(np.argmax(d))
  rec.close(d[i], 0.0, scale=1.0, C=16, eps=eps, site='orbital_phase_consistent_with_elapsed_time', key=keyf(i),
            sig={'phase': name, 'dtype': str(ph.dtype)},
            extra={'phase': name, 'time_nondim': float(t[i]), 'got': float(p64[i]), 'want_mod_2pi': float(reduced[i]),
                   'unreduced': float(unreduced[i])})
  # range [0, 2*pi): 2*pi is the dtype's own rounding of 2*pi
  top = ph.dtype.type(ru.TWO_PI) if ph.dtype.kind == 'f' else ru.TWO_PI
  hi = ph >= top
  lo = ph < 0
  over = np.where(hi, p64 - ru.TWO_PI, np.where(lo, -p64, 0.0))
  out = hi | lo
  small = out & (over <= 16 * eps * bscale)
  big = out & ~small
  rec.note('phase_outside_[0,2pi)_within_16eps_bound:%s:%s' % (name, ph.dtype), int(small.sum()))
  if small.any():
    idx = np.flatnonzero(small)
    i = int(idx[0])
    rec.check(False, 'orbital_phase_range', keyf(i),
              {'phase': name, 'dtype': str(ph.dtype), 'count_in_block': int(idx.size), 'count_negative': int((small & lo).sum()),
               'first_time_nondim': float(t[i]), 'first_got': float(p64[i]), 'two_pi': ru.TWO_PI,
               'first_overshoot': float(over[i]), 'max_overshoot_over_bound': float(np.max(over[idx] / (16 * eps * bscale[idx]))),
               'unreduced': float(unreduced[i])}, sig=SIG_F7)
  if big.any():
    idx = np.flatnonzero(big)
    i = int(idx[0])
    rec.check(False, 'orbital_phase_out_of_range', keyf(i),
              {'phase': name, 'dtype': str(ph.dtype), 'count_in_block': int(idx.size), 'time_nondim': float(t[i]),
               'got': float(p64[i]), 'overshoot': float(over[i]), 'bound': float(16 * eps * bscale[i]),
               'unreduced': float(unreduced[i])},
              sig={'kind': 'overshoot>16*eps*max(|unreduced|,2pi)' if p64[i] >= 0 else 'negative beyond 16*eps*max(|unreduced|,2pi)'})


def _work_orbital(unit, rec):
  import jax
  import jax.numpy as jnp
  from dinosaur import radiation as rad
  sname = unit['scale']
  specs = _specs(sname)
  lat = unit['lattice']
  ref_min = ru.REFERENCE_DATES[unit['ref']]
  # the WeatherBench reference is given as datetime.datetime (as in the library), the others as datetime64
  ref = (ru.EPOCH + datetime.timedelta(minutes=int(ref_min))) if unit['ref'] == 'WB1979' else np.datetime64(int(ref_min), 'm')
  sr = rad.SolarRadiation(_coords(), specs, ref)
  dtype = np.dtype(unit['dtype'])
  eps = float(np.finfo(dtype).eps)
  path = unit['path']
  base = ('orbital', sname, unit['ref'], unit['dtype'], path)
  if path in ('vmap', 'jit'):
    total = (ru.DENSE_END - ru.DENSE_START) if lat == 'dense' else ru.SPARSE_COUNT
    mins = ru.lattice_minutes(lat, 0, total)
    t = ru.nondim_seconds(sname, (mins - ref_min) * 60).astype(dtype)
    # 'vmap': op-by-op execution of the batched function; 'jit': the same compiled by XLA (as inside a model step)
    f = jax.vmap(sr.time_to_orbital_time)
    if path == 'jit':
      f = jax.jit(f)
    orb = np.empty(total, dtype=dtype); syn = np.empty(total, dtype=dtype)
    for s0, n in _chunks(total, LATTICE_CALL[lat]):
      ot = f(jnp.asarray(t[s0:s0 + n]))
      o, sy = np.asarray(ot.orbital_phase), np.asarray(ot.synodic_phase)
      if o.dtype != dtype:     # a promoted result is kept at its own precision for the oracles below
        orb = orb.astype(o.dtype); syn = syn.astype(o.dtype)
      orb[s0:s0 + n] = o; syn[s0:s0 + n] = sy
      rec.case(base + (lat, int(mins[s0]), int(mins[s0 + n - 1])), transitions=1, validated=n, outcome=o.tobytes() + sy.tobytes(),
               sample={'scale': sname, 'reference': str(ref), 'dtype': unit['dtype'], 'path': 'jax.jit(jax.vmap(f))' if path == 'jit' else 'jax.vmap(f), op by op',
                       'datetimes': '%s .. %s (%d stamps)' % (np.datetime64(int(mins[s0]), 'm'), np.datetime64(int(mins[s0 + n - 1]), 'm'), n),
                       'time_nondim[0]': float(t[s0]), 'orbital_phase[0]': float(o[0]), 'synodic_phase[0]': float(sy[0])})
    keyf = lambda i: base + (lat, int(mins[i - i % LATTICE_CALL[lat]]), int(mins[min(total, i - i % LATTICE_CALL[lat] + LATTICE_CALL[lat]) - 1]))
  else:
    mins = _lattice(unit)
    t = ru.nondim_seconds(sname, (mins - ref_min) * 60).astype(dtype)
    orb = np.empty(len(t), dtype=dtype); syn = np.empty(len(t), dtype=dtype)
    vals = t.tolist() if dtype == np.float64 else list(t)      # python floats / numpy float32 scalars
    smp = None
    for i, (m, v) in enumerate(zip(mins.tolist(), vals)):
      o = sr.time_to_orbital_time(v)
      orb[i] = o.orbital_phase
      syn[i] = o.synodic_phase
      if i < 2:
        smp = {'scale': sname, 'reference': str(ref), 'dtype': unit['dtype'], 'path': 'python scalar',
               'datetime': str(np.datetime64(m, 'm')), 'time_nondim': float(v),
               'orbital_phase': float(orb[i]), 'synodic_phase': float(syn[i])}
      rec.case(base + (m,), transitions=1, outcome=(float(orb[i]), float(syn[i])), sample=smp)
    keyf = lambda i: base + (int(mins[i]),)
  _phase_checks(rec, 'orbital_phase', orb, t, mins, unit, eps, keyf)
  _phase_checks(rec, 'synodic_phase', syn, t, mins, unit, eps, keyf)


def _work_calendar_phase(unit, rec):
  from dinosaur import radiation as rad
  mins = _lattice(unit)
  want_o, want_s = ru.calendar_phases_array(mins)
  got = np.empty((len(mins), 2))
  for i, m in enumerate(mins.tolist()):
    when = ru.EPOCH + datetime.timedelta(minutes=m)
    o = rad.datetime_to_orbital_time(when)
    got[i, 0] = o.orbital_phase
    got[i, 1] = o.synodic_phase
    rec.case(('calendar_phase', m), outcome=got[i].tobytes(),
             sample={'when': str(when), 'orbital_phase': got[i, 0], 'synodic_phase': got[i, 1]})
  for c, want, name in ((0, want_o, 'orbital_phase'), (1, want_s, 'synodic_phase')):
    d = np.abs(got[:, c] - want)
    i = int(np.argmax(d))
    key = ('calendar_phase', int(mins[i]))
    rec.close(got[i, c], want[i], scale=ru.TWO_PI, site='calendar_%s_vs_reference' % name, key=key,
              extra={'when': str(np.datetime64(int(mins[i]), 'm'))})
    bad = ~((got[:, c] >= 0) & (got[:, c] < ru.TWO_PI))
    if bad.any():
      j = int(np.flatnonzero(bad)[0])
      rec.check(False, 'calendar_phase_out_of_range', ('calendar_phase', int(mins[j]), name),
                {'phase': name, 'got': float(got[j, c]), 'when': str(np.datetime64(int(mins[j]), 'm')), 'count': int(bad.sum())})
  # the datetime64 entry point used by SolarRadiation: same calendar fields on every 97th element
  for i in range(0, len(mins), 97):
    m = int(mins[i])
    key = ('calendar_phase', m, 'datetime64')
    got_dt = rad.datetime64_to_datetime(np.datetime64(m, 'm'))
    rec.case(key, outcome=(str(got_dt),))
    rec.check(got_dt == ru.EPOCH + datetime.timedelta(minutes=m), 'datetime64_to_datetime', key, {'got': str(got_dt)})


WORK = dict(roundtrip=_work_roundtrip, laws=_work_laws, duration_scalar=_work_duration_scalar,
            duration_array=_work_duration_array, time_axis=_work_time_axis, datetime=_work_datetime,
            datetime_to_time=_work_datetime_to_time, orbital=_work_orbital, calendar_phase=_work_calendar_phase)


def work(unit, rec):
  WORK[unit['kind']](unit, rec)
