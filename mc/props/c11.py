"""C11: structural invariants survive any number of steps.

Explicit-state breadth-first search over HISTORIES: a state of the search is the batch of model states
reached from a set of admissible roots by a sequence of actions; an action applies one real
step_with_filters(integrator(equation, dt), filters) -- the action alphabet contains every integrator and
filter stacks of size 0..2, so consecutive steps may use different integrators and filters.  Every action
sequence up to the depth bound is explored (states are de-duplicated on the bytes of all leaves) and the
invariants of the property are evaluated in EVERY reached state:

  * top total wavenumber, masked and padded entries exactly 0.0 in every spectral leaf;
  * (0,0) coefficients of vorticity and divergence (and of the shallow-water potential) equal their initial
    values to rounding;
  * a horizontally and vertically uniform tracer stays uniform to rounding;
  * sim_time == t0 + (#steps)*dt to rounding; filters and the implicit solve return sim_time bit-identical.

Extensions after the seeded-breakage rounds (DESIGN.md 8.5): The orography has content at the top total wavenumber, the roots include one state per field with energy at the highest retained wavenumber l = L-2, the action alphabet contains exponential filters with non-default order / cutoff, and the clock is also followed through the centred and off-centred semi-implicit leapfrog.
"""
import itertools
import hashlib
import numpy as np

from mc import core, harness

ID = 'C11'
TECHNIQUE = 'explicit-state BFS over action sequences (integrator x filter stack per step) on the real step functions; invariants evaluated in every reached state'
ASSUMPTIONS = [
    'bounded depth: every action sequence up to the stated depth, plus single-action chains to the stated length',
    'roots: every state with <= 1 unit excitation (l <= 1, all levels and fields), one root per field with energy at the highest retained wavenumber l = L-2, the shipped initial conditions with the top wavenumber clipped, plus a uniform tracer',
    'rounding tolerance grows linearly with the number of steps',
]
RULE = ('state = (configuration, action sequence) -> batch of model states, de-duplicated by a hash of all leaves; transitions = step applications; '
        'non-trivial = reached state differs from its parent')

LEVELS = {'even4': [0.0, 0.25, 0.5, 0.75, 1.0], 'uneven3': [0.0, 0.2, 0.55, 1.0]}
GRIDS = {'real_M5': ([5, 6, 16, 8], 'real'), 'fast_M4_padded': ([4, 5, 13, 7], ['fast', 4, True, False])}


def bounds(tier):
  return dict(classes=['PrimitiveEquations', 'PrimitiveEquationsWithTime', 'MoistPrimitiveEquations', 'ShallowWater'],
              grids=list(GRIDS), level_sets=list(LEVELS), dts=[0.005, 0.02],
              action_alphabet='PE: sil3+[exp], rk3+[diffusion], rk2+[exp(order 2, cutoff .5)], euler+[exp,diffusion]%s; SW: leapfrog + every ordered subset of <= 2 of {exp, Robert-Asselin} + [exp(order 2, cutoff .5), RA]; orography with content at the top total wavenumber' %
              ('' if tier == 'quick' else ', rk4+[diffusion,exp], sil3+[], rk2+[]'),
              bfs_depth=4 if tier == 'quick' else 5, chain_length=6 if tier == 'quick' else 24)


def units(tier, seed):
  pal = core.palette(seed, tier)
  us = []
  combos = list(itertools.product(GRIDS, LEVELS, (0.005, 0.02)))
  for cls in ('PrimitiveEquations', 'PrimitiveEquationsWithTime', 'MoistPrimitiveEquations', 'ShallowWater'):
    for ci, (gname, lname, dt) in enumerate(combos):
      if tier == 'quick' and ci not in ((0, 7) if cls != 'PrimitiveEquationsWithTime' else (3, 4)):
        continue
      us.append(dict(cls=cls, grid=gname, levels=lname, dt=dt, depth=4 if tier == 'quick' else 5, chain=6 if tier == 'quick' else 24,
                     full=tier == 'thorough', palette=pal[0]))
  return us


def _hash(tree):
  import jax
  h = hashlib.blake2b(digest_size=8)
  for leaf in jax.tree_util.tree_leaves(tree):
    h.update(np.ascontiguousarray(np.asarray(leaf)).tobytes())
  return h.digest()


def work(unit, rec):
  import jax, jax.numpy as jnp
  from dinosaur import time_integration as ti
  from dinosaur import shallow_water as sw
  from dinosaur import primitive_equations as pe
  from dinosaur import primitive_equations_states as pes
  from dinosaur import scales
  cls = unit['cls']; dt = unit['dt']; pal = unit['palette']
  shape, impl = GRIDS[unit['grid']]; shape = tuple(shape); impl = impl if isinstance(impl, str) else tuple(impl)
  M, L = shape[0], shape[1]
  bnds = LEVELS[unit['levels']]; K = len(bnds) - 1
  is_sw = cls == 'ShallowWater'
  ctag = [cls, unit['grid'], unit['levels'], dt]

  # ---- roots -------------------------------------------------------------------------------------------
  if is_sw:
    K = 2
    specs = sw.ShallowWaterSpecs.from_si(densities=np.array([0.9, 1.0]) * scales.WATER_DENSITY)
    coords = harness.make_coords(shape, None, impl=impl, radius=specs.radius, layers=K)
    g = coords.horizontal
    alphabet = [(f, k, i, l) for f, zm in (('vorticity', True), ('divergence', True), ('potential', False)) for k in range(K)
                for (i, l) in harness.low_modes(1, M, zm)]
    msets = harness.multisets(len(alphabet), 1)
    B = len(msets)
    st = {f: np.zeros((B, K, 2 * M - 1, L)) for f in ('vorticity', 'divergence', 'potential')}
    for b, ms in enumerate(msets):
      for e in ms:
        f, k, i, l = alphabet[e]
        st[f][b, k, i, l] += harness.UNIT_AMPLITUDE[f] * pal[e % len(pal)]
    conv = lambda x: jnp.asarray(harness.from_real_layout(x, g, impl))
    root = sw.State(conv(st['vorticity']), conv(st['divergence']), conv(st['potential']))
    eq = sw.ShallowWaterEquations(coords, specs, conv(np.pad(np.array([[0.0, 0.02]]), ((0, 2 * M - 2), (0, L - 2)))), np.array([0.8, 1.5]))
    spectral = lambda s: {'vorticity': s.vorticity, 'divergence': s.divergence, 'potential': s.potential}
    conserved = ('vorticity', 'divergence', 'potential')
  else:
    specs = harness.pe_specs()
    coords = harness.make_coords(shape, bnds, impl=impl, radius=specs.radius)
    g = coords.horizontal
    alphabet = harness.pe_alphabet(K, 1, M)
    msets = harness.multisets(len(alphabet), 1)
    st = harness.states_from_multisets(alphabet, msets, K, M, L, pal)
    tref = np.linspace(220.0, 290.0, K)
    extra_v, extra_d, extra_t, extra_p = [], [], [], []
    # shipped initial conditions, top wavenumber clipped (admissible states), on the same grid
    for name in ('isothermal_rest', 'steady_jw', 'steady_jw+perturbation'):
      if name == 'isothermal_rest':
        fn, aux = pes.isothermal_rest_atmosphere(coords, specs, p0=1e5 * scales.units.pascal, p1=5e3 * scales.units.pascal)
        s0 = fn(jax.random.PRNGKey(0))
      else:
        fn, aux = pes.steady_state_jw(coords, specs)
        s0 = fn()
        if name.endswith('perturbation'):
          s0 = s0 + pes.baroclinic_perturbation_jw(coords, specs)
      s0 = g.clip_wavenumbers(s0)
      # admissible states have zero-mean vorticity and divergence; the analytic perturbation only has it up to the
      # quadrature error of this coarse grid
      s0 = s0.replace(vorticity=s0.vorticity.at[:, 0, 0].set(0.0), divergence=s0.divergence.at[:, 0, 0].set(0.0))
      extra_v.append(harness.to_real_layout(s0.vorticity, shape, impl)); extra_d.append(harness.to_real_layout(s0.divergence, shape, impl))
      extra_t.append(harness.to_real_layout(s0.temperature_variation, shape, impl)); extra_p.append(harness.to_real_layout(s0.log_surface_pressure, shape, impl))
    # roots with energy at the highest retained total wavenumber l = L-2 (admissible: below the clipped one), one per field
    for fi, fname in enumerate(('vorticity', 'divergence', 'temperature', 'lnps')):
      z = {f: np.zeros((1 if f == 'lnps' else K, 2 * M - 1, L)) for f in ('vorticity', 'divergence', 'temperature', 'lnps')}
      for i in (0, 1, 2 * M - 2):
        z[fname][0, i, L - 2] = harness.UNIT_AMPLITUDE[fname] * (1.0 - 0.25 * i / (2 * M))
        if fname != 'lnps':
          z[fname][K - 1, i, L - 2] = -0.5 * harness.UNIT_AMPLITUDE[fname]
      extra_v.append(z['vorticity']); extra_d.append(z['divergence']); extra_t.append(z['temperature']); extra_p.append(z['lnps'])
    cat = lambda a, ex: np.concatenate([a, np.stack(ex)], axis=0)
    vor, div, tmp, lps = cat(st['vorticity'], extra_v), cat(st['divergence'], extra_d), cat(st['temperature'], extra_t), cat(st['lnps'], extra_p)
    B = vor.shape[0]
    tracers = {}
    uni = np.zeros((B, K, 2 * M - 1, L)); uni[:, :, 0, 0] = 0.7 * harness.SQRT4PI
    tracers['uniform'] = uni
    if cls.startswith('Moist'):
      q = np.zeros((B, K, 2 * M - 1, L)); q[:, :, 0, 0] = 0.01 * harness.SQRT4PI; q[:, 1, 1, 1] = 2e-3
      tracers['specific_humidity'] = q
    orog = np.zeros((2 * M - 1, L)); orog[0, 1] = 2e-4; orog[1, 1] = 1.4e-4; orog[2, 2] = -0.6e-4
    # a modal orography need not be truncated (filtered_modal_orography / a plain to_modal keep the top total wavenumber):
    # the tendency it forces must still be clipped
    orog[0, L - 1] = 1.0e-4; orog[1, L - 1] = -0.7e-4; orog[2 * M - 2, L - 1] = 0.4e-4
    eq = harness.make_pe(cls, coords, tref, orog, specs, impl=impl)
    t0 = 0.25
    root = harness.pe_state(cls, coords, impl, vor, div, tmp, lps, tracers=tracers, sim_time=np.full(B, t0) if cls != 'PrimitiveEquations' else 0.0)
    spectral = lambda s: dict(vorticity=s.vorticity, divergence=s.divergence, temperature=s.temperature_variation, lnps=s.log_surface_pressure,
                              **{'tracer:' + k: v for k, v in s.tracers.items()})
    conserved = ('vorticity', 'divergence')

  gmask = np.asarray(g.mask, dtype=bool)
  dead = ~gmask
  dead[:, L - 1:] = True          # clipped top total wavenumber and everything beyond it

  # ---- action alphabet -------------------------------------------------------------------------------
  if is_sw:
    expf = ti.exponential_leapfrog_step_filter(g, dt)
    expc = ti.exponential_leapfrog_step_filter(g, dt, tau=0.02, order=2, cutoff=0.5)      # non-default cutoff and order
    ra = ti.robert_asselin_leapfrog_filter(0.05)
    lf = ti.semi_implicit_leapfrog(eq, dt)
    stacks = {'none': [], 'exp': [expf], 'ra': [ra], 'exp,ra': [expf, ra], 'exp(cutoff=.5),ra': [expc, ra], 'ra,exp': [ra, expf]}
    if not unit['full']:
      stacks.pop('ra,exp')
    actions = {('leapfrog', k): jax.jit(jax.vmap(ti.step_with_filters(lf, v))) for k, v in stacks.items()}
    first = jax.jit(jax.vmap(ti.backward_forward_euler(eq, dt)))
    start = (root, first(root))
    newest = lambda s: s[1]
    nsteps0 = 1
  else:
    expf = ti.exponential_step_filter(g, dt)
    expc = ti.exponential_step_filter(g, dt, tau=0.02, order=2, cutoff=0.5)              # non-default cutoff and order
    dif = ti.horizontal_diffusion_step_filter(g, dt, tau=0.05, order=2)
    spec = [('sil3', ti.imex_rk_sil3, 'exp', [expf]), ('rk3', ti.crank_nicolson_rk3, 'diffusion', [dif]),
            ('rk2', ti.crank_nicolson_rk2, 'exp(cutoff=.5)', [expc]), ('euler', ti.backward_forward_euler, 'exp,diffusion', [expf, dif])]
    if unit['full']:
      spec += [('rk4', ti.crank_nicolson_rk4, 'diffusion,exp', [dif, expf]), ('sil3', ti.imex_rk_sil3, 'none', []), ('rk2', ti.crank_nicolson_rk2, 'none', [])]
    actions = {(a, fn_): jax.jit(jax.vmap(ti.step_with_filters(integ(eq, dt), fl))) for a, integ, fn_, fl in spec}
    start = root
    newest = lambda s: s
    nsteps0 = 0

  init = {k: np.asarray(v) for k, v in spectral(newest(start)).items()}
  init00 = {k: init[k][..., 0, 0].copy() for k in conserved}
  if is_sw:
    init00 = {k: np.asarray(spectral(root)[k])[..., 0, 0] for k in conserved}
  scale = {k: max(1e-6, float(np.abs(v).max())) for k, v in init.items()}

  def check(state, nsteps, key, parent_hash):
    s = newest(state)
    sp = {k: np.asarray(v) for k, v in spectral(s).items()}
    h = _hash(state)
    rec.case(key, transitions=1, outcome=h, nontrivial=h != parent_hash,
             sample={'config': ctag, 'actions': key[2], 'roots': B} if len(key[2]) in (0, 3) else None)
    for name, arr in sp.items():
      rec.zero(arr[..., dead], site='truncated_entries_stay_exactly_zero', key=key, sig={'field': name})
      rec.finite(arr, site='state_finite', key=key)
    for name in conserved:
      rec.close(sp[name][..., 0, 0], init00[name], scale=scale[name] * (nsteps + 1), site='global_mean_conserved:' + name, key=key)
    if 'tracer:uniform' in sp:
      u = sp['tracer:uniform']
      want = np.zeros_like(u); want[..., 0, 0] = 0.7 * harness.SQRT4PI
      rec.close(u, want, scale=0.7 * harness.SQRT4PI * (nsteps + 1), C=1e5, site='uniform_tracer_stays_uniform', key=key)
    if hasattr(s, 'sim_time'):
      rec.close(np.asarray(s.sim_time), t0 + nsteps * dt, scale=(nsteps + 1) * max(1.0, t0 + nsteps * dt), C=16, site='sim_time_advances_by_dt', key=key)
    return h

  # ---- BFS over action sequences ------------------------------------------------------------------------
  seen = set()
  h0 = check(start, nsteps0, ('bfs', ctag, []), b'')
  seen.add(h0)
  frontier = [([], start, h0)]
  names = list(actions)
  for depth in range(1, unit['depth'] + 1):
    nxt = []
    for seq, state, ph in frontier:
      for a in names:
        new = actions[a](state)
        seq2 = seq + ['+'.join(a)]
        h = check(new, nsteps0 + depth, ('bfs', ctag, seq2), ph)
        if h in seen:
          rec.note('merged_states')
          continue
        seen.add(h)
        nxt.append((seq2, new, h))
    frontier = nxt
  # ---- long single-action chains ----------------------------------------------------------------------------
  for a in names:
    state, ph = start, h0
    for k in range(1, unit['chain'] + 1):
      state = actions[a](state)
      if k > unit['depth']:
        ph = check(state, nsteps0 + k, ('chain', ctag, ['+'.join(a)] * k), ph)

  # ---- filters and the implicit solve never touch the clock -----------------------------------------------
  if not is_sw and hasattr(root, 'sim_time'):
    key = ('clock_untouched', ctag)
    rec.case(key, transitions=4, outcome=None)
    for fname, f in (('exponential', expf), ('exponential(cutoff=.5)', expc), ('diffusion', dif)):
      out = jax.vmap(lambda s: f(s, s))(root)
      rec.exact(np.asarray(out.sim_time), np.asarray(root.sim_time), site='filters_leave_sim_time_bit_identical', key=key, sig={'filter': fname})
    for eta in (dt, -0.3):
      out = jax.vmap(lambda s: eq.implicit_inverse(s, eta))(root)
      rec.exact(np.asarray(out.sim_time), np.asarray(root.sim_time), site='implicit_solve_leaves_sim_time_bit_identical', key=key)
    imp = jax.vmap(eq.implicit_terms)(root)
    rec.zero(np.asarray(imp.sim_time), site='implicit_terms_clock_tendency_zero', key=key)
    # the semi-implicit leapfrog (centred and off-centred) advances the clock by dt per step as well
    for alpha in (0.5, 0.625, 0.75):
      key = ('leapfrog_clock', ctag, alpha)
      lf = jax.jit(jax.vmap(ti.step_with_filters(ti.semi_implicit_leapfrog(eq, dt, alpha), [ti.robert_asselin_leapfrog_filter(0.05)])))
      pair = (root, jax.vmap(ti.backward_forward_euler(eq, dt))(root))
      for k in range(1, 4):
        pair = lf(pair)
        rec.close(np.asarray(pair[1].sim_time), t0 + (k + 1) * dt, scale=(k + 2) * max(1.0, t0), C=16, site='sim_time_advances_by_dt', key=key, sig={'integrator': 'semi_implicit_leapfrog', 'alpha': alpha})
        rec.close(np.asarray(pair[0].sim_time), t0 + k * dt, scale=(k + 2) * max(1.0, t0), C=16, site='sim_time_advances_by_dt', key=key, sig={'integrator': 'semi_implicit_leapfrog', 'alpha': alpha, 'level': 'current'})
      rec.case(key, transitions=3, outcome=np.asarray(pair[1].sim_time).tobytes())
