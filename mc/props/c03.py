"""C03: the implicit solve is the exact inverse of (1 - step * implicit tendency).

Every configuration (sigma level set x reference-temperature profile x gas constants x horizontal grid/layout)
is built on the real code; for every step size, every solve strategy (split / stacked / blockwise) and every
vertical matrix-product strategy (dense / sparse / default), EVERY unit vector e_(field, level) (x) e_(m,l) of the
state space (divergence, temperature, ln ps; vorticity and tracers must pass through unchanged) is pushed
through  implicit_inverse(x - eta * implicit_terms(x), eta)  and must come back as x within
C*eps*cond(I - eta*L_l), where the per-wavenumber matrix L_l is built independently by the reference from
the documented vertical operators (mc/ref/sigma.py).  implicit_terms itself is compared with the
reference matrices, all strategies are compared pairwise, and the same is done through
TimeReversedImExODE and for the layered shallow-water system.  Linearity makes the basis enumeration a
statement about all states of each configuration.

Extensions after the seeded-breakage rounds (DESIGN.md 8.5): The padded layout runs on a sphere of radius 0.4 so that the quick tier covers radius != 1.
"""
import itertools
import numpy as np

from mc import core, harness
from mc.ref import sigma as rs
from mc.ref import sphere

ID = 'C03'
TECHNIQUE = 'bounded-exhaustive enumeration of vertical discretisations x profiles x step sizes x solve/matmul strategies x every state basis vector; resolvent identity + reference operator matrices'
ASSUMPTIONS = [
    'mc/ref/sigma.py: G and H matrices assembled from the documented continuous terms; numpy.linalg for condition numbers',
    'linearity + complete basis per configuration; superpositions checked on the palette',
    'cells whose reference matrix has cond > 1e8 are counted as vacuous, not asserted',
]
RULE = ('case = (level set, profile, constants, grid/layout, eta, solve method, matmul method); each case pushes every state basis vector '
        '(transitions); non-trivial = output not identically zero; distinct outcomes = distinct output byte patterns')

ETAS = (0.01, -0.01, 0.3, -0.3, 5.0, -5.0)
RADII = {'real': 1.0, 'fast_padded': 0.4, 'real_wide': 2.5}
GRIDS = {'real': ([4, 5, 13, 7], 'real'), 'fast_padded': ([4, 5, 13, 7], ['fast', 4, True, False]), 'real_wide': ([3, 5, 8, 5], 'real'),
         'fast_unpadded': ([5, 6, 16, 8], ['fast', 1, False, True])}
SOLVE = ('split', 'stacked', 'blockwise')
MATMUL = ('dense', 'sparse', None)


def _profiles(K):
  k = np.arange(K)
  return {'constant': np.full(K, 250.0), 'linear': np.linspace(200.0, 300.0, K) if K > 1 else np.array([231.0]),
          'zigzag': 250.0 + 20.0 * (-1.0) ** k}


def bounds(tier):
  return dict(level_sets='tenths lattice K<=%d + 2 irregular' % (3 if tier == 'quick' else 9), profiles=['constant', 'linear', 'zigzag'],
              constants=['default', '(1.7 R, kappa 0.4)'], etas=list(ETAS), grids=list(GRIDS) if tier == 'thorough' else ['real', 'fast_padded'],
              solve=list(SOLVE), matmul=['dense', 'sparse', 'None'], shallow_water='K=1..4 x 2 density vectors x 2 reference potentials x etas')


def units(tier, seed):
  pal = core.palette(seed, tier)
  sets = rs.tenths_level_sets(3 if tier == 'quick' else None) + [list(b) for b in rs.IRREGULAR]
  us = []
  for b in sets:
    K = len(b) - 1
    for const in ('default', 'alt'):
      if tier == 'quick' and const == 'alt' and not (K <= 2 or b in [list(x) for x in rs.IRREGULAR]):
        continue
      grids = list(GRIDS) if tier == 'thorough' else ['real', 'fast_padded']
      if tier == 'thorough' and K > 5:
        grids = ['real', 'fast_padded']
      us.append(dict(kind='pe', b=b, const=const, grids=grids, palette=pal[0]))
  for K in (1, 2, 3, 4):
    us.append(dict(kind='sw', K=K, palette=pal[0]))
  return us


def _ref_matrices(r, tref, R, kappa, lam, eta):
  """per-wavenumber matrix of implicit_terms on (div[K], temp[K], lnps[1]) and I - eta*L, shape (L, 2K+1, 2K+1)"""
  K = r.K
  G = r.G(R); H = r.H(tref, kappa)
  n = 2 * K + 1
  Ls = np.zeros((len(lam), n, n))
  for li, lm in enumerate(lam):
    Lm = np.zeros((n, n))
    Lm[:K, K:2 * K] = -lm * G
    Lm[:K, 2 * K] = -lm * R * tref
    Lm[K:2 * K, :K] = -H
    Lm[2 * K, :K] = -r.ds
    Ls[li] = Lm
  return Ls


def _pe_unit(unit, rec):
  import jax, jax.numpy as jnp
  import dataclasses
  from dinosaur import primitive_equations as pe
  from dinosaur import time_integration as ti
  b = unit['b']; K = len(b) - 1
  r = rs.Sigma(b)
  btag = [round(v, 3) for v in b]
  base_specs = harness.pe_specs()
  if unit['const'] == 'alt':
    specs = dataclasses.replace(base_specs, ideal_gas_constant=1.7 * base_specs.ideal_gas_constant, kappa=0.4)
  else:
    specs = base_specs
  R, kappa = specs.R, specs.kappa
  for gname in unit['grids']:
    shape, impl = GRIDS[gname]
    shape = tuple(shape); impl = impl if isinstance(impl, str) else tuple(impl)
    M, L = shape[0], shape[1]
    rows = 2 * M - 1
    radius = RADII.get(gname, 1.0)       # the padded fast layout runs on a sphere of radius 0.4 so that the quick tier covers radius != 1
    coords = harness.make_coords(shape, b, impl=impl, radius=radius)
    lam = -np.arange(L) * (np.arange(L) + 1) / radius ** 2
    mask = sphere.real_mask(M, L)
    pos = [(i, l) for i in range(rows) for l in range(L) if mask[i, l]]
    # unit vectors: (field, level) x (row, l); fields: 0 div, 1 temp, 2 lnps
    comps = [(0, k) for k in range(K)] + [(1, k) for k in range(K)] + [(2, 0)]
    B = len(comps) * len(pos)
    div = np.zeros((B, K, rows, L)); tmp = np.zeros((B, K, rows, L)); lps = np.zeros((B, 1, rows, L))
    vor = np.zeros((B, K, rows, L)); trc = np.zeros((B, K, rows, L))
    amp = unit['palette'][0]
    for ci, (f, k) in enumerate(comps):
      for pi, (i, l) in enumerate(pos):
        bidx = ci * len(pos) + pi
        (div, tmp, lps)[f][bidx, k, i, l] = amp
        vor[bidx, (k + 1) % K, i, l] = 0.5 * amp          # passengers: must come back bit-identical
        trc[bidx, k % K, i, l] = -2.0 * amp
    for pname, tref in _profiles(K).items():
      state = harness.pe_state('PrimitiveEquations', coords, impl, vor, div, tmp, lps, tracers={'c': trc})
      # reference matrices and expected implicit terms
      Lref = _ref_matrices(r, tref, R, kappa, lam, 0.0)
      for matmul in MATMUL:
        eq = pe.PrimitiveEquations(tref, jnp.zeros(coords.horizontal.modal_shape), coords, specs, vertical_matmul_method=matmul)
        imp = jax.vmap(eq.implicit_terms)(state)
        imp_r = harness.pe_tendency_to_real(imp, shape, impl)
        key = ('implicit_terms', btag, unit['const'], gname, pname, str(matmul))
        rec.case(key, transitions=B, outcome=imp_r['divergence'].tobytes() + imp_r['temperature'].tobytes(),
                 sample={'levels': btag, 'profile': pname, 'constants': unit['const'], 'grid': gname, 'matmul': str(matmul), 'basis_vectors': B})
        # expected: column of L_l for each unit vector
        want_d = np.zeros_like(div); want_t = np.zeros_like(tmp); want_p = np.zeros_like(lps)
        for ci, (f, k) in enumerate(comps):
          col = (k if f == 0 else K + k if f == 1 else 2 * K)
          for pi, (i, l) in enumerate(pos):
            bidx = ci * len(pos) + pi
            c = Lref[l][:, col] * amp
            want_d[bidx, :, i, l] = c[:K]; want_t[bidx, :, i, l] = c[K:2 * K]; want_p[bidx, 0, i, l] = c[2 * K]
        sc = amp * max(1.0, float(np.abs(Lref).max()))
        rec.close(imp_r['divergence'], want_d, scale=sc, site='implicit_terms_vs_reference:divergence', key=key, sig={'matmul': str(matmul)})
        rec.close(imp_r['temperature'], want_t, scale=sc, site='implicit_terms_vs_reference:temperature', key=key, sig={'matmul': str(matmul)})
        rec.close(imp_r['lnps'], want_p, scale=sc, site='implicit_terms_vs_reference:lnps', key=key, sig={'matmul': str(matmul)})
        rec.zero(imp_r['vorticity'], site='implicit_terms_vorticity_zero', key=key)
        rec.zero(imp_r['tracers']['c'], site='implicit_terms_tracers_zero', key=key)
        for eta in ETAS:
          A = np.eye(2 * K + 1)[None] - eta * Lref
          conds = np.array([np.linalg.cond(A[l]) for l in range(L)])
          okl = conds <= 1e8
          if not okl.all():
            rec.note('ill_conditioned_wavenumbers_not_asserted', int((~okl).sum()))
          condmax = float(conds[okl].max()) if okl.any() else 1.0
          rhs = jax.tree_util.tree_map(lambda x, g: x - eta * g, state, imp)
          outs = {}
          for method in SOLVE:
            key = ('resolvent', btag, unit['const'], gname, pname, str(matmul), eta, method)
            if not rec.want(key):
              continue
            try:
              out = jax.vmap(lambda s: eq.implicit_inverse(s, eta, method=method))(rhs)
            except (AssertionError, np.linalg.LinAlgError):
              rec.note('singular_matrix_rejected_by_library')
              continue
            out_r = harness.pe_tendency_to_real(out, shape, impl)
            outs[method] = out_r
            rec.case(key, transitions=B, outcome=out_r['divergence'].tobytes() + out_r['temperature'].tobytes() + out_r['lnps'].tobytes())
            lsel = okl[None, None, None, :]
            sg = {'method': method, 'matmul': str(matmul)}
            rec.close(np.where(lsel, out_r['divergence'], 0), np.where(lsel, div, 0), scale=amp * condmax, site='resolvent_identity:divergence', key=key, sig=sg)
            rec.close(np.where(lsel, out_r['temperature'], 0), np.where(lsel, tmp, 0), scale=amp * condmax * 300, site='resolvent_identity:temperature', key=key, sig=sg)
            rec.close(np.where(lsel, out_r['lnps'], 0), np.where(lsel, lps, 0), scale=amp * condmax, site='resolvent_identity:lnps', key=key, sig=sg)
            rec.exact(out_r['vorticity'], vor, site='resolvent_passes_vorticity_through', key=key)
            rec.exact(out_r['tracers']['c'], trc, site='resolvent_passes_tracers_through', key=key)
            full = np.asarray(out.divergence)
            rec.finite(full, site='resolvent_finite_incl_padding', key=key)
          for method in ('stacked', 'blockwise'):
            if method in outs and 'split' in outs:
              key = ('methods_agree', btag, unit['const'], gname, pname, str(matmul), eta, method)
              for f, s_ in (('divergence', 1.0), ('temperature', 300.0), ('lnps', 1.0)):
                rec.close(np.where(lsel, outs[method][f], 0), np.where(lsel, outs['split'][f], 0), scale=amp * condmax * s_, site='solve_methods_agree', key=key, sig={'method': method})
        # time-reversed ODE: same identity with the sign of the operator flipped
        rev = ti.TimeReversedImExODE(eq)
        for eta in (0.3, -5.0):
          key = ('time_reversed', btag, unit['const'], gname, pname, str(matmul), eta)
          A = np.eye(2 * K + 1)[None] + eta * Lref
          conds = np.array([np.linalg.cond(A[l]) for l in range(L)])
          if conds.max() > 1e8:
            rec.note('ill_conditioned_wavenumbers_not_asserted', 1)
            continue
          imp_rev = jax.vmap(rev.implicit_terms)(state)
          rhs = jax.tree_util.tree_map(lambda x, g: x - eta * g, state, imp_rev)
          out_r = harness.pe_tendency_to_real(jax.vmap(lambda s: rev.implicit_inverse(s, eta))(rhs), shape, impl)
          rec.case(key, transitions=B, outcome=out_r['divergence'].tobytes())
          rec.close(out_r['divergence'], div, scale=amp * conds.max(), site='time_reversed_resolvent:divergence', key=key)
          rec.close(out_r['temperature'], tmp, scale=amp * conds.max() * 300, site='time_reversed_resolvent:temperature', key=key)
          rec.close(out_r['lnps'], lps, scale=amp * conds.max(), site='time_reversed_resolvent:lnps', key=key)
      # matrix-free operators equal the dense ones on every basis vector (also covered by C13 per level set)
      key = ('sparse_equals_dense', btag, unit['const'], gname, pname)
      d_ = jnp.asarray(harness.from_real_layout(div[:K * len(pos)], coords.horizontal, impl))
      dense = np.asarray(jax.vmap(lambda x: pe.get_temperature_implicit(x, coords.vertical, tref, kappa, 'dense'))(d_))
      sparse = np.asarray(jax.vmap(lambda x: pe.get_temperature_implicit(x, coords.vertical, tref, kappa, 'sparse'))(d_))
      rec.case(key, transitions=2 * K * len(pos), outcome=sparse.tobytes())
      rec.close(sparse, dense, scale=amp * max(1.0, float(np.abs(dense).max())), site='temperature_implicit_sparse_equals_dense', key=key)
      gd = np.asarray(jax.vmap(lambda x: pe.get_geopotential_diff(x, coords.vertical, R, 'dense'))(d_))
      gs = np.asarray(jax.vmap(lambda x: pe.get_geopotential_diff(x, coords.vertical, R, 'sparse'))(d_))
      rec.close(gs, gd, scale=amp * max(1.0, float(np.abs(gd).max())), site='geopotential_sparse_equals_dense', key=key)


def _sw_unit(unit, rec):
  import jax, jax.numpy as jnp
  from dinosaur import shallow_water as sw
  from dinosaur import scales
  K = unit['K']
  amp = unit['palette'][0]
  dens_sets = [np.linspace(0.6, 1.0, K) if K > 1 else np.array([1.0]), np.array([1.0, 1.0, 1.3, 2.0][:K])]
  pots = [np.linspace(0.5, 1.6, K) if K > 1 else np.array([1.2]), np.array([3.0, 0.2, 7.0, 0.9][:K])]
  for gname in ('real', 'fast_padded'):
    shape, impl = GRIDS[gname]; shape = tuple(shape); impl = impl if isinstance(impl, str) else tuple(impl)
    M, L = shape[0], shape[1]; rows = 2 * M - 1
    mask = sphere.real_mask(M, L)
    pos = [(i, l) for i in range(rows) for l in range(L) if mask[i, l]]
    for di, dens in enumerate(dens_sets):
      specs = sw.ShallowWaterSpecs.from_si(densities=dens * scales.WATER_DENSITY)
      coords = harness.make_coords(shape, None, impl=impl, radius=specs.radius, layers=K)
      g = coords.horizontal
      lam = -np.arange(L) * (np.arange(L) + 1) / specs.radius ** 2
      comps = [(f, k) for f in (0, 1, 2) for k in range(K)]
      B = len(comps) * len(pos)
      arrs = [np.zeros((B, K, rows, L)) for _ in range(3)]
      for ci, (f, k) in enumerate(comps):
        for pi, (i, l) in enumerate(pos):
          arrs[f][ci * len(pos) + pi, k, i, l] = amp
      conv = lambda x: jnp.asarray(harness.from_real_layout(x, g, impl))
      state = sw.State(conv(arrs[0]), conv(arrs[1]), conv(arrs[2]))
      for qi, refpot in enumerate(pots):
        eq = sw.ShallowWaterEquations(coords, specs, None, refpot)
        imp = jax.vmap(eq.implicit_terms)(state)
        # reference: d(delta)/dt = -lam * phi ; d(phi)/dt = -phi_ref * delta
        key = ('sw_implicit_terms', K, gname, di, qi)
        want_div = -lam[None, None, None, :] * arrs[2]
        want_pot = -refpot[None, :, None, None] * arrs[1]
        rec.case(key, transitions=B, outcome=np.asarray(imp.divergence).tobytes(), sample={'family': 'shallow water', 'layers': K, 'grid': gname, 'ref_potential': list(refpot)})
        sc = amp * max(1.0, float(np.abs(lam).max()), float(refpot.max()))
        rec.close(harness.to_real_layout(imp.divergence, shape, impl), want_div, scale=sc, site='sw_implicit_terms:divergence', key=key)
        rec.close(harness.to_real_layout(imp.potential, shape, impl), want_pot, scale=sc, site='sw_implicit_terms:potential', key=key)
        rec.zero(np.asarray(imp.vorticity), site='sw_implicit_terms:vorticity_zero', key=key)
        for eta in ETAS + (25.0,):
          key = ('sw_resolvent', K, gname, di, qi, eta)
          cond = 1.0
          for l in range(L):
            for k in range(K):
              A = np.array([[1.0, eta * lam[l]], [eta * refpot[k], 1.0]])
              cond = max(cond, np.linalg.cond(A))
          rhs = jax.tree_util.tree_map(lambda x, gg: x - eta * gg, state, imp)
          out = jax.vmap(lambda s: eq.implicit_inverse(s, eta))(rhs)
          rec.case(key, transitions=B, outcome=np.asarray(out.divergence).tobytes() + np.asarray(out.potential).tobytes())
          for f, got in (('vorticity', out.vorticity), ('divergence', out.divergence), ('potential', out.potential)):
            rec.close(harness.to_real_layout(got, shape, impl), arrs[('vorticity', 'divergence', 'potential').index(f)], scale=amp * cond,
                      site='sw_resolvent_identity:' + f, key=key)
          rec.finite(np.asarray(out.divergence), site='sw_resolvent_finite_incl_padding', key=key)


def work(unit, rec):
  if unit['kind'] == 'pe':
    _pe_unit(unit, rec)
  else:
    _sw_unit(unit, rec)
