"""C04: the full tendency does not depend on the reference-temperature split.

For every configuration (equation class x sigma level set x grid/layout x orography x tracer set) the same
physical atmospheres -- all multisets of <= d unit excitations with the ABSOLUTE temperature held fixed --
are evaluated with explicit_terms + implicit_terms under five different reference profiles.  All ten pairs
must agree (metamorphic oracle), and for the dry/moist classes each must agree with the reference model of
the continuous equations, which has no reference profile at all.  With the absolute temperature fixed the
profile-dependent part of the dry tendency is a polynomial of degree <= 2 in the state, for which the
depth-2 simplex lattice is unisolvent; one configuration per tier is run to depth 3.

Extensions after the seeded-breakage rounds (DESIGN.md 8.5): States with signal at the highest retained wavenumber l = L-2 in every field and in the moisture fields are included (metamorphic oracle only); the profiles include one with two equal adjacent layers; every profile is also evaluated through ONE long-lived equation object whose reference_temperature field is rebound.
"""
import itertools
import numpy as np

from mc import core, harness
from mc.ref import sphere

ID = 'C04'
TECHNIQUE = 'bounded-exhaustive enumeration of configurations x reference-profile pairs x simplex lattice of states; metamorphic equality + profile-free reference model'
ASSUMPTIONS = [
    'mc/ref/pe.py as profile-free definition of the total tendency (dry and moist classes)',
    'unisolvence of the simplex lattice for the (<= quadratic) profile-dependent part of the dry tendency; moist/cloud: lattice statement only',
    'finding F6 (cloud class) is identified by its residual model R*(TrefA-TrefB)*(ql+qi)*grad(ln ps); anything else is a violation',
]
RULE = ('case = (configuration, state multiset, palette); each case evaluates 5 reference profiles (transitions) and all 10 pairs; '
        'non-trivial = tendency not identically zero; distinct outcomes = distinct tendency byte patterns')

LEVELS = {1: [0.0, 1.0], 2: [0.0, 0.3, 1.0], 3: [0.0, 0.2, 0.55, 1.0], 4: [0.0, 0.1, 0.3, 0.6, 1.0], 5: [0.0, 0.07, 0.3, 0.45, 0.8, 1.0]}
RESIDUAL_MODEL = 'R*(TrefA-TrefB)*(ql+qi)*grad(ln ps)'


def profiles(K):
  k = np.arange(K)
  out = [np.full(K, 250.0), np.linspace(200.0, 300.0, K) if K > 1 else np.array([230.0]), 250.0 + 20.0 * (-1.0) ** k,
         np.full(K, 288.0), np.linspace(290.0, 210.0, K) if K > 1 else np.array([301.0])]
  if K >= 3:
    # isothermal "stratosphere" over a lapse-rate troposphere: non-constant, but two adjacent layers are equal
    strat = np.concatenate([[216.65, 216.65], np.linspace(231.0, 288.0, K - 2)])
    out.append(strat)
  return out


def tabs(K):
  return np.linspace(215.0, 292.0, K) + 6.0 * (-1.0) ** np.arange(K) if K > 1 else np.array([262.0])


def bounds(tier):
  return dict(classes=list(harness.PE_CLASSES), level_sets=[LEVELS[k] for k in ((1, 2, 3, 4) if tier == 'quick' else (1, 2, 3, 4, 5))], level_sets_note='quick: the four-layer set runs for the dry and time-carrying classes only',
              grids='cubic-dealiased M=7 (dry) / (7,8,36,18) (moist, cloud); real + padded fast layout',
              orography=['none', 'degree-2'], tracer_sets=['minimal', 'plus two passive tracers'], reference_profiles='5 (+ an isothermal-stratosphere profile with two equal adjacent layers when K >= 3); every profile also through ONE re-used equation object whose reference_temperature field is rebound',
              state_lattice='depth 2, lmax=1 (depth 3 on one dry configuration%s)' % ('' if tier == 'quick' else ' and on one configuration per class'),
              top_wavenumber_states='depth-2 lattice over the lmax=1 alphabet + excitations of every field at l = L-2 (3 orders m, top and bottom level), moisture / tracer fields with signal at l = L-2; metamorphic oracle only')


def units(tier, seed):
  pal = core.palette(seed, tier)
  us = []
  ks = (1, 2, 3, 4) if tier == 'quick' else (1, 2, 3, 4, 5)
  for cls in harness.PE_CLASSES:
    moist = cls.startswith('Moist')
    shape = [7, 8, 36, 18] if moist else list(harness.with_wavenumbers_shape(7, 'cubic'))
    for K in ks:
      if tier == 'quick' and moist and K == 4:
        continue      # (cost) four moist layers x 1,035 lattice states x 6 profiles + the moist reference model: thorough tier only
      for impl in ('real', ['fast', 2, True, True]):
        for orog in (False, True):
          for extra in (False, True):
            if tier == 'quick' and ((impl != 'real' and (K not in (2, 3))) or (extra and K not in (1, 3))):
              continue
            for p in pal:
              us.append(dict(cls=cls, K=K, shape=shape, impl=impl, orog=orog, extra=extra, depth=2, palette=p))
    # states with signal at the highest retained total wavenumber l = L-2 in every field and in the moisture fields
    # (admissible states; products alias there, so only the metamorphic oracle applies)
    for K in ((3,) if tier == 'quick' else (2, 3, 4)):
      for impl in ('real', ['fast', 2, True, True]):
        if tier == 'quick' and impl != 'real':
          continue
        us.append(dict(cls=cls, K=K, shape=shape, impl=impl, orog=True, extra=(tier == 'thorough'), depth=2, palette=pal[0], top=True))
    deep = (3,) if tier == 'quick' and cls in ('PrimitiveEquations',) else ((3,) if tier == 'thorough' else ())
    for K in deep:
      n = len(harness.pe_alphabet(K, 1, shape[0]))
      total = sum(_count(n, d) for d in range(4))
      for start in range(0, total, 1300):
        us.append(dict(cls=cls, K=K, shape=shape, impl='real', orog=True, extra=False, depth=3, palette=pal[0], start=start, stop=min(total, start + 1300)))
  return us


def _count(n, d):
  from math import comb
  return comb(n + d - 1, d)


def _orography(M, L, amp=2e-4):
  o = np.zeros((2 * M - 1, L))
  o[0, 1] = amp; o[0, 2] = -0.5 * amp; o[1, 1] = 0.7 * amp; o[2, 2] = -0.3 * amp; o[3, 2] = 0.4 * amp
  return o


def _tracer_fields(names, K, M, L):
  out = {}
  for j, name in enumerate(names):
    x = np.zeros((K, 2 * M - 1, L))
    if name == 'specific_humidity':
      x[:, 0, 0] = 0.01 * harness.SQRT4PI * np.linspace(1.0, 0.3, K)
      x[K // 2, 1, 1] = 2e-3; x[0, 0, 1] = -1.5e-3
    elif name.startswith('specific_cloud'):
      x[:, 0, 0] = (2e-3 if 'liquid' in name else 1e-3) * harness.SQRT4PI * np.linspace(0.5, 1.0, K)
      x[K - 1, 2, 1] = 4e-4 if 'liquid' in name else -3e-4
      x[0, 0, 1] = 2e-4
    else:
      x[:, 0, 0] = (j + 1.0) * harness.SQRT4PI
      x[K // 2, 2, 1] = 0.3 * (j + 1); x[K - 1, 0, 1] = -0.2
    out[name] = x
  return out


def work(unit, rec):
  import jax
  cls = unit['cls']; K = unit['K']
  shape = tuple(unit['shape']); M, L = shape[0], shape[1]
  impl = unit['impl'] if isinstance(unit['impl'], str) else tuple(unit['impl'])
  moist = cls.startswith('Moist'); cloud = cls.endswith('CloudMoisture')
  bnds = LEVELS[K]
  specs = harness.pe_specs()
  coords = harness.make_coords(shape, bnds, impl=impl, radius=specs.radius)
  orog = _orography(M, L) if unit['orog'] else np.zeros((2 * M - 1, L))
  names = []
  if moist:
    names.append('specific_humidity')
  if cloud:
    names += list(harness.CLOUD_TRACERS)
  if unit['extra']:
    names += (['tracer_a', 'tracer_b'] if moist else ['specific_humidity', 'tracer_b'])
  pal = unit['palette']
  alphabet = harness.pe_alphabet(K, 1, M)
  top = bool(unit.get('top'))
  if top:
    # cost: the top-wavenumber lattice keeps the surface-pressure excitations of the l <= 1 alphabet (the defects of this
    # kind need grad ln ps != 0) and adds the l = L-2 excitations of every field
    alphabet = [e for e in alphabet if e[0] == 'lnps']
    for field in ('vorticity', 'divergence', 'temperature', 'lnps'):
      for k in ((0,) if field == 'lnps' else sorted({0, K - 1})):
        for i in (0, 1, 2 * M - 2):
          alphabet.append((field, k, i, L - 2))
  msets = harness.multisets(len(alphabet), unit['depth'])
  if 'start' in unit:
    msets = msets[unit['start']:unit['stop']]
  B = len(msets)
  st = harness.states_from_multisets(alphabet, msets, K, M, L, pal)
  T_abs = tabs(K)
  tr1 = _tracer_fields(names, K, M, L)
  if top:
    for j, n in enumerate(names):
      amp = float(np.abs(tr1[n][:, 1:, :]).max() or np.abs(tr1[n]).max()) * 0.5
      tr1[n][K // 2, 1, L - 2] += amp; tr1[n][0, 0, L - 2] -= 0.5 * amp; tr1[n][K - 1, 2 * M - 2, L - 2] += 0.25 * amp
  tracers = {k: np.broadcast_to(v, (B,) + v.shape).copy() for k, v in tr1.items()}
  cfg_key = [cls, K, list(shape), str(unit['impl']), unit['orog'], unit['extra'], unit['depth'], unit.get('start', 0)] + (['top_wavenumber'] if top else [])
  results = []
  profs = profiles(K)
  for tref in profs:
    eq = harness.make_pe(cls, coords, tref, orog, specs, impl=impl)
    temp_var = st['temperature'].copy(); temp_var[:, :, 0, 0] += harness.SQRT4PI * (T_abs - tref)
    state = harness.pe_state(cls, coords, impl, st['vorticity'], st['divergence'], temp_var, st['lnps'], tracers=tracers,
                             sim_time=np.zeros(B) if cls != 'PrimitiveEquations' else 0.0)
    results.append(harness.pe_tendency_to_real(jax.vmap(harness.total_tendency_fn(eq))(state), shape, impl))
  # the same through one long-lived equation object whose public reference_temperature field is rebound between
  # evaluations (non-frozen dataclass): anything derived from the profile must follow it
  import dataclasses
  reused = harness.make_pe(cls, coords, profs[0], orog, specs, impl=impl)
  rebind_ok = not getattr(type(reused), '__dataclass_params__', None) or not type(reused).__dataclass_params__.frozen
  results_reused = []
  # (cost) the re-used object runs on the depth-2 lattices with orography and the minimal tracer set, real layout
  if rebind_ok and not top and unit['depth'] == 2 and unit['orog'] and not unit['extra'] and impl == 'real':
    for tref in profs:
      reused.reference_temperature = np.asarray(tref, dtype=np.float64)
      temp_var = st['temperature'].copy(); temp_var[:, :, 0, 0] += harness.SQRT4PI * (T_abs - tref)
      state = harness.pe_state(cls, coords, impl, st['vorticity'], st['divergence'], temp_var, st['lnps'], tracers=tracers,
                               sim_time=np.zeros(B) if cls != 'PrimitiveEquations' else 0.0)
      results_reused.append(harness.pe_tendency_to_real(jax.vmap(harness.total_tendency_fn(reused))(state), shape, impl))
  base = max(1.0, specs.g * np.abs(orog).max() * L * (L + 1), specs.R * 300.0 * L * (L + 1) * 0.05)
  scales = dict(vorticity=base, divergence=base, temperature=300.0, lnps=1.0)
  for b, ms in enumerate(msets):
    rec.case(('state', cfg_key, list(ms), pal), transitions=len(profs), outcome=results[0]['divergence'][b].tobytes() + results[0]['temperature'][b].tobytes(),
             sample={'class': cls, 'levels': bnds, 'impl': str(unit['impl']), 'orography': unit['orog'], 'tracers': names,
                     'excitations': [list(alphabet[e]) for e in ms], 'profiles': [list(p) for p in profs]} if b in (1, B - 1) else None)
  for ip, (ra, rb) in enumerate(zip(results, results_reused)):
    key = ('reused_object', cfg_key, ip, pal)
    for f in ('vorticity', 'divergence', 'temperature', 'lnps'):
      rec.exact(rb[f], ra[f], site='rebound_reference_profile_equals_fresh_object', key=key, sig={'equation': cls, 'field': f})
  # ---- metamorphic oracle: all pairs of reference profiles ------------------------------------
  cond = None
  if cloud:
    cond = sum(tracers[n] for n in harness.CLOUD_TRACERS)
    ref0 = harness.ref_pe_for(shape, bnds, specs, degree=2, moist=True, nlat=24, nlon=30)
  for (ia, ra), (ib, rb) in itertools.combinations(enumerate(results), 2):
    key = ('pair', cfg_key, ia, ib, pal)
    dT = profs[ia] - profs[ib]
    for f in ('vorticity', 'divergence', 'temperature', 'lnps'):
      diff = ra[f] - rb[f]
      sig = {'equation': cls}
      if cloud and f in ('vorticity', 'divergence') and np.any(dT != 0):
        # finding F6: identify by the residual model; subtract nothing, only classify
        vor_m, div_m = ref0.condensate_loading_residual(st['lnps'], cond, dT)
        model = (vor_m if f == 'vorticity' else div_m)
        if np.abs(diff).max() > 1e5 * core.EPS * scales[f]:
          explained = np.abs(diff[..., :L - 1] - model[..., :L - 1]).max() <= 1e5 * core.EPS * scales[f]
          rec.margins['cloud_residual_model_explains'] = max(rec.margins.get('cloud_residual_model_explains', 0.0),
                                                             float(np.abs(diff[..., :L - 1] - model[..., :L - 1]).max() / (1e5 * core.EPS * scales[f])))
          sig['residual_model'] = RESIDUAL_MODEL if explained else 'other'
          rec.fail('tref_invariance', key, {'field': f, 'max_abs_diff': float(np.abs(diff).max()), 'explained_by_residual_model': bool(explained)}, sig)
          continue
      rec.close(ra[f], rb[f], scale=scales[f], C=1e5, site='tref_invariance', key=key, sig=sig, extra={'field': f})
    for n in names:
      rec.close(ra['tracers'][n], rb['tracers'][n], scale=max(1.0, float(np.abs(tr1[n]).max())), C=1e5, site='tref_invariance', key=key,
                sig={'equation': cls}, extra={'field': 'tracer:' + n})
  # ---- profile-free reference model (dry / moist) -----------------------------------------------
  if not cloud and not top:
    ref = harness.ref_pe_for(shape, bnds, specs, degree=1, moist=moist, **(dict(nlat=40, nlon=48) if moist else {}))
    temp_abs = st['temperature'].copy(); temp_abs[:, :, 0, 0] += harness.SQRT4PI * T_abs
    passive = {k: v for k, v in tracers.items() if k != 'specific_humidity' or not moist}
    want = ref.tendency(st['vorticity'], st['divergence'], temp_abs, st['lnps'], orog,
                        q=tracers['specific_humidity'] if moist else None, tracers=passive)
    key = ('vs_profile_free_reference', cfg_key, pal)
    sel = slice(0, L - 1)
    for f in ('vorticity', 'divergence', 'temperature', 'lnps'):
      rec.close(results[1][f][..., sel], want[f][..., sel], scale=scales[f], C=1e5, site='tendency_vs_profile_free_reference:' + f, key=key)
    for n in names:
      rec.close(results[1]['tracers'][n][..., sel], want['tracers'][n][..., sel], scale=max(1.0, float(np.abs(tr1[n]).max())), C=1e5,
                site='tendency_vs_profile_free_reference:tracer', key=key)
