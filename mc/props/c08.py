"""C08: forward- and reverse-mode derivatives are finite, mutually adjoint and correct.

For every differentiable entry point in the alphabet (transforms, dry / moist / shallow-water tendencies and
implicit solves, Held-Suarez forcing, vertical interpolation, complete steps with every integrator x filter stack,
multi-step trajectories and nested checkpointed scans) and every enumerated base state, the FULL Jacobian is
built twice on the real code -- column by column with forward mode (every tangent basis vector) and row by row
with reverse mode (every cotangent basis vector) -- and

  * every entry of both is finite,
  * J_fwd == J_rev entry by entry (this is <J v, w> = <v, J^T w> on the complete basis of v and w),
  * J_fwd equals the 4-point central difference of the primal along EVERY basis direction (exact up to rounding for
    polynomial entry points of degree <= 4; truncation << tolerance for the others, checked with the tolerance
    C_fd), skipped only where the documented function has a kink at the base point,
  * gradients through trajectory_from_step / nested_checkpoint_scan (every ordered factorisation of the length)
    equal those of the plain python loop / flat scan.

Base states: the explicit tendencies are polynomial of degree <= 3 in the state, so their Jacobian is polynomial of
degree <= 2 and is determined on the simplex lattice of <= 2 unit excitations (all multisets, BFS by "add one
excitation"); adjointness and FD agreement on that lattice therefore extend to the whole excited sub-space.  For
the other entry points (rational / transcendental / long compositions) the statement is about the enumerated base
states only (a dense all-modes state and sparse lattice states), as said in ASSUMPTIONS.
"""
import itertools
import numpy as np

from mc import core, harness

ID = 'C08'
TECHNIQUE = ('bounded-exhaustive enumeration of entry points x base states x EVERY tangent and cotangent basis vector on the real code; '
             'full forward and reverse Jacobians compared entrywise with each other and with 4-point central differences')
ASSUMPTIONS = [
    'derivatives are checked at the enumerated base states; for the polynomial tendencies (degree <= 3) the depth-2 simplex lattice determines the Jacobian on the whole excited sub-space, elsewhere the statement is small-scope',
    'finite-difference oracle: 4-point central difference with step 1e-2 of the unit amplitude, tolerance C_fd*eps*scale (C_fd=1e7, i.e. 2e-9 relative); exact for polynomial degree <= 4',
    'kinks (interpolation queries exactly at nodes, outside the safe extrapolation range) are only checked for finiteness and adjointness',
    'x64 CPU backend; jax.jacfwd / jax.jacrev drive jvp / vjp of the real functions on the complete basis',
]
RULE = ('case = (entry point, configuration, base state); each case builds the full forward and reverse Jacobian (n tangents + m cotangents) '
        'and 4n primal evaluations; distinct = hash of the Jacobian bytes; non-trivial = Jacobian not identically zero')

GRID = (3, 4, 10, 5)           # M, L, nlon, nlat
GRID_FAST = (3, 4, 10, 5)
IMPLS = {'real': 'real', 'fast_padded': ('fast', 4, True, False)}
LEVELS = {'uneven3': [0.0, 0.2, 0.55, 1.0], 'even2': [0.0, 0.5, 1.0]}
DT = 0.01
C_FD = 1e7
H = 1e-2
C_FD_INTERP = 4.5e9   # 1e-6 relative for the interpolation routines (rational dependence on the node positions)
H_KINK = 1e-6        # step (in units of the natural amplitude) at base points that sit on a kink
C_KINK = 4.5e11      # 1e-4 relative: O(h) truncation of the central difference at a kink + rounding eps/h

INTEGRATORS = ('euler', 'rk2', 'rk3', 'rk4', 'sil3')
FILTERS = ('none', 'exp', 'diffusion', 'exp+diffusion')


def bounds(tier):
  return dict(grid=list(GRID), impls=list(IMPLS), level_sets=LEVELS, dt=DT, fd_step=H, C_fd=C_FD,
              integrators=list(INTEGRATORS), filter_stacks=list(FILTERS),
              tendency_lattice_depth=1 if tier == 'quick' else 2,
              step_base_states='dense + 2 sparse' if tier == 'quick' else 'dense + every single excitation l<=1 of one level + 4 double excitations',
              scan_lengths=[4, 6] if tier == 'quick' else [4, 6, 8, 12],
              interp_nodes='all strictly increasing subsets of size 2..4 of {0, .25, .5, 1, 2}', interp_queries='step 1/8 in [-1, 3]')


def units(tier, seed):
  pal = core.palette(seed, tier)[0]
  us = []
  for impl in IMPLS:
    for spacing in ('gauss', 'equiangular'):
      us.append(dict(kind='transform', impl=impl, spacing=spacing))
  depth = 1 if tier == 'quick' else 2
  for cls in ('PrimitiveEquations', 'MoistPrimitiveEquations', 'MoistPrimitiveEquationsWithCloudMoisture', 'ShallowWater'):
    for impl in (('real',) if tier == 'quick' and cls != 'PrimitiveEquations' else tuple(IMPLS)):
      us.append(dict(kind='tendency', cls=cls, impl=impl, levels='even2', depth=depth, palette=pal))
  # complete steps
  for integ in INTEGRATORS:
    for filt in FILTERS:
      if tier == 'quick' and (INTEGRATORS.index(integ) + FILTERS.index(filt)) % 2:
        continue     # quick: a checkerboard of the integrator x filter table (every integrator and every stack appears)
      us.append(dict(kind='step', cls='PrimitiveEquations', integ=integ, filt=filt, forcing=(filt == 'exp'), impl='real', levels='uneven3',
                     full=tier == 'thorough', palette=pal))
  us.append(dict(kind='step', cls='PrimitiveEquations', integ='sil3', filt='exp+diffusion', forcing=True, impl='fast_padded', levels='uneven3',
                 full=tier == 'thorough', palette=pal))
  for integ in (('rk3',) if tier == 'quick' else ('rk3', 'sil3', 'euler')):
    us.append(dict(kind='step', cls='MoistPrimitiveEquations', integ=integ, filt='exp', forcing=False, impl='real', levels='uneven3',
                   full=tier == 'thorough', palette=pal))
  for filt in (('exp+ra',) if tier == 'quick' else ('none', 'exp', 'ra', 'exp+ra')):
    us.append(dict(kind='step', cls='ShallowWater', integ='leapfrog', filt=filt, forcing=False, impl='real', levels='even2',
                   full=tier == 'thorough', palette=pal))
  for params in (('default', 'floor_active') if tier == 'quick' else ('default', 'floor_active', 'thin_boundary_layer', 'sigma_b_on_level')):
    us.append(dict(kind='held_suarez', params=params, impl='real', levels='uneven3', palette=pal, full=tier == 'thorough'))
  for impl in (('real',) if tier == 'quick' else tuple(IMPLS)):
    us.append(dict(kind='upwind', impl=impl, levels='uneven3', palette=pal))
  us.append(dict(kind='interp'))
  us.append(dict(kind='semi_lagrangian', palette=pal))
  for integ in (('sil3',) if tier == 'quick' else ('sil3', 'rk3', 'euler')):
    us.append(dict(kind='dfi', integ=integ, palette=pal))
  for n in ([4, 6] if tier == 'quick' else [4, 6, 8, 12]):
    us.append(dict(kind='scan', length=n, palette=pal))
  for outer, inner, swi in itertools.product((1, 2, 3), (1, 2), (False, True)):
    if tier == 'quick' and (outer + inner + int(swi)) % 2:
      continue      # quick: half of the (outer, inner, start_with_input) table; every value of each coordinate still appears
    us.append(dict(kind='trajectory', outer=outer, inner=inner, swi=swi, palette=pal))
  return us


_JIT = {}


# -- generic Jacobian oracle ---------------------------------------------------------------------------------------

def _jacobians(rec, f, x0, key, site, *, fd=True, hvec=None, batch_fd=True, c_fd=C_FD, c_adj=1e4, kink=False):
  """f: R^n -> R^m (jax). Full forward and reverse Jacobians at x0; finite, adjoint, FD."""
  import jax, jax.numpy as jnp
  n = x0.shape[0]
  if id(f) not in _JIT or _JIT[id(f)][0] is not f:      # one compilation per entry point, shared by all base states
    _JIT[id(f)] = (f, jax.jit(jax.jacfwd(f)), jax.jit(jax.jacrev(f)), jax.jit(jax.vmap(f)), jax.jit(f))
  _, jfwd, jrev, fj, f1 = _JIT[id(f)]
  Jf = np.asarray(jfwd(x0))
  Jr = np.asarray(jrev(x0))
  m = Jf.shape[0]
  ok = rec.finite(Jf, site=site + '/forward_finite', key=key) & rec.finite(Jr, site=site + '/reverse_finite', key=key)
  hv = np.ones(n) if hvec is None else np.asarray(hvec)
  # column scaling: entries are compared in units where every input direction has its natural amplitude
  Jfs, Jrs = Jf * hv[None, :], Jr * hv[None, :]
  scale = max(float(np.abs(Jfs).max()) if ok else 1.0, 1e-300)
  rec.close(Jfs, Jrs, scale=scale, C=c_adj, site=site + '/forward_equals_reverse_transposed', key=key)
  transitions = n + m
  if fd and kink:
    # base point ON a kink of a piecewise-smooth function (jnp.maximum / minimum ties): the 2-point central difference
    # converges to the mean of the one-sided slopes with an O(h) error, so a small step and the tolerance C_KINK are used
    E = np.eye(n) * (H_KINK * hv)[:, None]
    x0n = np.asarray(x0)
    d1 = np.asarray(fj(jnp.asarray(x0n + E))) - np.asarray(fj(jnp.asarray(x0n - E)))
    fdj = (d1 / (2 * H_KINK)).T
    f0 = np.asarray(f1(x0))
    fscale = max(scale, float(np.abs(f0).max()) if f0.size else 0.0)
    rec.close(Jfs, fdj, scale=fscale, C=C_KINK, site=site + '/forward_equals_central_difference_at_kink', key=key)
    transitions += 2 * n + 1
  elif fd:
    E = np.eye(n) * (H * hv)[:, None]
    x0n = np.asarray(x0)
    if batch_fd:
      d1 = np.asarray(fj(jnp.asarray(x0n + E))) - np.asarray(fj(jnp.asarray(x0n - E)))
      d2 = np.asarray(fj(jnp.asarray(x0n + 2 * E))) - np.asarray(fj(jnp.asarray(x0n - 2 * E)))
    else:
      d1 = np.stack([np.asarray(f1(jnp.asarray(x0n + e))) - np.asarray(f1(jnp.asarray(x0n - e))) for e in E])
      d2 = np.stack([np.asarray(f1(jnp.asarray(x0n + 2 * e))) - np.asarray(f1(jnp.asarray(x0n - 2 * e))) for e in E])
    fdj = ((8 * d1 - d2) / (12 * H)).T          # (m, n), already in scaled columns
    f0 = np.asarray(f1(x0))
    fscale = max(scale, float(np.abs(f0).max()) if f0.size else 0.0)
    rec.close(Jfs, fdj, scale=fscale, C=c_fd, site=site + '/forward_equals_central_difference', key=key)
    transitions += 4 * n + 1
  rec.case(key, transitions=transitions, outcome=Jf.tobytes(), nontrivial=bool(np.any(Jf != 0)),
           sample={'site': site, 'key': key, 'n_in': int(n), 'n_out': int(m), 'max_abs_jacobian': float(np.abs(Jf).max()) if ok else None})
  return Jf


def _flat(tree):
  from jax.flatten_util import ravel_pytree
  return ravel_pytree(tree)


# -- states ----------------------------------------------------------------------------------------------------------

def _dense(K, M, L, pal, fields):
  """Deterministic dense state in the Real layout exciting every mode with l <= L-2 (zero-mean for vorticity/divergence)."""
  from mc.ref import sphere
  out = {}
  for fi, (f, zm, levels) in enumerate(fields):
    a = np.zeros((levels, 2 * M - 1, L))
    for m, l, kind in sphere.modes(M, L):
      if l > L - 2 or (zm and l == 0):
        continue
      i = sphere.real_index(m, kind)
      for k in range(levels):
        a[k, i, l] = harness.UNIT_AMPLITUDE[f] * pal[(i + 2 * l + 3 * k + fi) % len(pal)] * (-1) ** (i + k) / (1.0 + l)
    out[f] = a
  return out


PE_FIELDS = (('vorticity', True), ('divergence', True), ('temperature', False), ('lnps', False))


def _pe_setup(unit, cls, K, bnds):
  from dinosaur import primitive_equations as pe
  impl = IMPLS[unit['impl']]
  specs = harness.pe_specs()
  coords = harness.make_coords(GRID, bnds, impl=impl, radius=specs.radius)
  M, L = GRID[0], GRID[1]
  orog = np.zeros((2 * M - 1, L)); orog[0, 1] = 2e-4; orog[1, 1] = 1.4e-4; orog[2, 2] = -0.6e-4
  tref = np.linspace(230.0, 285.0, K)
  eq = harness.make_pe(cls, coords, tref, orog, specs, impl=impl)
  return impl, specs, coords, eq, tref


def _lnps_mean(specs, M, L):
  """Real-layout coefficient array placing the mean surface pressure at 1000 hPa (in the scale's units)."""
  from dinosaur import scales
  a = np.zeros((1, 2 * M - 1, L))
  a[0, 0, 0] = np.log(float(specs.nondimensionalize(1e5 * scales.units.pascal))) * harness.SQRT4PI
  return a


def _pe_tracers(cls, K, M, L, B=None):
  tr = {}
  if cls.startswith('Moist'):
    q = np.zeros((K, 2 * M - 1, L)); q[:, 0, 0] = 0.01 * harness.SQRT4PI; q[min(1, K - 1), 1, 1] = 2e-3; q[0, 2, 2] = -1e-3
    tr['specific_humidity'] = q
    if cls.endswith('CloudMoisture'):
      for j, name in enumerate(harness.CLOUD_TRACERS):
        c = np.zeros((K, 2 * M - 1, L)); c[:, 0, 0] = (1 + j) * 1e-3 * harness.SQRT4PI; c[0, 1, 1 + j] = 3e-4
        tr[name] = c
  return tr


def _scales_like(state_tree, amp):
  """Vector of natural amplitudes (one per flattened entry) for a pytree whose leaves are named in `amp`."""
  import jax
  leaves = jax.tree_util.tree_leaves(jax.tree_util.tree_map(lambda x, a: np.full(np.shape(x), a), state_tree, amp))
  return np.concatenate([np.ravel(l) for l in leaves])


def _pe_amp(state):
  a = harness.UNIT_AMPLITUDE
  import jax
  kw = dict(vorticity=a['vorticity'], divergence=a['divergence'], temperature_variation=a['temperature'], log_surface_pressure=a['lnps'],
            tracers={k: 1e-3 for k in state.tracers})
  if hasattr(state, 'sim_time') and state.sim_time is not None:
    kw['sim_time'] = 1.0
  return type(state)(**kw)


# -- work ------------------------------------------------------------------------------------------------------------

def work(unit, rec):
  globals()['_work_' + unit['kind']](unit, rec)


def _work_transform(unit, rec):
  import jax, jax.numpy as jnp
  impl = IMPLS[unit['impl']]
  g = harness.make_grid(GRID, unit['spacing'], impl, radius=1.7)
  tag = ['transform', unit['impl'], unit['spacing']]
  mshape, nshape = g.modal_shape, g.nodal_shape
  x0 = jnp.asarray(np.cos(1.0 + np.arange(int(np.prod(mshape)), dtype=float))) * jnp.asarray(np.asarray(g.mask, dtype=float)).ravel()
  _jacobians(rec, lambda x: g.to_nodal(x.reshape(mshape)).ravel(), x0, ('to_nodal', tag), 'to_nodal')
  y0 = jnp.asarray(np.sin(0.3 + 0.7 * np.arange(int(np.prod(nshape)), dtype=float)))
  _jacobians(rec, lambda y: g.to_modal(y.reshape(nshape)).ravel(), y0, ('to_modal', tag), 'to_modal')
  for name in ('d_dlon', 'cos_lat_d_dlat', 'sec_lat_d_dlat_cos2', 'laplacian', 'inverse_laplacian', 'clip_wavenumbers'):
    fn = getattr(g, name)
    _jacobians(rec, lambda x, fn=fn: jnp.asarray(fn(x.reshape(mshape))).ravel(), x0, (name, tag), name)
  # a nonlinear composition that exercises both directions of the transform under differentiation
  _jacobians(rec, lambda x: g.to_modal(g.to_nodal(x.reshape(mshape)) ** 2).ravel(), x0, ('to_modal(to_nodal^2)', tag), 'to_modal(to_nodal^2)')


def _work_tendency(unit, rec):
  import jax, jax.numpy as jnp
  cls = unit['cls']; pal = unit['palette']
  M, L = GRID[0], GRID[1]
  bnds = LEVELS[unit['levels']]; K = len(bnds) - 1
  tag = ['tendency', cls, unit['impl'], unit['levels']]
  if cls == 'ShallowWater':
    from dinosaur import shallow_water as sw
    from dinosaur import scales
    impl = IMPLS[unit['impl']]
    specs = sw.ShallowWaterSpecs.from_si(densities=np.array([0.9, 1.0]) * scales.WATER_DENSITY)
    coords = harness.make_coords(GRID, None, impl=impl, radius=specs.radius, layers=K)
    g = coords.horizontal
    conv = lambda x: jnp.asarray(harness.from_real_layout(x, g, impl))
    orog = np.zeros((2 * M - 1, L)); orog[0, 1] = 0.02
    eq = sw.ShallowWaterEquations(coords, specs, conv(orog), np.array([0.8, 1.5]))
    fields = (('vorticity', True, K), ('divergence', True, K), ('potential', False, K))
    alphabet = [(f, k, i, l) for f, zm, _ in fields for k in range(K) for (i, l) in harness.low_modes(1, M, zm)]
    mk = lambda d: sw.State(conv(d['vorticity']), conv(d['divergence']), conv(d['potential']))
    amp = sw.State(harness.UNIT_AMPLITUDE['vorticity'], harness.UNIT_AMPLITUDE['divergence'], harness.UNIT_AMPLITUDE['potential'])
  else:
    impl, specs, coords, eq, tref = _pe_setup(unit, cls, K, bnds)
    g = coords.horizontal
    fields = tuple((f, zm, 1 if f == 'lnps' else K) for f, zm in PE_FIELDS)
    alphabet = harness.pe_alphabet(K, 1, M)
    tr = _pe_tracers(cls, K, M, L)
    p00 = _lnps_mean(specs, M, L)
    mk = lambda d: harness.pe_state(cls, coords, impl, d['vorticity'], d['divergence'], d['temperature'], d['lnps'] + p00, tracers=tr)
    amp = None
  msets = harness.multisets(len(alphabet), unit['depth'])
  dense = _dense(K, M, L, pal, fields)
  base = []
  for ms in msets:
    d = {f: np.zeros((lv, 2 * M - 1, L)) for f, _, lv in fields}
    for e in ms:
      f, k, i, l = alphabet[e]
      d[f][k, i, l] += harness.UNIT_AMPLITUDE[f] * pal[e % len(pal)]
    base.append((list(ms), d))
  base.append(('dense', dense))
  s0 = mk(base[0][1])
  _, unravel = _flat(s0)
  hvec = _scales_like(s0, amp if amp is not None else _pe_amp(s0))
  fns = {'explicit_terms': eq.explicit_terms, 'implicit_terms': eq.implicit_terms,
         'implicit_inverse(+0.3)': lambda s: eq.implicit_inverse(s, 0.3), 'implicit_inverse(-0.02)': lambda s: eq.implicit_inverse(s, -0.02)}
  for name, fn in fns.items():
    f = lambda x, fn=fn: _flat(fn(unravel(x)))[0]
    linear = name != 'explicit_terms'
    for bi, (label, d) in enumerate(base):
      if linear and label != 'dense' and bi > 2:
        continue       # linear maps: the Jacobian cannot depend on the base point (checked on 3 lattice states + dense)
      x0 = _flat(mk(d))[0]
      _jacobians(rec, f, x0, (name, tag, label), name, hvec=hvec)


def _work_upwind(unit, rec):
  """Non-default first-order upwind vertical advection: max(w,0) / min(w,0) have a kink at w == 0, which is where
  every resting or purely rotational state sits (sigma-dot == 0 exactly).  jnp.maximum / minimum split the derivative
  at a tie, which is what a central finite difference converges to; the property asks for exactly that agreement."""
  import jax, jax.numpy as jnp
  from dinosaur import sigma_coordinates as sc
  pal = unit['palette']
  M, L = GRID[0], GRID[1]
  bnds = LEVELS[unit['levels']]; K = len(bnds) - 1
  cls = 'PrimitiveEquations'
  # (a) the advection operator itself as a function of (w, x), at w == 0, w > 0, w < 0 and mixed columns
  coordsv = sc.SigmaCoordinates(np.asarray(bnds))
  xcol = np.array([1.0, -0.5, 2.0])[:K].reshape(K, 1, 1) * np.ones((K, 1, 2))
  for wname, w in (('zero', np.zeros((K - 1, 1, 2))), ('positive', np.full((K - 1, 1, 2), 0.3)), ('negative', np.full((K - 1, 1, 2), -0.2)),
                   ('mixed_with_zero', np.array([[0.0, 0.4], [-0.3, 0.0]])[:K - 1].reshape(K - 1, 1, 2))):
    n_w = w.size
    f = lambda z: sc.upwind_vertical_advection(z[:n_w].reshape(w.shape), z[n_w:].reshape(xcol.shape), coordsv).ravel()
    x0 = jnp.asarray(np.concatenate([w.ravel(), xcol.ravel()]))
    _jacobians(rec, f, x0, ('upwind_operator', wname), 'upwind_vertical_advection', kink=bool(np.any(w == 0)))
  # (b) through the equations
  impl, specs, coords, eq0, tref = _pe_setup(unit, cls, K, bnds)
  orog = np.zeros((2 * M - 1, L)); orog[0, 1] = 2e-4; orog[1, 1] = 1.4e-4
  eq = harness.make_pe(cls, coords, tref, orog, specs, impl=impl, vertical_advection=sc.upwind_vertical_advection)
  fields = tuple((f_, zm, 1 if f_ == 'lnps' else K) for f_, zm in PE_FIELDS)
  dense = _dense(K, M, L, pal, fields)
  zero = {f_: np.zeros_like(v) for f_, v in dense.items()}
  rest = dict(zero, temperature=dense['temperature'])
  rot = dict(zero, vorticity=dense['vorticity'], temperature=dense['temperature'])
  p00 = _lnps_mean(specs, M, L)
  mk = lambda d: harness.pe_state(cls, coords, impl, d['vorticity'], d['divergence'], d['temperature'], d['lnps'] + p00)
  s0 = mk(dense)
  _, unravel = _flat(s0)
  hvec = _scales_like(s0, _pe_amp(s0))
  f = lambda x: _flat(eq.explicit_terms(unravel(x)))[0]
  tag = ['upwind', unit['impl'], unit['levels']]
  for label, d, kink in (('dense', dense, False), ('rest', rest, True), ('rotational', rot, True)):
    st = mk(d)
    if kink:     # the premise of the kink cases: sigma-dot is exactly zero
      from dinosaur import primitive_equations as pe
      aux = pe.compute_diagnostic_state(st, coords)
      rec.check(not np.any(np.asarray(aux.sigma_dot_full) != 0), 'upwind_kink_premise_sigma_dot_exactly_zero', ('upwind', tag, label), {})
    # the small-step two-point rule is used for the generic state too: with the 4-point rule and step 1e-2 some node's
    # sigma-dot changes sign inside the stencil (piecewise-smooth function), which is an error of the oracle, not of jvp
    _jacobians(rec, f, _flat(st)[0], ('explicit_terms[upwind]', tag, label), 'explicit_terms[upwind]', hvec=hvec, kink=True)


def _make_step(unit, eq, g, specs, coords, tref):
  from dinosaur import time_integration as ti
  from dinosaur import held_suarez as hs
  integ = {'euler': ti.backward_forward_euler, 'rk2': ti.crank_nicolson_rk2, 'rk3': ti.crank_nicolson_rk3, 'rk4': ti.crank_nicolson_rk4,
           'sil3': ti.imex_rk_sil3, 'leapfrog': ti.semi_implicit_leapfrog}[unit['integ']]
  e = eq
  if unit.get('forcing'):
    e = ti.compose_equations([eq, hs.HeldSuarezForcing(coords, specs, tref)])
  fl = []
  for name in unit['filt'].split('+'):
    if name == 'exp':
      fl.append(ti.exponential_leapfrog_step_filter(g, DT) if unit['integ'] == 'leapfrog' else ti.exponential_step_filter(g, DT))
    elif name == 'diffusion':
      fl.append(ti.horizontal_diffusion_step_filter(g, DT, tau=0.05, order=2))
    elif name == 'ra':
      fl.append(ti.robert_asselin_leapfrog_filter(0.05))
  return ti.step_with_filters(integ(e, DT), fl)


def _work_step(unit, rec):
  import jax, jax.numpy as jnp
  cls = unit['cls']; pal = unit['palette']
  M, L = GRID[0], GRID[1]
  bnds = LEVELS[unit['levels']]; K = len(bnds) - 1
  tag = ['step', cls, unit['integ'], unit['filt'], 'HS' if unit['forcing'] else '-', unit['impl'], unit['levels']]
  if cls == 'ShallowWater':
    from dinosaur import shallow_water as sw
    from dinosaur import scales
    from dinosaur import time_integration as ti
    impl = IMPLS[unit['impl']]
    specs = sw.ShallowWaterSpecs.from_si(densities=np.array([0.9, 1.0]) * scales.WATER_DENSITY)
    coords = harness.make_coords(GRID, None, impl=impl, radius=specs.radius, layers=K)
    g = coords.horizontal
    conv = lambda x: jnp.asarray(harness.from_real_layout(x, g, impl))
    orog = np.zeros((2 * M - 1, L)); orog[0, 1] = 0.02
    eq = sw.ShallowWaterEquations(coords, specs, conv(orog), np.array([0.8, 1.5]))
    fields = (('vorticity', True, K), ('divergence', True, K), ('potential', False, K))
    alphabet = [(f, k, i, l) for f, zm, _ in fields for k in range(K) for (i, l) in harness.low_modes(1, M, zm)]
    one = lambda d: sw.State(conv(d['vorticity']), conv(d['divergence']), conv(d['potential']))
    first = ti.backward_forward_euler(eq, DT)
    mk = lambda d: (one(d), first(one(d)))      # leapfrog carries two time levels
    a = harness.UNIT_AMPLITUDE
    amp1 = sw.State(a['vorticity'], a['divergence'], a['potential'])
    amp = (amp1, amp1)
    tref = None
  else:
    impl, specs, coords, eq, tref = _pe_setup(unit, cls, K, bnds)
    g = coords.horizontal
    fields = tuple((f, zm, 1 if f == 'lnps' else K) for f, zm in PE_FIELDS)
    alphabet = harness.pe_alphabet(K, 1, M)
    tr = _pe_tracers(cls, K, M, L)
    p00 = _lnps_mean(specs, M, L)
    mk = lambda d: harness.pe_state(cls, coords, impl, d['vorticity'], d['divergence'], d['temperature'], d['lnps'] + p00, tracers=tr)
    amp = None
  step = _make_step(unit, eq, g, specs, coords, tref)
  dense = _dense(K, M, L, pal, fields)
  n = len(alphabet)
  if unit['full']:
    chosen = [(e,) for e in range(n) if alphabet[e][1] == 0] + [(0, n - 1), (1, n // 2), (n // 3, n // 3), (2, 2 * n // 3)]
  else:
    chosen = [(0, n - 1), (n // 3, n // 2)]
  base = [('dense', dense)]
  for ms in chosen:
    d = {f: np.zeros((lv, 2 * M - 1, L)) for f, _, lv in fields}
    for e in ms:
      f, k, i, l = alphabet[e]
      d[f][k, i, l] += harness.UNIT_AMPLITUDE[f] * pal[e % len(pal)]
    if cls != 'ShallowWater':
      d['temperature'] = d['temperature'] + dense['temperature'] * 0.0
    base.append((list(ms), d))
  s0 = mk(base[0][1])
  _, unravel = _flat(s0)
  hvec = _scales_like(s0, amp if amp is not None else _pe_amp(s0))
  f = lambda x: _flat(step(unravel(x)))[0]
  for label, d in base:
    x0 = _flat(mk(d))[0]
    _jacobians(rec, f, x0, ('step', tag, label), 'step')


HS_PARAMS = {
    'default': {},
    'floor_active': dict(minT=225.0),            # the equilibrium-temperature floor is active on part of the grid
    'thin_boundary_layer': dict(sigma_b=0.9),
    'sigma_b_on_level': dict(sigma_b=0.775),     # a layer centre of 'uneven3' lies exactly on sigma_b (max(0, 0) branch)
}


def _work_held_suarez(unit, rec):
  import jax, jax.numpy as jnp
  from dinosaur import held_suarez as hs
  from dinosaur import scales
  pal = unit['palette']
  M, L = GRID[0], GRID[1]
  bnds = LEVELS[unit['levels']]; K = len(bnds) - 1
  impl, specs, coords, eq, tref = _pe_setup(unit, 'PrimitiveEquations', K, bnds)
  kw = dict(HS_PARAMS[unit['params']])
  if 'minT' in kw:
    kw['minT'] = kw['minT'] * scales.units.degK
  forcing = hs.HeldSuarezForcing(coords, specs, tref, **kw)
  fields = tuple((f, zm, 1 if f == 'lnps' else K) for f, zm in PE_FIELDS)
  dense = _dense(K, M, L, pal, fields)
  p00 = _lnps_mean(specs, M, L)
  mk = lambda d: harness.pe_state('PrimitiveEquations', coords, impl, d['vorticity'], d['divergence'], d['temperature'], d['lnps'] + p00)
  zero = {f: np.zeros_like(v) for f, v in dense.items()}
  low = {f: v.copy() for f, v in dense.items()}
  low['lnps'] = low['lnps'] + 0.0
  low['lnps'][0, 0, 0] = -0.4 * harness.SQRT4PI       # lower surface pressure moves the floor region
  base = [('dense', dense), ('rest', zero), ('low_pressure', low)]
  s0 = mk(dense)
  _, unravel = _flat(s0)
  hvec = _scales_like(s0, _pe_amp(s0))
  f = lambda x: _flat(forcing.explicit_terms(unravel(x)))[0]
  tag = ['held_suarez', unit['params'], unit['levels']]
  for label, d in base:
    x0 = _flat(mk(d))[0]
    # count how many nodes sit on the floor (the kink itself has measure zero; FD stays valid away from it)
    ps = np.exp(np.asarray(coords.horizontal.to_nodal(mk(d).log_surface_pressure)))
    teq = np.asarray(forcing.equilibrium_temperature(ps))
    rec.note('hs_nodes_on_floor', int(np.sum(teq <= float(forcing.minT) * (1 + 1e-12))))
    rec.note('hs_nodes_total', int(teq.size))
    _jacobians(rec, f, x0, ('held_suarez', tag, label), 'held_suarez_explicit_terms', hvec=hvec)


def _work_interp(unit, rec):
  import jax, jax.numpy as jnp
  from dinosaur import vertical_interpolation as vi
  lattice = [0.0, 0.25, 0.5, 1.0, 2.0]
  queries = [q / 8.0 for q in range(-8, 25)]
  routines = {
      'interp': (vi.interp, 0),
      '_dot_interp': (vi._dot_interp, 0),
      'linear_interp_with_linear_extrap': (vi.linear_interp_with_linear_extrap, None),
      '_linear_interp_with_safe_extrap(n=1)': (lambda x, xp, fp: vi._linear_interp_with_safe_extrap(x, xp, fp, n=1), 1),
      '_linear_interp_with_safe_extrap(n=2)': (lambda x, xp, fp: vi._linear_interp_with_safe_extrap(x, xp, fp, n=2), 2),
  }
  hq = 0.125          # natural amplitude of the query coordinate (lattice step)
  for size in (2, 3, 4):
    fp = np.array([((-1) ** j) * (1.0 + 0.5 * j) for j in range(size)])
    hv = np.concatenate([[hq], np.full(size, hq), np.ones(size)])
    E = np.eye(2 * size + 1) * (H * hv)[:, None]
    for rname, (fn, nsafe) in routines.items():
      cases = []
      for nodes in itertools.combinations(lattice, size):
        xp = np.array(nodes)
        dx0, dxn = xp[1] - xp[0], xp[-1] - xp[-2]
        for q in queries:
          if nsafe and not (xp[0] - nsafe * dx0 <= q <= xp[-1] + nsafe * dxn):
            rec.note('interp_query_outside_safe_range_missing_by_design')
            continue
          kinks = list(xp)
          if nsafe:
            kinks += [xp[0] - j * dx0 for j in range(1, nsafe + 1)] + [xp[-1] + j * dxn for j in range(1, nsafe + 1)]
          at_kink = any(abs(q - kx) < 4 * H * hq for kx in kinks)
          cases.append((nodes, q, at_kink))
      if not cases:
        continue
      # differentiated input z = (query, source coordinates xp, source values fp): the source coordinates are traced
      # too (the semi-Lagrangian step interpolates from state-dependent departure levels)
      f = lambda z, fn=fn: jnp.atleast_1d(fn(z[0], z[1:1 + size], z[1 + size:]))
      Z = jnp.asarray(np.array([np.concatenate([[q], nodes, fp]) for nodes, q, _ in cases]))
      Jf = np.asarray(jax.jit(jax.vmap(jax.jacfwd(f)))(Z))[:, 0, :]
      Jr = np.asarray(jax.jit(jax.vmap(jax.jacrev(f)))(Z))[:, 0, :]
      fb = jax.jit(jax.vmap(jax.vmap(f)))
      Zn = np.asarray(Z)
      ev = lambda c: np.asarray(fb(jnp.asarray(Zn[:, None, :] + c * E[None, :, :])))[:, :, 0]
      fd = (8 * (ev(1) - ev(-1)) - (ev(2) - ev(-2))) / (12 * H)
      f0 = np.asarray(jax.jit(jax.vmap(f))(Z))[:, 0]
      for ci, (nodes, q, at_kink) in enumerate(cases):
        key = ('interp', rname, list(nodes), q)
        site = 'interp:' + rname
        jf, jr = Jf[ci] * hv, Jr[ci] * hv
        rec.finite(jf, site=site + '/forward_finite', key=key); rec.finite(jr, site=site + '/reverse_finite', key=key)
        scale = max(float(np.abs(jf).max()) if np.all(np.isfinite(jf)) else 1.0, abs(float(f0[ci])) if np.isfinite(f0[ci]) else 1.0, 1e-300)
        rec.close(jf, jr, scale=scale, site=site + '/forward_equals_reverse_transposed', key=key)
        if not at_kink:
          # rational in the source coordinates (1/(xp[i+1]-xp[i])): the 4-point truncation is ~(h/dx)^4 ~ 6e-10, so 1e-6 relative here
          rec.close(jf, fd[ci], scale=scale, C=C_FD_INTERP, site=site + '/forward_equals_central_difference', key=key)
        else:
          rec.note('interp_query_at_kink_fd_skipped')
        rec.case(key, transitions=2 * (2 * size + 1) + (0 if at_kink else 4 * (2 * size + 1)), outcome=Jf[ci].tobytes(), nontrivial=bool(np.any(Jf[ci] != 0)),
                 sample={'routine': rname, 'nodes': list(nodes), 'query': q, 'at_kink': at_kink, 'jacobian_wrt_(x,xp,fp)': Jf[ci].tolist()})


def _work_semi_lagrangian(unit, rec):
  """semi_lagrangian_vertical_advection_step interpolates every 3-D field from departure levels that depend on the
  state (sigma - dt * sigma_dot): the derivative flows through the source COORDINATES of the interpolation."""
  import jax, jax.numpy as jnp
  from dinosaur import primitive_equations as pe
  pal = unit['palette']
  u = dict(impl='real')
  bnds = LEVELS['uneven3']; K = 3
  M, L = GRID[0], GRID[1]
  impl, specs, coords, eq, tref = _pe_setup(u, 'PrimitiveEquations', K, bnds)
  fields = tuple((f_, zm, 1 if f_ == 'lnps' else K) for f_, zm in PE_FIELDS)
  dense = _dense(K, M, L, pal, fields)
  p00 = _lnps_mean(specs, M, L)
  s0 = harness.pe_state('PrimitiveEquations', coords, impl, dense['vorticity'], dense['divergence'], dense['temperature'], dense['lnps'] + p00)
  x0, unravel = _flat(s0)
  hvec = _scales_like(s0, _pe_amp(s0))
  for dt in (0.05, -0.02):
    f = lambda x, dt=dt: _flat(pe.semi_lagrangian_vertical_advection_step(unravel(x), coords, dt))[0]
    # piecewise linear in the departure level: the small-step two-point rule keeps the stencil inside one piece
    _jacobians(rec, f, x0, ('semi_lagrangian_step', dt), 'semi_lagrangian_vertical_advection_step', hvec=hvec, kink=True)


def _work_dfi(unit, rec):
  """digital_filter_initialization (forward + time-reversed integration, Lanczos-weighted accumulation) as one
  differentiable function; forward mode, reverse mode and the central difference are separate evaluations of it in one
  process, so the function must also be reproducible from call to call."""
  import jax, jax.numpy as jnp
  from dinosaur import time_integration as ti
  step, s0, g = _scan_problem(unit['palette'])
  u = dict(impl='real')
  impl, specs, coords, eq, tref = _pe_setup(u, 'PrimitiveEquations', 2, LEVELS['even2'])
  solver = {'sil3': ti.imex_rk_sil3, 'rk3': ti.crank_nicolson_rk3, 'euler': ti.backward_forward_euler}[unit['integ']]
  x0, unravel = _flat(s0)
  hvec = _scales_like(s0, _pe_amp(s0))
  for nsteps in (1, 2):
    dfi = ti.digital_filter_initialization(eq, solver, [ti.exponential_step_filter(g, DT)], time_span=2 * nsteps * DT, cutoff_period=2 * nsteps * DT, dt=DT)
    f = lambda x, dfi=dfi: _flat(dfi(unravel(x)))[0]
    first = np.asarray(f(x0))
    _jacobians(rec, f, x0, ('dfi', unit['integ'], nsteps), 'digital_filter_initialization', hvec=hvec)
    rec.exact(np.asarray(f(x0)), first, site='digital_filter_initialization_reproducible_from_call_to_call', key=('dfi', unit['integ'], nsteps))


def _scan_problem(pal):
  """A small real dinosaur step (dry SIL3 + exponential filter) with a scanned additive forcing xs."""
  import jax, jax.numpy as jnp
  from dinosaur import time_integration as ti
  unit = dict(impl='real')
  bnds = LEVELS['even2']; K = 2
  M, L = GRID[0], GRID[1]
  impl, specs, coords, eq, tref = _pe_setup(unit, 'PrimitiveEquations', K, bnds)
  g = coords.horizontal
  step = ti.step_with_filters(ti.imex_rk_sil3(eq, DT), [ti.exponential_step_filter(g, DT)])
  fields = tuple((f, zm, 1 if f == 'lnps' else K) for f, zm in PE_FIELDS)
  dense = _dense(K, M, L, pal, fields)
  s0 = harness.pe_state('PrimitiveEquations', coords, impl, dense['vorticity'], dense['divergence'], dense['temperature'], dense['lnps'] + _lnps_mean(specs, M, L))
  return step, s0, g


def _work_scan(unit, rec):
  import jax, jax.numpy as jnp
  from dinosaur import time_integration as ti
  from mc.ref import stepping as rstep
  n = unit['length']
  step, s0, g = _scan_problem(unit['palette'])
  x0, unravel = _flat(s0)
  mshape = s0.log_surface_pressure.shape
  xs0 = jnp.asarray(1e-3 * np.cos(np.arange(n * int(np.prod(mshape)), dtype=float)).reshape((n,) + mshape)) * jnp.asarray(np.asarray(g.mask, float))
  wout = jnp.asarray(np.sin(1.0 + np.arange(n, dtype=float)))

  def body(carry, x):
    carry = carry.replace(log_surface_pressure=carry.log_surface_pressure + x)
    new = step(carry)
    return new, (new.temperature_variation[0], jnp.sum(new.vorticity ** 2))

  def loss_from(scan):
    def loss(x, xs):
      carry, (t, e) = scan(body, unravel(x), xs)
      return jnp.sum(_flat(carry)[0] ** 2) + jnp.sum(wout[:, None, None] * t ** 2) + jnp.sum(wout * e)
    return loss

  flat = lambda f, init, xs: jax.lax.scan(f, init, xs)
  ref_val, (ref_gx, ref_gxs) = jax.jit(jax.value_and_grad(loss_from(flat), argnums=(0, 1)))(x0, xs0)
  ref_carry, ref_out = jax.jit(lambda x, xs: flat(body, unravel(x), xs))(x0, xs0)
  # python loop (the sequential definition)
  c = s0; outs = []
  for i in range(n):
    c, o = body(c, xs0[i]); outs.append(o)
  rec.close(_flat(c)[0], _flat(ref_carry)[0], scale=float(jnp.abs(x0).max()), site='flat_scan_equals_python_loop', key=('scan', n, 'flat'))
  gs = max(float(jnp.abs(ref_gx).max()), float(jnp.abs(ref_gxs).max()))
  for fac in rstep.factorisations(n, max_depth=4):
    key = ('scan', n, list(fac))
    nested = lambda f, init, xs, fac=fac: ti.nested_checkpoint_scan(f, init, xs, length=n, nested_lengths=list(fac))
    val, (gx, gxs) = jax.jit(jax.value_and_grad(loss_from(nested), argnums=(0, 1)))(x0, xs0)
    carry, out = jax.jit(lambda x, xs: nested(body, unravel(x), xs))(x0, xs0)
    rec.close(_flat(carry)[0], _flat(ref_carry)[0], scale=float(jnp.abs(x0).max()), site='nested_scan_carry_equals_flat', key=key)
    for a, b, nm in zip(out, ref_out, ('stacked_temperature', 'stacked_energy')):
      rec.close(a, b, scale=max(float(jnp.abs(b).max()), 1e-300), site='nested_scan_outputs_equal_flat:' + nm, key=key)
    rec.finite(gx, site='nested_scan_gradient_finite', key=key); rec.finite(gxs, site='nested_scan_gradient_finite', key=key)
    rec.close(gx, ref_gx, scale=gs, site='nested_scan_gradient_wrt_carry_equals_flat', key=key)
    rec.close(gxs, ref_gxs, scale=gs, site='nested_scan_gradient_wrt_xs_equals_flat', key=key)
    # forward mode through the checkpointed scan, one tangent per scanned input slot and one for the carry
    tx = jnp.asarray(np.cos(np.arange(x0.shape[0], dtype=float)))
    _, jv = jax.jvp(lambda x, xs: loss_from(nested)(x, xs), (x0, xs0), (tx, jnp.ones_like(xs0)))
    rec.close(jv, jnp.vdot(ref_gx, tx) + jnp.sum(ref_gxs), scale=gs * float(x0.shape[0]), site='nested_scan_jvp_equals_flat_vjp', key=key)
    rec.case(key, transitions=3 * n, outcome=np.asarray(gx).tobytes(), sample={'length': n, 'nested_lengths': list(fac), 'loss': float(val)})


def _work_trajectory(unit, rec):
  import jax, jax.numpy as jnp
  from dinosaur import time_integration as ti
  step, s0, g = _scan_problem(unit['palette'])
  x0, unravel = _flat(s0)
  nout = x0.shape[0]
  w = jnp.asarray(np.cos(0.5 + np.arange(nout, dtype=float)))
  for outer, inner, swi in [(unit['outer'], unit['inner'], unit['swi'])]:
    key = ('trajectory', outer, inner, swi)
    traj = ti.trajectory_from_step(step, outer, inner, start_with_input=swi)

    def f(x):
      final, frames = traj(unravel(x))
      fr = jax.vmap(lambda s: _flat(s)[0])(frames)
      return jnp.concatenate([_flat(final)[0], (fr * w[None, :]).sum(axis=1)])

    def fref(x):
      s = unravel(x); frames = []
      for k in range(outer):
        if swi:
          frames.append(_flat(s)[0])
        for _ in range(inner):
          s = step(s)
        if not swi:
          frames.append(_flat(s)[0])
      return jnp.concatenate([_flat(s)[0], (jnp.stack(frames) * w[None, :]).sum(axis=1)])

    # reverse mode on every output of the reduced map is n_out vjps: use a fixed complete set of cotangents on the
    # final state (basis) and on the frame functionals (basis) -> full Jacobian both ways
    Jf = _jacobians(rec, f, x0, key, 'trajectory_from_step', fd=(outer * inner <= 2))
    Jref = np.asarray(jax.jit(jax.jacrev(fref))(x0))
    rec.close(Jf, Jref, scale=float(np.abs(Jref).max()), site='trajectory_jacobian_equals_python_loop_jacobian', key=key)
