"""C01: spherical-harmonic analysis inverts synthesis; the basis is discretely orthonormal.

Every grid configuration of the lattice G (shape x latitude spacing x transform implementation and its
options x radius x longitude offset) is built on the real code and EVERY modal unit vector (including
the masked and padded positions) is pushed through Grid.to_nodal and Grid.to_modal.  Because the
transforms are linear this yields the complete synthesis matrix and the complete round-trip matrix;
they are compared entry by entry with (i) reference spherical harmonics evaluated at the grid's own
nodes, (ii) the Kronecker delta wherever quadrature theory says the pair is resolved, (iii) the
integral identity and (iv) exact zeros outside the triangular truncation.

Extensions after the seeded-breakage rounds (DESIGN.md 8.5): Call histories: every sequence of <= 2 (thorough 3) calls over 13 Grid operations is executed on one shared Grid object and every call must be bit-identical to the same call made first on a fresh grid (the Grid caches its matrices, weights and eigenvalues), with the round-trip and integral identities evaluated in every reached state.  Grid.mask itself is compared with an independent reference mask of the triangular truncation.
"""
import numpy as np

from mc import core, harness
from mc.ref import sphere

ID = 'C01'
TECHNIQUE = 'bounded-exhaustive enumeration of grid configurations x every modal basis vector through the real transforms, entrywise vs reference harmonics / quadrature theory'
ASSUMPTIONS = [
    'call histories: every sequence up to the depth bound over the listed Grid operations; deeper histories and other operations are not covered',
    'scipy.special.assoc_legendre_p_all (norm=True) and numpy leggauss as the independent definition of the harmonics',
    'quadrature theory for the resolution predicate: Gauss exact to degree 2n-1, interpolatory equiangular rules to degree n-1, trapezoid in longitude for m+m\' < nlon',
    'linearity: the matrices obtained from the unit vectors determine the transforms on all fields of each enumerated grid (superpositions are checked on the palette)',
    'a per-order sign convention (Condon-Shortley phase) and the longitude origin are read off once per grid and then required of every column',
    'TL1279 is outside the thorough bound (memory); factory grids are checked through the Gram matrices of the real basis arrays, not through jax transforms',
]
RULE = ('case = (grid shape, spacing, implementation+options, radius, offset, check); each case covers every modal unit vector of '
        'that grid (transitions = number of basis vectors pushed through to_nodal/to_modal); non-trivial = output not identically zero; '
        'distinct outcomes = distinct output byte patterns')

FACTORY = ['T21', 'T31', 'T42', 'T85', 'T106', 'T119', 'T170', 'T213', 'T340', 'T425',
           'TL31', 'TL47', 'TL63', 'TL95', 'TL127', 'TL159', 'TL179', 'TL255', 'TL639']


def bounds(tier):
  return dict(shapes='with_wavenumbers(M<=%d, linear|quadratic|cubic) + construct(k<=6,n<=6) + 6 hand-picked (two trapezoidal, L >= M+3)' % (8 if tier == 'quick' else 16),
              spacings=list(harness.SPACINGS), implementations='real + fast(base_shape_multiple 1..4 x stacked x reverse)',
              radii=[1.0, 2.5], offsets=[0.0, 0.3], leading_axes=['(n,)', '(1,n)', '(2,n/2) or (3,n/3)'],
              factory_grids=FACTORY if tier == 'thorough' else FACTORY[:3] + FACTORY[10:12],
              call_histories='every sequence of <= %d calls over %d Grid operations on one shared Grid object, 2 shapes x spacings x {real, padded fast} x radius {1, 2.5}; plus interleaved calls on three live Grid objects' % (2 if tier == 'quick' else 3, len(HISTORY_OPS)))


def units(tier, seed):
  pal = core.palette(seed, tier)
  us = []
  for shape in harness.grid_shapes(8 if tier == 'quick' else 16):
    for sp in harness.SPACINGS:
      us.append(dict(kind='grid', shape=list(shape), spacing=sp, full=(tier == 'thorough' or shape[0] <= 6), palettes=pal))
  names = FACTORY if tier == 'thorough' else FACTORY[:3] + FACTORY[10:12]
  for n in names:
    us.append(dict(kind='factory', name=n))
  for shape in ((3, 4, 10, 5), (4, 5, 13, 7)):
    for sp in (('gauss', 'equiangular') if tier == 'quick' else harness.SPACINGS):
      for impl in ('real', ('fast', 4, True, False)) + ((('fast', 1, False, True),) if tier == 'thorough' else ()):
        for radius in (1.0, 2.5):
          if tier == 'quick' and shape[0] == 4 and (sp != 'gauss' or radius == 1.0):
            continue
          us.append(dict(kind='history', shape=list(shape), spacing=sp, impl=impl, radius=radius, depth=2 if tier == 'quick' else 3))
  return us


def _tag(impl):
  return 'real' if not harness.is_fast(impl) else 'fast:bm%d:%s:%s' % (impl[1], 'stacked' if impl[2] else 'unstacked', 'rev' if impl[3] else 'fwd')


def _origin_and_signs(nodal_real, ref_at0, M, L, lam, mu, spacing):
  """Reads the longitude origin lam0 off the (m=1, l=1, cos) column and a sign per order m off the (m, l=m, cos) column."""
  lam0 = 0.0
  if M >= 2 and L >= 2:
    v = nodal_real[sphere.real_index(1, 'c'), 1]         # (nlon, nlat) ~ s * c * P(mu) * cos(lam - lam0)
    j = int(np.argmax(np.abs(v).max(axis=0)))
    a = float(np.sum(v[:, j] * np.cos(lam))); b = float(np.sum(v[:, j] * np.sin(lam)))
    lam0 = float(np.arctan2(b, a))
  return lam0


def _grid_unit(unit, rec):
  import jax.numpy as jnp
  shape = tuple(unit['shape']); sp = unit['spacing']
  M, L, nlon, nlat = shape
  impls = harness.impl_variants(full=unit['full'])
  stag = list(shape)
  mask_real = sphere.real_mask(M, L)
  nreal = (2 * M - 1) * L
  first_nodal = {}
  for impl in impls:
    g = harness.make_grid(shape, sp, impl)
    tag = _tag(impl)
    ms = g.modal_shape
    n = ms[0] * ms[1]
    eye = np.eye(n).reshape((n,) + ms)
    key = ('roundtrip', stag, sp, tag)
    if not rec.want(key):
      continue
    nodal = np.asarray(g.to_nodal(jnp.asarray(eye)))
    back = np.asarray(g.to_modal(jnp.asarray(nodal)))
    rec.case(key, transitions=2 * n, outcome=nodal.tobytes() + back.tobytes(),
             sample={'shape(M,L,nlon,nlat)': stag, 'spacing': sp, 'impl': tag, 'modal_shape': list(ms), 'basis_vectors': n})
    gmask = np.asarray(g.mask, dtype=bool)
    # the mask itself is part of the observable interface: it must mark exactly the triangular truncation (reference
    # mask re-indexed to this layout; structural-zero row and every padded position False), not merely be consistent
    # with what the transforms drop
    want_mask = harness.from_real_layout(mask_real.astype(float), g, impl).astype(bool)
    rec.check(gmask.shape == want_mask.shape and bool(np.array_equal(gmask, want_mask)), 'mask_is_the_triangular_truncation', key,
              {'differing_positions': np.argwhere(gmask != want_mask)[:6].tolist() if gmask.shape == want_mask.shape else 'shape'})
    flat_mask = want_mask.reshape(-1)
    gmask = want_mask
    # (iv) masked / padded inputs produce exactly zero nodal output; nodal padding is exactly zero
    rec.zero(nodal[~flat_mask], site='masked_input_gives_zero_field', key=key)
    rec.zero(nodal[:, nlon:, :], site='nodal_padding_zero', key=key)
    rec.zero(nodal[:, :, nlat:], site='nodal_padding_zero', key=key)
    # (iv) masked / padded output positions are exactly zero for every input
    rec.zero(back[:, ~gmask], site='masked_output_zero', key=key)
    rec.finite(back, site='roundtrip_finite', key=key)
    # re-index both sides to the Real layout
    nod = nodal.reshape(ms + nodal.shape[1:])[..., :nlon, :nlat]        # (rows, cols, nlon, nlat)
    nod = harness.to_real_layout(np.moveaxis(nod, (0, 1), (-2, -1)), shape, impl)   # (nlon, nlat, 2M-1, L)
    nod = np.moveaxis(nod, (-2, -1), (0, 1))                             # (2M-1, L, nlon, nlat)
    bk = back.reshape(ms + ms)
    bk = harness.to_real_layout(bk, shape, impl)                         # (rows, cols, 2M-1, L) outputs
    bk = np.moveaxis(harness.to_real_layout(np.moveaxis(bk, (0, 1), (-2, -1)), shape, impl), (-2, -1), (0, 1))
    # bk[i, l, i', l'] = coefficient (i', l') of the round trip of unit vector (i, l)
    lam_idx = np.arange(nlon) * 2 * np.pi / nlon
    mu = np.asarray(g.nodal_axes[1])[:nlat]
    lam0 = _origin_and_signs(nod, None, M, L, lam_idx, mu, sp)
    ref = sphere.Basis(M, L, lam_idx - lam0, mu, derivatives=False)
    # per-order sign convention, read off the (m, l=m, cos) column
    sign = np.ones(2 * M - 1)
    for m in range(1, M):
      i = sphere.real_index(m, 'c')
      s = np.sign(np.sum(nod[i, m] * ref.Y[i, m])) or 1.0
      sign[2 * m - 1] = sign[2 * m] = s
    want = ref.Y * sign[:, None, None, None]
    yscale = max(1.0, float(np.abs(want).max()))
    rec.close(nod, want, scale=yscale, site='synthesis_is_reference_harmonic', key=key)
    # (ii) round trip == delta on resolved pairs, finite elsewhere
    rows = 2 * M - 1
    mrow = np.array([0] + [(i + 1) // 2 for i in range(1, rows)])
    lgrid = np.arange(L)
    delta = np.zeros((rows, L, rows, L))
    for i in range(rows):
      for l in range(L):
        if mask_real[i, l]:
          delta[i, l, i, l] = 1.0
    lat_ok = np.array([[sphere.resolved_pair(sp, nlat, l, lp) for lp in lgrid] for l in lgrid])    # (L, L)
    lon_ok = (mrow[:, None] + mrow[None, :]) < nlon                                                 # (rows, rows)
    same_row = np.eye(rows, dtype=bool)
    # pairs in different rows vanish by trigonometric orthogonality alone (when m+m' < nlon);
    # pairs in the same row need the latitude rule to resolve l + l'
    assert_mask = (lon_ok[:, None, :, None] & (~same_row)[:, None, :, None]) | \
                  (same_row[:, None, :, None] & lon_ok[:, None, :, None] & lat_ok[None, :, None, :])
    assert_mask = np.broadcast_to(assert_mask, delta.shape)
    n_unres = int((~assert_mask & mask_real[:, :, None, None] & mask_real[None, None]).sum())
    if n_unres:
      rec.note('unresolved_pairs_not_asserted', n_unres)
    cond = max(1.0, float(L))  # sums of L products of O(sqrt(L)) values
    rec.close(np.where(assert_mask, bk, 0.0), np.where(assert_mask, delta, 0.0), scale=cond, site='roundtrip_is_identity_on_resolved_pairs', key=key)
    # orthonormality under the grid's own quadrature weights
    w = np.asarray(g.quadrature_weights)[:nlon, :nlat]
    gram = np.einsum('ilxy,jkxy,xy->iljk', nod, nod, w)
    rec.close(np.where(assert_mask, gram, 0.0), np.where(assert_mask, delta, 0.0), scale=cond, site='basis_orthonormal_under_quadrature_weights', key=key)
    # (iii) integral identity for the default radius
    integ = np.asarray(g.integrate(jnp.asarray(nodal))).reshape(ms)
    integ = harness.to_real_layout(integ, shape, impl)
    want_i = np.zeros((rows, L)); want_i[0, 0] = np.sqrt(4 * np.pi)
    imask = np.zeros((rows, L), dtype=bool)
    imask[0] = lat_ok[0] ; imask[1:] = True
    imask &= mask_real
    rec.close(np.where(imask, integ, 0.0), want_i, scale=4 * np.pi * yscale, site='integral_is_r2_sqrt4pi_c00', key=key)
    first_nodal[tag] = nodal

    # leading batch / level axes and superpositions, radius and offset: only on a sub-lattice of implementations
    if impl == 'real' or impl in (('fast', 1, True, False), ('fast', 4, True, True), ('fast', 2, False, False)):
      for lead in ((1, n), (2, n // 2) if n % 2 == 0 else (3, n // 3) if n % 3 == 0 else (n, 1)):
        key2 = ('leading_axes', stag, sp, tag, list(lead))
        x = eye[:lead[0] * lead[1]].reshape(lead + ms)
        nd = np.asarray(g.to_nodal(jnp.asarray(x)))
        bk2 = np.asarray(g.to_modal(jnp.asarray(nd)))
        rec.case(key2, transitions=2 * lead[0] * lead[1], outcome=nd.tobytes())
        rec.close(nd.reshape((-1,) + nd.shape[2:]), nodal[:lead[0] * lead[1]], scale=yscale, site='leading_axes_to_nodal', key=key2)
        rec.close(bk2.reshape((-1,) + ms), back[:lead[0] * lead[1]], scale=cond, site='leading_axes_to_modal', key=key2)
      for pal in unit['palettes']:
        a1, a2 = pal[0], (pal[-1] if len(pal) > 1 else -0.5)
        key3 = ('superposition', stag, sp, tag, a1, a2)
        idx = np.flatnonzero(flat_mask)
        pairs = [(idx[i], idx[(i * 7 + 3) % len(idx)]) for i in range(len(idx))]  # every resolved vector appears, fixed pairing
        x = np.stack([a1 * eye[i] + a2 * eye[j] for i, j in pairs])
        nd = np.asarray(g.to_nodal(jnp.asarray(x)))
        wantn = np.stack([a1 * nodal[i] + a2 * nodal[j] for i, j in pairs])
        rec.case(key3, transitions=len(pairs), outcome=nd.tobytes())
        rec.close(nd, wantn, scale=yscale * (abs(a1) + abs(a2)), site='to_nodal_linear', key=key3)
        bm = np.asarray(g.to_modal(jnp.asarray(nd)))
        wantm = np.stack([a1 * back[i] + a2 * back[j] for i, j in pairs])
        rec.close(bm, wantm, scale=cond * (abs(a1) + abs(a2)), site='to_modal_linear', key=key3)
      for radius, offset in ((2.5, 0.0), (1.0, 0.3), (2.5, 0.3)):
        key4 = ('radius_offset', stag, sp, tag, radius, offset)
        g2 = harness.make_grid(shape, sp, impl, offset=offset, radius=radius)
        nd = np.asarray(g2.to_nodal(jnp.asarray(eye)))
        rec.case(key4, transitions=n, outcome=nd.tobytes())
        rec.exact(nd, nodal, site='radius_offset_do_not_change_transform', key=key4)
        integ2 = harness.to_real_layout(np.asarray(g2.integrate(jnp.asarray(nd))).reshape(ms), shape, impl)
        rec.close(np.where(imask, integ2, 0.0), radius ** 2 * want_i, scale=radius ** 2 * 4 * np.pi * yscale, site='integral_is_r2_sqrt4pi_c00', key=key4)
        rec.close(np.asarray(g2.nodal_axes[0])[:nlon], lam_idx + offset, scale=2 * np.pi, C=4, site='nodal_longitudes', key=key4)

  # history independence: rebuild the same grids in reverse order, results must be bit-identical
  for impl in reversed(impls):
    tag = _tag(impl)
    if tag not in first_nodal:
      continue
    key = ('rebuild_reverse_order', stag, sp, tag)
    g = harness.make_grid(shape, sp, impl)
    n = g.modal_shape[0] * g.modal_shape[1]
    nodal = np.asarray(g.to_nodal(jnp.asarray(np.eye(n).reshape((n,) + g.modal_shape))))
    rec.case(key, transitions=n, outcome=None)
    rec.exact(nodal, first_nodal[tag], site='history_independence', key=key)


def _factory_unit(unit, rec):
  """Gram matrices of the real basis arrays of a factory grid: P_m^T W P_m per order m and F^T W_f F."""
  from dinosaur import spherical_harmonic as sh
  name = unit['name']
  g = getattr(sh.Grid, name)()
  M, L, nlon, nlat = g.longitude_wavenumbers, g.total_wavenumbers, g.longitude_nodes, g.latitude_nodes
  b = g.spherical_harmonics.basis
  _, wp = sh.get_latitude_nodes(nlat, 'gauss')
  wf = 2 * np.pi / nlon
  key = ('factory_gram', name)
  if not rec.want(key):
    return
  f = np.asarray(b.f)
  gf = f.T @ f * wf
  rec.case(('factory_fourier', name), transitions=f.shape[1], outcome=gf.tobytes(), sample={'grid': name, 'M': M, 'L': L, 'nlon': nlon, 'nlat': nlat})
  rec.close(gf, np.eye(f.shape[1]), scale=1.0, C=1e4, site='factory_fourier_orthonormal', key=key)
  worst_unres = 0
  lgrid = np.arange(L)
  lat_ok = (lgrid[:, None] + lgrid[None, :]) <= 2 * nlat - 1
  p = np.asarray(b.p)          # (2M-1, nlat, L), rows duplicated for cos / sin
  for m in range(M):
    pm = p[sphere.real_index(m, 'c')]          # (nlat, L)
    gram = pm.T @ (pm * wp[:, None])
    want = np.zeros((L, L)); idx = np.arange(m, L); want[idx, idx] = 1.0
    rec.case(('factory_legendre', name, m), transitions=L - m, outcome=None)
    rec.close(np.where(lat_ok, gram, 0.0), np.where(lat_ok, want, 0.0), scale=float(L), C=1e4, site='factory_legendre_orthonormal_on_resolved_pairs', key=('factory_legendre', name, m))
    if m > 0:
      rec.exact(p[sphere.real_index(m, 's')], pm, site='factory_sin_rows_equal_cos_rows', key=('factory_legendre', name, m))
  rec.note('factory_unresolved_pairs_not_asserted', int((~lat_ok).sum()) * M)
  # quadrature weights integrate the constant: sum w = 4 pi
  w = np.asarray(g.quadrature_weights)
  rec.close(w.sum(), 4 * np.pi, scale=4 * np.pi, site='factory_weights_sum_4pi', key=key)


HISTORY_OPS = ('to_nodal', 'to_modal', 'integrate', 'quadrature_weights', 'laplacian', 'inverse_laplacian', 'd_dlon', 'cos_lat_d_dlat',
               'sec_lat_d_dlat_cos2', 'clip_wavenumbers', 'cos_lat_grad', 'div_cos_lat', 'mask')


def _history_unit(unit, rec):
  """Explicit-state search over HISTORIES of calls on one shared Grid object.  The Grid caches its basis matrices,
  weights, eigenvalues and recurrence coefficients (cached_property / module-level lru_cache returning shared mutable
  arrays), so "analysis inverts synthesis" and the integral identity must hold after ANY sequence of earlier calls,
  not only on a freshly built grid.  Every call sequence up to the depth bound over the operation alphabet is
  executed on a fresh Grid object; the output of every call must be bit-identical to the output of the same call made
  first on a fresh grid (hidden-state freedom), and the probe identities (round trip, integral == r^2 sqrt(4pi) x00)
  are evaluated in the state reached at the end of every sequence."""
  import jax.numpy as jnp
  shape = tuple(unit['shape']); sp = unit['spacing']; impl = unit['impl']; radius = unit['radius']
  impl = impl if isinstance(impl, str) else tuple(impl)
  M, L, nlon, nlat = shape
  tag = ['history', list(shape), sp, _tag(impl), radius]

  def build():
    return harness.make_grid(shape, sp, impl, radius=radius)
  g0 = build()
  ms, ns = g0.modal_shape, g0.nodal_shape
  gm = np.asarray(g0.mask, dtype=float)
  xm = np.cos(1.0 + 0.37 * np.arange(int(np.prod(ms)))).reshape(ms) * gm
  xm[..., L - 1:] = 0.0                         # band-limited probe below the top total wavenumber
  xm = jnp.asarray(np.stack([xm, np.flip(xm, 0) * gm]))
  xn = jnp.asarray(np.sin(0.3 + 0.11 * np.arange(2 * int(np.prod(ns)))).reshape((2,) + ns))

  def call(g, op):
    if op == 'to_nodal':
      return g.to_nodal(xm)
    if op == 'to_modal':
      return g.to_modal(xn)
    if op == 'integrate':
      return g.integrate(xn)
    if op == 'quadrature_weights':
      return g.quadrature_weights
    if op == 'mask':
      return g.mask
    if op in ('cos_lat_grad',):
      return jnp.stack(g.cos_lat_grad(xm))
    if op == 'div_cos_lat':
      return g.div_cos_lat((xm, xm[::-1]))
    return getattr(g, op)(xm)
  first = {op: np.array(call(build(), op)) for op in HISTORY_OPS}
  x00 = np.asarray(harness.to_real_layout(np.asarray(xm), shape, impl))[:, 0, 0]
  r = 1.0 if radius is None else radius
  seqs = [()]
  frontier = [()]
  for _ in range(unit['depth']):
    frontier = [s + (op,) for s in frontier for op in HISTORY_OPS]
    seqs += frontier
  resolved = sp == 'gauss' and 2 * (L - 2) <= 2 * nlat - 1 and 2 * (M - 1) < nlon
  for seq in seqs:
    key = ('history', tag, list(seq))
    g = build()
    outs = []
    for pos, op in enumerate(seq):
      out = np.array(call(g, op))
      outs.append(out)
      rec.exact(out, first[op], site='call_result_independent_of_earlier_calls', key=key, sig={'op': op, 'after': list(seq[:pos])[-2:]})
    # probe identities in the reached state
    nod = g.to_nodal(xm)
    back = np.asarray(g.to_modal(nod))
    integ = np.asarray(g.integrate(nod))
    rec.case(key, transitions=len(seq) + 3, outcome=back.tobytes() + integ.tobytes(), nontrivial=len(seq) > 0,
             sample={'config': tag, 'calls': list(seq)} if len(seq) in (0, unit['depth']) else None)
    rec.exact(np.asarray(nod), first['to_nodal'], site='synthesis_independent_of_history', key=key)
    if resolved:
      rec.close(back, np.asarray(xm), scale=1.0, site='roundtrip_identity_after_history', key=key)
      rec.close(integ, r ** 2 * harness.SQRT4PI * x00, scale=r ** 2 * harness.SQRT4PI, site='integral_identity_after_history', key=key)
  # two Grid objects alive at once (same configuration, and same configuration with another radius) share the module-level
  # caches: interleaved calls must not influence each other
  other_r = 2.5 if r == 1.0 else 1.0
  ga, gb, gc = build(), build(), harness.make_grid(shape, sp, impl, radius=other_r)
  key = ('history_two_grids', tag)
  for op in HISTORY_OPS:
    call(gc, op); call(gb, op)
    rec.exact(np.array(call(ga, op)), first[op], site='call_result_independent_of_other_grid_objects', key=key, sig={'op': op})
  rec.case(key, transitions=3 * len(HISTORY_OPS), outcome=None)


def work(unit, rec):
  if unit['kind'] == 'grid':
    _grid_unit(unit, rec)
  elif unit['kind'] == 'history':
    _history_unit(unit, rec)
  else:
    _factory_unit(unit, rec)
