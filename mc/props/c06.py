"""C06: IMEX integrators reach their design order, reduce to the underlying explicit / implicit method,
never amplify stiff implicit linear modes, and reject coefficient sets of inconsistent length.

Bounded-exhaustive enumeration on the real step functions of dinosaur.time_integration:

(a) order: every rooted tree with <= 4 nodes x every colouring explicit(F)/implicit(G) (G nodes have <= 1 child
    because G is linear; 2+4+11+34 = 51 coloured trees) x every integrator factory (Euler pair, CN-RK2, CN-RK3,
    CN-RK4, SIL3, imex_runge_kutta on four Ascher-Ruuth-Spiteri tableaux, centred semi-implicit leapfrog with
    start values from the exact solution) x step sizes x constant-component amplitudes.  One real step on the
    tree ODE of mc.ref.trees returns a^leaves h^n Phi(tau); B-series theory makes Phi(tau) = 1/gamma(tau) on
    all trees with <= p nodes equivalent to order p for every smooth F and linear G.  Only trees inside the
    *stated* design order of each scheme are asserted; all others are evaluated and counted.
(b) reduction: all-F trees (<= 5 / 6 nodes) must carry the elementary weights of the underlying explicit tableau
    (forward Euler, Heun, Williamson, Carpenter-Kennedy, SIL3-explicit, ARS-explicit; explicit leapfrog), all-G
    chains the Taylor coefficients of the closed-form stability function (1/(1-z), products of Crank-Nicolson
    sub-steps, the DIRK of SIL3, CN over 2h for the leapfrog); on u' = lambda u the one-step matrix must be the
    rotation-scaling of R(h lambda).
(c) stiffness: one real step on u' = lambda u (2x2 rotation-scaling as implicit part, F = 0) for every point of
    the lattice |h lambda| in 10^{-3..6} x arg in the closed left half-plane: spectral radius <= 1 (two-level
    companion map for the leapfrog, no Robert-Asselin filter).
(d) lengths: every (len alphas, betas, gammas) in {1..5}^3 and every (len a_ex, a_im, b_ex, b_im) in {0..4}^4
    obtained by truncating / extending the shipped coefficient sets: accepted iff consistent, else an exception
    at construction or at the first step.
"""
import itertools
import math

import numpy as np

from mc import core
from mc.ref import trees as rt

ID = 'C06'
TECHNIQUE = ('bounded-exhaustive enumeration (explicit-state) of coloured rooted trees x integrators x step sizes, a stiff '
             'eigenvalue lattice and all coefficient-length tuples on the real step functions, against B-series order '
             'conditions and closed-form reference tableaux / stability functions')
ASSUMPTIONS = [
    'B-series theory: order p for all smooth F and linear G <=> Phi(tau) = 1/gamma(tau) on the coloured trees with <= p nodes',
    'numpy float64 / exact rational arithmetic of the reference (mc/ref/trees.py), textbook tableaux transcribed from the cited papers',
    'CN-RK4 (Carpenter-Kennedy) is published and shipped as 13-digit decimals: its conditions are asserted to 1e-9 (1e3 units of the 12th digit), not to eps',
    'stiff non-amplification is decided on the enumerated (|h*lambda|, arg) lattice only; no claim between lattice points',
    'the harness closes the system with an exact resolvent of a nilpotent / rotation-scaling matrix (implicit_inverse is trusted here, C03 checks the real one)',
    'length tuples beyond {1..5}^3 and {0..4}^4 and row lengths inside a tableau are not covered (over-long rows are counted, not asserted)',
]
RULE = ('case = (part, integrator, step size, amplitude, coloured tree) | (stiff, integrator, h, |z| exponent, arg) | '
        '(length, base set, length tuple); distinct = distinct canonical key; transitions = real step-function '
        'applications (+ constructor calls for rejected tuples); outcome = bytes of the state returned by the real '
        'step (or the accept/reject verdict); non-trivial = the step was executed')

ONE_STEP = ['backward_forward_euler', 'crank_nicolson_rk2', 'crank_nicolson_rk3', 'crank_nicolson_rk4', 'imex_rk_sil3']
TEXTBOOK = ['imex_runge_kutta:' + k for k in rt.TEXTBOOK_IMEX]
LEAPFROG = ['semi_implicit_leapfrog', 'semi_implicit_leapfrog:alpha=0.5']   # default alpha, and alpha passed explicitly
# off-centred leapfrog: alpha is the documented weight of the FUTURE level in the implicit terms
# (shallow_water.py: f_i(alpha * future + (1 - alpha) * previous)), i.e. the theta method over 2h with theta = alpha;
# A-stable for alpha >= 1/2, so the non-amplification clause of the property applies to these values
LEAPFROG_ALPHAS = [0.625, 0.75, 1.0]
STIFF_METHODS = ONE_STEP + ['semi_implicit_leapfrog'] + ['semi_implicit_leapfrog:alpha=%s' % a for a in LEAPFROG_ALPHAS]


def _tier(tier):
  if tier == 'thorough':
    return dict(hs=[0.5, -0.25, 1.0, -2.0], reduction_nodes=6, stiff_hs=[1.0, 2.0 ** -7, 64.0])
  return dict(hs=[0.5, -0.25], reduction_nodes=5, stiff_hs=[1.0])


def bounds(tier):
  t = _tier(tier)
  exps, angles = rt.stiff_lattice(tier)
  return dict(coloured_trees='all rooted trees with <= 4 nodes x all F/G colourings (G nodes <= 1 child): 2+4+11+34 = 51',
              reduction_trees='all-F trees and all-G chains with <= %d nodes' % t['reduction_nodes'],
              integrators=ONE_STEP + TEXTBOOK + LEAPFROG, step_sizes=t['hs'],
              amplitudes='core.palette(seed, tier) as the constant component',
              stiff_lattice=dict(log10_abs_z=[exps[0], exps[-1], exps[1] - exps[0]], arg_degrees=angles,
                                 points=len(exps) * len(angles), step_sizes=t['stiff_hs'], integrators=STIFF_METHODS),
              caller_forms='zero-padded square tableaux (SIL3 + 4 ARS) vs ragged; caller-owned float64 coefficient arrays reused for 3 steppers (RK3, RK4) and 2 tableaux (SIL3)',
              length_tuples=dict(low_storage='{1..5}^3 x 2 base sets (RK3 extended, RK4 truncated)', imex='{0..4}^4 from SIL3',
                                 imex_rows='each of the 6 SIL3 rows one entry shorter / longer'))


def units(tier, seed):
  t = _tier(tier)
  amps = sorted({a for p in core.palette(seed, tier) for a in p}, key=lambda a: (abs(a), a))
  us = []
  for m in ONE_STEP + TEXTBOOK + LEAPFROG:
    for h in t['hs']:
      us.append(dict(kind='order', method=m, h=h, amps=amps, reduction_nodes=t['reduction_nodes']))
  exps, angles = rt.stiff_lattice(tier)
  for m in STIFF_METHODS:
    for e in exps:
      us.append(dict(kind='stiff', method=m, exp=e, angles=angles, hs=t['stiff_hs']))
  for base in ('rk3', 'rk4'):
    us.append(dict(kind='len_rk', base=base))
  for l in range(5):
    us.append(dict(kind='len_imex', l_a_ex=l))
  us.append(dict(kind='len_imex_rows'))
  us.append(dict(kind='caller_forms'))
  return us


# ---------------------------------------------------------------------------------------------------
# closing the system: equations handed to the real integrators
# ---------------------------------------------------------------------------------------------------


def _tree_equation(ode):
  import jax.numpy as jnp
  import jax.scipy.linalg as jsl
  from dinosaur import time_integration as ti
  n1 = ode.n + 1
  Gm = jnp.asarray(ode.G)
  eye = jnp.eye(n1)
  f_nodes = ode.f_nodes
  zero = jnp.zeros(())

  def F(u):
    out = [zero] * n1
    for i, idx in f_nodes:
      v = u[idx[0]]
      for j in idx[1:]:
        v = v * u[j]
      out[i] = v
    return jnp.stack(out)

  def G(u):
    return Gm @ u

  def G_inv(u, eta):
    # I - eta*G is unit upper triangular (children carry larger indices): exact back substitution
    return jsl.solve_triangular(eye - eta * Gm, u, lower=False)

  return ti.ImplicitExplicitODE.from_functions(F, G, G_inv)


def _rotation_equation(re, im):
  """u' = A u, A = [[re, -im], [im, re]] purely implicit, F = 0; state may carry trailing batch axes."""
  import jax.numpy as jnp
  from dinosaur import time_integration as ti

  def F(u):
    return jnp.zeros_like(u)

  def G(u):
    return jnp.stack([re * u[0] - im * u[1], im * u[0] + re * u[1]])

  def G_inv(u, eta):
    p = 1.0 - eta * re
    q = eta * im
    d = p * p + q * q
    return jnp.stack([p * u[0] - q * u[1], q * u[0] + p * u[1]]) / d

  return ti.ImplicitExplicitODE.from_functions(F, G, G_inv)


def _factory(method):
  """(equation, h) -> step function of the real library; the textbook tableaux go through imex_runge_kutta."""
  from dinosaur import time_integration as ti
  if method.startswith('imex_runge_kutta:'):
    t = rt.TEXTBOOK_IMEX[method.split(':')[1]]
    tab = ti.ImExButcherTableau(a_ex=t['a_ex'], a_im=t['a_im'], b_ex=t['b_ex'], b_im=t['b_im'])
    return lambda eq, h: ti.imex_runge_kutta(tab, eq, h)
  if method == 'semi_implicit_leapfrog':
    return lambda eq, h: ti.semi_implicit_leapfrog(eq, h)
  if method.startswith('semi_implicit_leapfrog:alpha='):
    alpha = float(method.split('=')[1])
    return lambda eq, h: ti.semi_implicit_leapfrog(eq, h, alpha)
  return getattr(ti, method)


def _exact_z(r, deg):
  """r*exp(i*deg) with exact zeros on the axes (cos 90deg must not leak into the right half-plane)."""
  if deg == 90:
    return 0.0, r
  if deg == -90:
    return 0.0, -r
  if deg == 180:
    return -r, 0.0
  a = math.radians(deg)
  return r * math.cos(a), r * math.sin(a)


# ---------------------------------------------------------------------------------------------------
# work
# ---------------------------------------------------------------------------------------------------


def work(unit, rec):
  kind = unit['kind']
  if kind == 'order':
    return _work_order(unit, rec)
  if kind == 'stiff':
    return _work_stiff(unit, rec)
  if kind == 'len_rk':
    return _work_len_rk(unit, rec)
  if kind == 'len_imex':
    return _work_len_imex(unit, rec)
  if kind == 'len_imex_rows':
    return _work_len_imex_rows(unit, rec)
  if kind == 'caller_forms':
    return _work_caller_forms(unit, rec)
  raise ValueError(kind)


def _work_order(unit, rec):
  import jax.numpy as jnp
  method, h = unit['method'], unit['h']
  base = method.split(':alpha')[0]
  leap = base == 'semi_implicit_leapfrog'
  factory = _factory(method)
  # 13-digit tabulated coefficients: conditions hold to that precision only
  tab = base == 'crank_nicolson_rk4'
  tol = dict(C=1e3, eps=rt.TABULATED_DIGITS_EPS) if tab else dict(C=1e4, eps=core.EPS)
  tol_abs = tol['C'] * tol['eps']
  sig = {'method': method}

  general = [ct for n in range(1, 5) for ct in rt.coloured_trees(n)]
  extra = []
  for n in range(5, unit['reduction_nodes'] + 1):
    extra += [rt.colourings(t, ('F',))[0] for t in rt.rooted_trees(n)] + [rt.chain('G', n)]
  if not leap:
    Ab = rt.explicit_tableau(base)
    rser = rt.implicit_series(base, unit['reduction_nodes'])

  for amp in unit['amps']:
    for ct in general + extra:
      name = rt.show(ct)
      key = ('order', method, h, amp, name)
      if not rec.want(key):
        continue
      ode = rt.TreeODE(ct, amp)
      eq = _tree_equation(ode)
      step = factory(eq, h)
      u0 = jnp.asarray(ode.u0)
      if leap:
        prev = jnp.asarray(ode.exact(-h))
        cur_out, fut = step((prev, u0))
        u1 = np.asarray(fut)
      else:
        u1 = np.asarray(step(u0))
      n = ode.n
      phi = float(u1[0]) / ode.root_scale(h)
      want = 1.0 / rt.gamma(ct)
      cols = rt.colours_of(ct)
      which = rt.asserted(base, ct) if n <= 4 else None
      rec.case(key, transitions=1, outcome=u1.tobytes(),
               sample={'integrator': method, 'h': h, 'amplitude': amp, 'tree': name, 'nodes': n, 'gamma': rt.gamma(ct),
                       'Phi_measured': phi, 'one_over_gamma': want, 'asserted_set': which})
      rec.finite(u1, site='step_finite', key=key, sig=sig)
      # (a) design order
      if which is not None:
        rec.close(phi, want, scale=1.0, site='order_condition[%s]' % which, key=key, sig=dict(sig, tree=name), **tol)
      elif n <= 4:
        ok = abs(phi - want) <= tol_abs
        rec.note('above_design_order:%s:%s' % (base, 'satisfied' if ok else 'not_satisfied'))
      # (b) reduction to the underlying explicit / implicit method
      if cols == {'F'}:
        if leap:
          ref = rt.leapfrog_explicit_root(ode, h) / ode.root_scale(h)
        else:
          ref = rt.elementary_weight(ct, {'F': Ab})
        rec.close(phi, ref, scale=1.0, site='reduces_to_explicit_method_when_G=0', key=key, sig=dict(sig, tree=name), **tol)
      if cols == {'G'}:
        if leap:
          ref = rt.leapfrog_implicit_root(n, amp, h) / ode.root_scale(h)
          scale = 4.0
        else:
          ref = rser[n]
          scale = 1.0
        rec.close(phi, ref, scale=scale, site='reduces_to_implicit_method_when_F=0', key=key, sig=dict(sig, tree=name), **tol)


def _work_stiff(unit, rec):
  import jax.numpy as jnp
  method, e = unit['method'], unit['exp']
  leap = method.startswith('semi_implicit_leapfrog')
  alpha = float(method.split('=')[1]) if '=' in method else 0.5
  factory = _factory(method)
  tab = method == 'crank_nicolson_rk4'
  sig = {'method': method}
  r = 10.0 ** e
  for h in unit['hs']:
    for deg in unit['angles']:
      key = ('stiff', method, h, e, deg)
      if not rec.want(key):
        continue
      zr, zi = _exact_z(r, deg)
      z = complex(zr, zi)
      eq = _rotation_equation(zr / h, zi / h)       # lambda = z / h, h a power of two: exact
      step = factory(eq, h)
      if leap:
        prev = jnp.asarray(np.hstack([np.eye(2), np.zeros((2, 2))]))
        cur = jnp.asarray(np.hstack([np.zeros((2, 2)), np.eye(2)]))
        c2, fut = step((prev, cur))
        M = np.vstack([np.asarray(c2), np.asarray(fut)])                  # (prev, cur) -> (cur, fut)
        rr = (1.0 + 2.0 * (1.0 - alpha) * z) / (1.0 - 2.0 * alpha * z)    # theta method over 2h, theta = alpha (alpha = 1/2: R_CN(2z)): fut = R prev
        R2 = np.array([[rr.real, -rr.imag], [rr.imag, rr.real]])
        Mref = np.block([[np.zeros((2, 2)), np.eye(2)], [R2, np.zeros((2, 2))]])
        scale = 1.0
      else:
        M = np.asarray(step(jnp.asarray(np.eye(2))))
        R, scale = rt.implicit_stability(method, z)
        Mref = np.array([[R.real, -R.imag], [R.imag, R.real]])
      rec.case(key, transitions=1, outcome=M.tobytes(),
               sample={'integrator': method, 'h': h, 'h_lambda': [zr, zi], 'one_step_matrix': M.tolist()})
      if not rec.finite(M, site='stiff_step_finite', key=key, sig=sig):
        continue
      rho = float(np.max(np.abs(np.linalg.eigvals(M))))
      rec.close(max(rho, 1.0), 1.0, scale=scale, site='stiff_spectral_radius_le_1', key=key, sig=sig,
                extra={'spectral_radius': rho, 'h_lambda': [zr, zi]})
      tol = dict(C=1e3, eps=rt.TABULATED_DIGITS_EPS) if tab else {}
      rec.close(M, Mref, scale=scale, site='one_step_map_is_stability_function_when_F=0', key=key, sig=sig, **tol)


def _accepts(build_and_step):
  try:
    out = build_and_step()
    return True, np.asarray(out), None
  except Exception as ex:  # any exception, at construction or at the first step, is a rejection
    return False, None, type(ex).__name__


def _small_equation():
  import jax.numpy as jnp
  from dinosaur import time_integration as ti
  Gm = jnp.asarray([[-1.0, 0.5], [0.0, -2.0]])
  F = lambda u: jnp.stack([u[0] * u[1], 1.0 + 0.0 * u[1]])
  G = lambda u: Gm @ u
  G_inv = lambda u, eta: jnp.linalg.solve(jnp.eye(2) - eta * Gm, u)
  return ti.ImplicitExplicitODE.from_functions(F, G, G_inv), jnp.asarray([0.5, -0.25])


def _work_len_rk(unit, rec):
  from dinosaur import time_integration as ti
  eq, u0 = _small_equation()
  if unit['base'] == 'rk3':   # shipped RK3 set, extended by neutral coefficients
    w = rt.WILLIAMSON_RK3
    pool = ([float(x) for x in w['alphas']] + [1.0], [float(x) for x in w['betas']] + [0.0, 0.0],
            [float(x) for x in w['gammas']] + [0.0, 0.0])
  else:                       # shipped RK4 set, truncated
    w = rt.CARPENTER_KENNEDY_RK4
    pool = ([float(x) for x in w['alphas']][:5], [float(x) for x in w['betas']], [float(x) for x in w['gammas']])
  for la, lb, lg in itertools.product(range(1, 6), repeat=3):
    key = ('len_rk', unit['base'], la, lb, lg)
    if not rec.want(key):
      continue
    a, b, g = pool[0][:la], pool[1][:lb], pool[2][:lg]
    got, out, exc = _accepts(lambda: ti.low_storage_runge_kutta_crank_nicolson(a, b, g, eq, 0.125)(u0))
    want = rt.low_storage_lengths_consistent(la, lb, lg)
    rec.case(key, transitions=1, outcome=(got, exc, out.tobytes() if got else None),
             sample={'function': 'low_storage_runge_kutta_crank_nicolson', 'lengths(alphas,betas,gammas)': [la, lb, lg],
                     'accepted': got, 'exception': exc})
    rec.check(got == want, 'low_storage_lengths_accepted_iff_consistent', key,
              {'lengths(alphas,betas,gammas)': [la, lb, lg], 'accepted': got, 'consistent': want, 'exception': exc},
              sig={'function': 'low_storage_runge_kutta_crank_nicolson', 'silently_accepted': bool(got and not want)})
    if got:
      rec.finite(out, site='low_storage_step_finite', key=key)


def _sil3_pools():
  s = rt.SIL3
  a_ex = [[float(v) for v in row] for row in s['a_ex']] + [[0.25, 0.25, 0.25, 0.25]]
  a_im = [[float(v) for v in row] for row in s['a_im']] + [[0.2, 0.2, 0.2, 0.2, 0.2]]
  b_ex = [float(v) for v in s['b_ex']]
  b_im = [float(v) for v in s['b_im']]
  return a_ex, a_im, b_ex, b_im


def _imex_step(ti, eq, u0, a_ex, a_im, b_ex, b_im):
  tab = ti.ImExButcherTableau(a_ex=a_ex, a_im=a_im, b_ex=b_ex, b_im=b_im)
  return ti.imex_runge_kutta(tab, eq, 0.125)(u0)


def _work_len_imex(unit, rec):
  from dinosaur import time_integration as ti
  eq, u0 = _small_equation()
  A_ex, A_im, B_ex, B_im = _sil3_pools()
  l1 = unit['l_a_ex']
  for l2, l3, l4 in itertools.product(range(5), repeat=3):
    key = ('len_imex', l1, l2, l3, l4)
    if not rec.want(key):
      continue
    got, out, exc = _accepts(lambda: _imex_step(ti, eq, u0, A_ex[:l1], A_im[:l2], B_ex[:l3], B_im[:l4]))
    want = rt.imex_lengths_consistent(l1, l2, l3, l4)
    rec.case(key, transitions=1, outcome=(got, exc, out.tobytes() if got else None),
             sample={'function': 'ImExButcherTableau + imex_runge_kutta', 'lengths(a_ex,a_im,b_ex,b_im)': [l1, l2, l3, l4],
                     'accepted': got, 'exception': exc})
    rec.check(got == want, 'imex_tableau_lengths_accepted_iff_consistent', key,
              {'lengths(a_ex,a_im,b_ex,b_im)': [l1, l2, l3, l4], 'accepted': got, 'consistent': want, 'exception': exc},
              sig={'function': 'imex_runge_kutta', 'silently_accepted': bool(got and not want)})
    if got:
      rec.finite(out, site='imex_step_finite', key=key)


def _work_caller_forms(unit, rec):
  """The same coefficient set handed over in the other forms a caller may use must give the same scheme:
  (a) a tableau whose rows are zero-padded to full width (the textbook matrix form) is either rejected or steps
      exactly like the ragged form (never a different scheme);
  (b) coefficient arrays owned by the caller (float64 numpy arrays) are not modified by building or running a
      stepper, and a second stepper built from the same arrays equals the first and the shipped factory."""
  import jax.numpy as jnp
  from dinosaur import time_integration as ti
  eq, u0 = _small_equation()
  h = 0.125
  # (a) zero-padded tableaux
  tabs = {'sil3': {k: [[float(v) for v in row] for row in rt.SIL3[k]] if k.startswith('a_') else [float(v) for v in rt.SIL3[k]] for k in rt.SIL3}}
  for name, t in rt.TEXTBOOK_IMEX.items():
    tabs[name] = {k: t[k] for k in ('a_ex', 'a_im', 'b_ex', 'b_im')}
  for name, t in tabs.items():
    key = ('padded_tableau', name)
    width = len(t['b_ex'])
    pad = lambda rows: [list(r) + [0.0] * (width - len(r)) for r in rows]
    ragged = np.asarray(_imex_step(ti, eq, u0, t['a_ex'], t['a_im'], t['b_ex'], t['b_im']))
    got, out, exc = _accepts(lambda: _imex_step(ti, eq, u0, pad(t['a_ex']), pad(t['a_im']), t['b_ex'], t['b_im']))
    rec.case(key, transitions=2, outcome=(got, exc, out.tobytes() if got else None),
             sample={'tableau': name, 'form': 'rows zero-padded to width %d' % width, 'accepted': got, 'exception': exc})
    if got:
      rec.close(out, ragged, scale=1.0, site='zero_padded_tableau_is_the_same_scheme', key=key, sig={'tableau': name})
    else:
      rec.note('zero_padded_tableau_rejected')
  # (b) caller-owned numpy coefficient arrays
  for base, w, shipped in (('rk3', rt.WILLIAMSON_RK3, ti.crank_nicolson_rk3), ('rk4', rt.CARPENTER_KENNEDY_RK4, ti.crank_nicolson_rk4)):
    key = ('caller_arrays', base)
    arrs = {k: np.array([float(x) for x in w[k]], dtype=np.float64) for k in ('alphas', 'betas', 'gammas')}
    keep = {k: v.copy() for k, v in arrs.items()}
    outs = []
    for rep in range(3):
      step = ti.low_storage_runge_kutta_crank_nicolson(arrs['alphas'], arrs['betas'], arrs['gammas'], eq, h)
      outs.append(np.asarray(step(u0)))
      for k in arrs:
        rec.exact(arrs[k], keep[k], site='caller_owned_coefficients_not_modified', key=key, sig={'array': k, 'after_stepper': rep})
    want = np.asarray(shipped(eq, h)(u0))
    tol = dict(C=1e3, eps=rt.TABULATED_DIGITS_EPS) if base == 'rk4' else {}
    rec.case(key, transitions=4, outcome=b''.join(o.tobytes() for o in outs), sample={'function': 'low_storage_runge_kutta_crank_nicolson', 'coefficients': base, 'steppers_built_from_the_same_arrays': 3})
    for rep, o in enumerate(outs):
      rec.close(o, want, scale=1.0, site='stepper_from_caller_arrays_equals_shipped_scheme', key=key, sig={'stepper': rep}, **tol)
      rec.exact(o, outs[0], site='repeated_construction_gives_the_same_stepper', key=key, sig={'stepper': rep})
  # ... and the IMEX tableau built from numpy rows, twice
  key = ('caller_arrays', 'sil3')
  t = tabs['sil3']
  a_ex = [np.array(r) for r in t['a_ex']]; a_im = [np.array(r) for r in t['a_im']]; b_ex = np.array(t['b_ex']); b_im = np.array(t['b_im'])
  keep = [x.copy() for x in a_ex + a_im + [b_ex, b_im]]
  outs = [np.asarray(_imex_step(ti, eq, u0, a_ex, a_im, b_ex, b_im)) for _ in range(2)]
  for x, k in zip(a_ex + a_im + [b_ex, b_im], keep):
    rec.exact(x, k, site='caller_owned_coefficients_not_modified', key=key)
  rec.case(key, transitions=2, outcome=outs[0].tobytes() + outs[1].tobytes())
  rec.exact(outs[1], outs[0], site='repeated_construction_gives_the_same_stepper', key=key)
  rec.close(outs[0], np.asarray(ti.imex_rk_sil3(eq, h)(u0)), scale=1.0, site='stepper_from_caller_arrays_equals_shipped_scheme', key=key)


def _work_len_imex_rows(unit, rec):
  """Row lengths inside the SIL3 tableau: a row one entry short must raise; a row one entry long is counted only."""
  from dinosaur import time_integration as ti
  eq, u0 = _small_equation()
  A_ex, A_im, B_ex, B_im = _sil3_pools()
  A_ex, A_im = A_ex[:3], A_im[:3]
  ref_ok, ref_out, _ = _accepts(lambda: _imex_step(ti, eq, u0, A_ex, A_im, B_ex, B_im))
  for which, row, delta in itertools.product(('a_ex', 'a_im'), range(3), (-1, +1)):
    key = ('len_imex_rows', which, row, delta)
    if not rec.want(key):
      continue
    ae = [list(r) for r in A_ex]
    ai = [list(r) for r in A_im]
    tgt = ae if which == 'a_ex' else ai
    tgt[row] = tgt[row][:-1] if delta < 0 else tgt[row] + [7.0]
    got, out, exc = _accepts(lambda: _imex_step(ti, eq, u0, ae, ai, B_ex, B_im))
    rec.case(key, transitions=1, outcome=(got, exc, out.tobytes() if got else None),
             sample={'tableau': 'SIL3', 'row': [which, row], 'entries_added': delta, 'accepted': got, 'exception': exc})
    if delta < 0:
      rec.check(not got, 'imex_tableau_short_row_rejected', key, {'row': [which, row], 'accepted': got},
                sig={'function': 'imex_runge_kutta'})
    else:
      unused = bool(got and ref_ok and np.array_equal(out, ref_out))
      rec.note('imex_over_long_row:%s' % ('accepted_extra_entry_unused' if unused else ('accepted' if got else 'rejected')))
