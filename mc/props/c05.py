"""C05: tendencies match the continuous equations; balanced states are exactly steady.

Generic part: the alphabet is the unit excitation of one spectral coefficient (field, level, (m,l,kind))
with l <= lmax; the explored states are ALL multisets of <= 3 excitations (the simplex lattice that is
unisolvent for cubic polynomial maps, reached breadth-first by "add one excitation").  Every state is run
through explicit_terms + implicit_terms of the real equation classes (batched with vmap) and compared,
coefficient by coefficient below the top total wavenumber, with the independent reference model of the
continuous sigma-coordinate equations (mc/ref/pe.py, mc/ref/sw.py).  A fourth finite difference along
lattice directions checks the degree bound the unisolvence argument relies on.

Balanced families: resting isothermal atmosphere over EVERY single-mode orography (a basis) and pairwise
sums; solid-body rotation in gradient-wind balance (two variants) with uniform humidity for the moist
classes; geostrophically balanced zonal jets of the layered shallow-water system.  Oracle: total tendency
== 0 within C*eps*(largest cancelling term).

Extensions after the seeded-breakage rounds (DESIGN.md 8.5): Planet sequences: several planets (rotation rate incl. zero and retrograde, gravity) are evaluated one after the other in one process on equal grids against the reference model with the same constants.
"""
import itertools
import numpy as np

from mc import core, harness
from mc.ref import sphere

ID = 'C05'
TECHNIQUE = 'explicit-state BFS over multisets of unit excitations (simplex lattice, depth 3) on the real tendencies vs an independent reference model; exhaustive balanced-state families'
ASSUMPTIONS = [
    'mc/ref/pe.py, mc/ref/sw.py: continuous equations + documented vertical differences, numpy float64, exact reference quadrature',
    'unisolvence: a polynomial map of degree <= 3 is determined by its values on the simplex lattice of depth 3; the degree bound is itself checked by 4th differences',
    'moist equations are rational in humidity: their comparison is a statement about the enumerated lattice only',
    'states above the enumerated degree lmax and grids other than the enumerated ones are not covered',
]
RULE = ('state = sorted multiset of <= 3 unit excitations (canonical key), explored breadth-first; transitions = "add one excitation" edges; '
        'non-trivial = implementation tendency not identically zero; distinct outcomes = distinct tendency byte patterns')

IRREGULAR3 = [0.0, 0.2, 0.55, 1.0]
IRREGULAR5 = [0.0, 0.07, 0.3, 0.45, 0.8, 1.0]
TREF3 = [210.0, 250.0, 290.0]
TABS3 = [220.0, 255.0, 285.0]
CHUNK = 370


def bounds(tier):
  planets = '%d planets (rotation, gravity as multiples of Earth: %s) evaluated one after the other in ONE process on equal grids, depth-2 lattice each' % (len(PLANETS), [list(p) for p in PLANETS])
  if tier == 'quick':
    return dict(planet_sequences=planets, dry_lattice='K=3 irregular levels, lmax=1, depth 3 (7,770 states) on with_wavenumbers(7,cubic), real layout',
                moist_lattice='depth 2 x 3 humidity fields', balanced='rest: every orography mode l<=L-2 + pairwise sums x 3 T0; solid body U in {-0.02,0.02,0.07} x A/B x 4 reference profiles x dry/moist',
                shallow_water='depth-2 lattice K in 1..3; jets cos(lat)*mu^p, p<=3, and pairwise sums, K in 1..3')
  return dict(planet_sequences=planets, dry_lattice='K=3 lmax=2 depth 3 (105,995 states) + K=5 lmax=1 depth 3, real + fast layouts',
              moist_lattice='depth 3 x 3 humidity fields', balanced='as quick plus a second grid and equiangular spacing',
              shallow_water='depth-3 lattice K in 1..3; jets as quick on two grids')


def _lattice_cfg(tier):
  cfgs = [dict(name='dry_K3_l1', cls='PrimitiveEquations', K=3, bounds=IRREGULAR3, lmax=1, depth=3, shape=list(harness.with_wavenumbers_shape(7, 'cubic')),
               impl='real', tref=TREF3, tabs=TABS3)]
  if tier == 'thorough':
    cfgs.append(dict(name='dry_K3_l2', cls='PrimitiveEquations', K=3, bounds=IRREGULAR3, lmax=2, depth=3, shape=list(harness.with_wavenumbers_shape(10, 'cubic')),
                     impl='real', tref=TREF3, tabs=TABS3))
    cfgs.append(dict(name='dry_K5_l1', cls='PrimitiveEquationsWithTime', K=5, bounds=IRREGULAR5, lmax=1, depth=3, shape=list(harness.with_wavenumbers_shape(7, 'cubic')),
                     impl=['fast', 2, True, False], tref=[200.0, 230.0, 250.0, 280.0, 300.0], tabs=[215.0, 228.0, 256.0, 271.0, 296.0]))
  return cfgs


def units(tier, seed):
  pal = core.palette(seed, tier)
  us = []
  for cfg in _lattice_cfg(tier):
    M = cfg['shape'][0]
    n = len(harness.pe_alphabet(cfg['K'], cfg['lmax'], M))
    total = sum(_count_multisets(n, d) for d in range(cfg['depth'] + 1))
    for p in pal:
      for start in range(0, total, CHUNK):
        us.append(dict(kind='lattice', cfg=cfg, start=start, stop=min(total, start + CHUNK), palette=p))
    us.append(dict(kind='degree', cfg=cfg, palette=pal[0]))
  # several planets in one process on equal grids: rotation rate (incl. zero and retrograde) and gravity are constants of
  # the physics specs, not of the grid; nothing may be remembered from the planet evaluated before
  for cls in (('PrimitiveEquations',) if tier == 'quick' else ('PrimitiveEquations', 'MoistPrimitiveEquations')):
    us.append(dict(kind='planets', cls=cls, palette=pal[0], depth=2))
  # moist lattice: dry-state lattice of smaller depth crossed with 3 humidity fields
  mdepth = 2 if tier == 'quick' else 3
  mcfg = dict(name='moist_K3_l1', cls='MoistPrimitiveEquations', K=3, bounds=IRREGULAR3, lmax=1, depth=mdepth, shape=[7, 8, 36, 18],
              impl='real', tref=TREF3, tabs=TABS3)
  n = len(harness.pe_alphabet(3, 1, 7))
  total = sum(_count_multisets(n, d) for d in range(mdepth + 1))
  for p in pal:
    for qi in range(3):
      for start in range(0, total, CHUNK):
        us.append(dict(kind='moist', cfg=mcfg, q=qi, start=start, stop=min(total, start + CHUNK), palette=p))
  # balanced families
  shapes = [list(harness.with_wavenumbers_shape(6, 'cubic'))] + ([list(harness.with_wavenumbers_shape(9, 'quadratic'))] if tier == 'thorough' else [])
  for shape in shapes:
    for sp in (('gauss',) if tier == 'quick' else ('gauss', 'equiangular')):
      for impl in ('real', ['fast', 2, False, True]):
        for cls in ('PrimitiveEquations', 'MoistPrimitiveEquations'):
          us.append(dict(kind='rest', shape=shape, spacing=sp, impl=impl, cls=cls, bounds=IRREGULAR5))
          us.append(dict(kind='solid', shape=shape, spacing=sp, impl=impl, cls=cls, bounds=IRREGULAR5))
  # shallow water
  sdepth = 2 if tier == 'quick' else 3
  for K in (1, 2, 3):
    for p in pal:
      us.append(dict(kind='sw_lattice', K=K, depth=sdepth, lmax=1 if tier == 'quick' else 2, palette=p,
                     shape=list(harness.with_wavenumbers_shape(7 if tier == 'quick' else 9, 'cubic'))))
    # potential of the jet cos(lat)*mu^3 has degree 8: the grid must keep it below the top wavenumber (L >= 10)
    for shape in ([list(harness.with_wavenumbers_shape(10, 'cubic'))] + ([[10, 12, 40, 20]] if tier == 'thorough' else [])):
      for impl in ('real', ['fast', 4, True, False]):
        us.append(dict(kind='sw_jets', K=K, shape=shape, impl=impl))
  return us


def _count_multisets(n, d):
  from math import comb
  return comb(n + d - 1, d)


# -- generic lattice ---------------------------------------------------------------------------

def _orography(M, L, amp=2e-4):
  """fixed degree-2 orography (Real layout): a few low modes with distinct amplitudes"""
  o = np.zeros((2 * M - 1, L))
  o[0, 1] = amp; o[0, 2] = -0.5 * amp
  if M > 1:
    o[1, 1] = 0.7 * amp; o[2, 2] = -0.3 * amp
  if M > 2:
    o[3, 2] = 0.4 * amp
  return o


_CACHE = {}


def _lattice_setup(cfg):
  import jax
  key = cfg['name']
  if key in _CACHE:
    return _CACHE[key]
  shape = tuple(cfg['shape']); impl = cfg['impl'] if isinstance(cfg['impl'], str) else tuple(cfg['impl'])
  M, L = shape[0], shape[1]
  specs = harness.pe_specs()
  coords = harness.make_coords(shape, cfg['bounds'], impl=impl, radius=specs.radius)
  orog = _orography(M, L)
  eq = harness.make_pe(cfg['cls'], coords, cfg['tref'], orog, specs, impl=impl)
  ftot = jax.jit(jax.vmap(harness.total_tendency_fn(eq)))
  ref = harness.ref_pe_for(shape, cfg['bounds'], specs, degree=cfg['lmax'])
  alphabet = harness.pe_alphabet(cfg['K'], cfg['lmax'], M)
  msets = harness.multisets(len(alphabet), cfg['depth'])
  _CACHE[key] = (shape, impl, specs, coords, orog, eq, ftot, ref, alphabet, msets)
  return _CACHE[key]


PLANETS = ((1.0, 1.0), (2.5, 1.0), (0.0, 1.0), (-1.0, 0.7), (1.0, 1.0))      # (rotation rate, gravity) as multiples of the Earth values


def _planets_unit(unit, rec):
  import jax
  from dinosaur import primitive_equations as pe
  from dinosaur import scales
  cls = unit['cls']; pal = unit['palette']
  moist = cls.startswith('Moist')
  shape = (7, 8, 36, 18) if moist else tuple(harness.with_wavenumbers_shape(7, 'cubic'))
  M, L = shape[0], shape[1]
  K = 3
  alphabet = harness.pe_alphabet(K, 1, M)
  msets = harness.multisets(len(alphabet), unit['depth'])
  st = harness.states_from_multisets(alphabet, msets, K, M, L, pal)
  tref = np.asarray(TREF3); tabs = np.asarray(TABS3)
  temp_var = st['temperature'].copy(); temp_var[:, :, 0, 0] += harness.SQRT4PI * (tabs - tref)
  temp_abs = st['temperature'].copy(); temp_abs[:, :, 0, 0] += harness.SQRT4PI * tabs
  orog = _orography(M, L)
  B = len(msets)
  tracers = {}
  if moist:
    q = np.zeros((B, K, 2 * M - 1, L)); q[:, :, 0, 0] = 0.008 * harness.SQRT4PI; q[:, 1, 1, 1] = 1.5e-3
    tracers['specific_humidity'] = q
  sel = slice(0, L - 1)
  for pi, (fo, fg) in enumerate(PLANETS):
    specs = pe.PrimitiveEquationsSpecs.from_si(angular_velocity_si=fo * scales.ANGULAR_VELOCITY, gravity_acceleration_si=fg * scales.GRAVITY_ACCELERATION)
    coords = harness.make_coords(shape, IRREGULAR3, impl='real', radius=specs.radius)
    eq = harness.make_pe(cls, coords, tref, orog, specs, impl='real')
    state = harness.pe_state(cls, coords, 'real', st['vorticity'], st['divergence'], temp_var, st['lnps'], tracers=tracers,
                             sim_time=np.zeros(B) if cls != 'PrimitiveEquations' else 0.0)
    got = harness.pe_tendency_to_real(jax.vmap(harness.total_tendency_fn(eq))(state), shape, 'real')
    ref = harness.ref_pe_for(shape, IRREGULAR3, specs, degree=1, moist=moist, **(dict(nlat=40, nlon=48) if moist else {}))
    want = ref.tendency(st['vorticity'], st['divergence'], temp_abs, st['lnps'], orog, q=tracers.get('specific_humidity'))
    key = ('planets', cls, pi, [fo, fg], pal)
    base = max(1.0, specs.g * np.abs(orog).max() * L * (L + 1), specs.R * tabs.max() * L * (L + 1) * 0.05)
    scales_ = dict(vorticity=base, divergence=base, temperature=tabs.max(), lnps=1.0)
    rec.case(key, transitions=B, outcome=got['vorticity'].tobytes(), sample={'class': cls, 'planet_index_in_process': pi, 'rotation_x_earth': fo, 'gravity_x_earth': fg, 'states': B})
    for f in ('vorticity', 'divergence', 'temperature', 'lnps'):
      rec.close(got[f][..., sel], want[f][..., sel], scale=scales_[f], C=1e5, site='tendency_vs_continuous_equations[planet sequence]:' + f, key=key,
                sig={'planet': pi})


def _lattice_unit(unit, rec):
  import jax.numpy as jnp
  cfg = unit['cfg']
  shape, impl, specs, coords, orog, eq, ftot, ref, alphabet, msets = _lattice_setup(cfg)
  M, L = shape[0], shape[1]
  K = cfg['K']
  pal = unit['palette']
  chunk = msets[unit['start']:unit['stop']]
  st = harness.states_from_multisets(alphabet, chunk, K, M, L, pal)
  tref = np.asarray(cfg['tref']); tabs = np.asarray(cfg['tabs'])
  temp_var = st['temperature'].copy()
  temp_var[:, :, 0, 0] += harness.SQRT4PI * (tabs - tref)          # T' about the reference profile
  temp_abs = st['temperature'].copy()
  temp_abs[:, :, 0, 0] += harness.SQRT4PI * tabs
  state = harness.pe_state(cfg['cls'], coords, impl, st['vorticity'], st['divergence'], temp_var, st['lnps'],
                           sim_time=np.zeros(len(chunk)) if cfg['cls'] != 'PrimitiveEquations' else 0.0)
  got = harness.pe_tendency_to_real(ftot(state), shape, impl)
  want = ref.tendency(st['vorticity'], st['divergence'], temp_abs, st['lnps'], orog)
  sel = slice(0, L - 1)
  # magnitude scales: the largest term entering each equation for this batch
  amp = {f: np.abs(v).max() for f, v in st.items()}
  base = max(1.0, specs.g * np.abs(orog).max() * L * (L + 1), specs.R * tabs.max() * L * (L + 1) * max(amp['lnps'], 1e-3))
  scales = dict(vorticity=base, divergence=base, temperature=tabs.max(), lnps=1.0)
  for b, ms in enumerate(chunk):
    key = ('lattice', cfg['name'], list(ms), pal)
    rec.case(key, transitions=len(ms) if ms else 1, validated=1,
             outcome=got['divergence'][b].tobytes() + got['temperature'][b].tobytes(),
             sample={'config': cfg['name'], 'excitations': [list(alphabet[e]) for e in ms], 'palette': pal} if b in (0, len(chunk) - 1) else None)
  key = ('lattice_chunk', cfg['name'], unit['start'], pal)
  for f in ('vorticity', 'divergence', 'temperature', 'lnps'):
    g_, w_ = got[f][..., sel], want[f][..., sel]
    if not rec.close(g_, w_, scale=scales[f], C=1e5, site='tendency_vs_continuous_equations:' + f, key=key):
      # localise the failing state for the replay file
      d = np.abs(g_ - w_).reshape(len(chunk), -1).max(axis=1)
      b = int(np.argmax(d))
      rec.fail('tendency_vs_continuous_equations_state:' + f, ('lattice', cfg['name'], list(chunk[b]), pal),
               {'max_abs_diff': float(d[b]), 'excitations': [list(alphabet[e]) for e in chunk[b]]})
    rec.zero(got[f][..., L - 1:], site='top_wavenumber_of_tendency_is_clipped', key=key)
  if 'sim_time' in got:
    rec.exact(got['sim_time'], np.ones(len(chunk)), site='clock_tendency_is_one', key=key)



# -- degree bound: 4th finite differences along every lattice direction vanish ------------------

def _degree_unit(unit, rec):
  cfg = unit['cfg']
  shape, impl, specs, coords, orog, eq, ftot, ref, alphabet, msets = _lattice_setup(cfg)
  M, L, K = shape[0], shape[1], cfg['K']
  pal = unit['palette']
  tref = np.asarray(cfg['tref']); tabs = np.asarray(cfg['tabs'])
  n = len(alphabet)
  base = (1, n // 2, n - 2)                                     # a fixed generic base state touching three fields
  sets = []
  for e in range(n):
    for k in range(5):
      sets.append(tuple(sorted(base + (e,) * k)))
  st = harness.states_from_multisets(alphabet, sets, K, M, L, pal)
  temp_var = st['temperature'].copy(); temp_var[:, :, 0, 0] += harness.SQRT4PI * (tabs - tref)
  state = harness.pe_state(cfg['cls'], coords, impl, st['vorticity'], st['divergence'], temp_var, st['lnps'],
                           sim_time=np.zeros(len(sets)) if cfg['cls'] != 'PrimitiveEquations' else 0.0)
  got = harness.pe_tendency_to_real(ftot(state), shape, impl)
  w = np.array([1.0, -4.0, 6.0, -4.0, 1.0])
  scales = dict(vorticity=1.0, divergence=10.0, temperature=tabs.max(), lnps=1.0)
  for e in range(n):
    key = ('fourth_difference', cfg['name'], e, pal)
    rec.case(key, transitions=5, outcome=got['divergence'][5 * e:5 * e + 5].tobytes(),
             sample={'config': cfg['name'], 'direction': list(alphabet[e]), 'base': [list(alphabet[b]) for b in base]})
    for f in ('vorticity', 'divergence', 'temperature', 'lnps'):
      d4 = np.tensordot(w, got[f][5 * e:5 * e + 5], axes=(0, 0))
      rec.close(d4, np.zeros_like(d4), scale=16 * scales[f], C=1e5, site='tendency_is_cubic(4th difference):' + f, key=key)


# -- moist lattice --------------------------------------------------------------------------------

def _moist_unit(unit, rec):
  import jax
  cfg = unit['cfg']
  shape = tuple(cfg['shape']); impl = cfg['impl']
  M, L, K = shape[0], shape[1], cfg['K']
  ck = ('moist', cfg['name'])
  if ck not in _CACHE:
    specs = harness.pe_specs()
    coords = harness.make_coords(shape, cfg['bounds'], impl=impl, radius=specs.radius)
    orog = _orography(M, L)
    eq = harness.make_pe(cfg['cls'], coords, cfg['tref'], orog, specs, impl=impl)
    ftot = jax.jit(jax.vmap(harness.total_tendency_fn(eq)))
    ref = harness.ref_pe_for(shape, cfg['bounds'], specs, degree=cfg['lmax'], moist=True, nlat=40, nlon=48)
    alphabet = harness.pe_alphabet(K, cfg['lmax'], M)
    msets = harness.multisets(len(alphabet), cfg['depth'])
    _CACHE[ck] = (specs, coords, orog, eq, ftot, ref, alphabet, msets)
  specs, coords, orog, eq, ftot, ref, alphabet, msets = _CACHE[ck]
  pal = unit['palette']
  chunk = msets[unit['start']:unit['stop']]
  B = len(chunk)
  st = harness.states_from_multisets(alphabet, chunk, K, M, L, pal)
  tref = np.asarray(cfg['tref']); tabs = np.asarray(cfg['tabs'])
  temp_var = st['temperature'].copy(); temp_var[:, :, 0, 0] += harness.SQRT4PI * (tabs - tref)
  temp_abs = st['temperature'].copy(); temp_abs[:, :, 0, 0] += harness.SQRT4PI * tabs
  q = np.zeros((B, K, 2 * M - 1, L))
  q[:, :, 0, 0] = 0.01 * harness.SQRT4PI * np.array([1.0, 0.6, 0.3])[:K]
  if unit['q'] >= 1:
    q[:, 1, 1, 1] = 2e-3
  if unit['q'] >= 2:
    q[:, 0, 0, 1] = -1.5e-3; q[:, 2, 2, 1] = 1e-3
  state = harness.pe_state(cfg['cls'], coords, impl, st['vorticity'], st['divergence'], temp_var, st['lnps'],
                           tracers={'specific_humidity': q}, sim_time=np.zeros(B))
  got = harness.pe_tendency_to_real(ftot(state), shape, impl)
  want = ref.tendency(st['vorticity'], st['divergence'], temp_abs, st['lnps'], orog, q=q)
  sel = slice(0, L - 1)
  base = max(1.0, specs.g * np.abs(orog).max() * L * (L + 1), specs.R * tabs.max() * L * (L + 1) * 0.05)
  scales = dict(vorticity=base, divergence=base, temperature=tabs.max(), lnps=1.0)
  for b, ms in enumerate(chunk):
    rec.case(('moist', cfg['name'], unit['q'], list(ms), pal), transitions=max(1, len(ms)),
             outcome=got['temperature'][b].tobytes(),
             sample={'config': cfg['name'], 'humidity_field': unit['q'], 'excitations': [list(alphabet[e]) for e in ms]} if b in (0, B - 1) else None)
  key = ('moist_chunk', cfg['name'], unit['q'], unit['start'], pal)
  for f in ('vorticity', 'divergence', 'temperature', 'lnps'):
    rec.close(got[f][..., sel], want[f][..., sel], scale=scales[f], C=1e5, site='moist_tendency_vs_continuous_equations:' + f, key=key)
  rec.close(got['tracers']['specific_humidity'][..., sel], want['tracers']['specific_humidity'][..., sel], scale=0.05, C=1e5,
            site='moist_tendency_vs_continuous_equations:specific_humidity', key=key)


# -- balanced families ----------------------------------------------------------------------------

def _balanced_setup(unit):
  import jax
  shape = tuple(unit['shape']); impl = unit['impl'] if isinstance(unit['impl'], str) else tuple(unit['impl'])
  specs = harness.pe_specs()
  coords = harness.make_coords(shape, unit['bounds'], spacing=unit['spacing'], impl=impl, radius=specs.radius)
  return shape, impl, specs, coords


def _max_by_field(t):
  return {k: float(np.abs(v).max()) for k, v in t.items() if k not in ('tracers', 'sim_time')}


def _rest_unit(unit, rec):
  """rest + isothermal T0 + hydrostatic ln ps over every single-mode orography (and pairwise sums of neighbours)"""
  import jax
  shape, impl, specs, coords = _balanced_setup(unit)
  M, L = shape[0], shape[1]
  K = len(unit['bounds']) - 1
  cls = unit['cls']
  moist = cls != 'PrimitiveEquations'
  modes = [(sphere.real_index(m, kind), l) for (m, l, kind) in sphere.modes(M, L) if l <= L - 2]
  combos = [(a,) for a in range(len(modes))] + [(a, (a * 3 + 1) % len(modes)) for a in range(len(modes))]
  amp = 2e-4
  orogs = np.zeros((len(combos), 2 * M - 1, L))
  for c, combo in enumerate(combos):
    for j, a in enumerate(combo):
      orogs[c, modes[a][0], modes[a][1]] += amp * (1.0 if j == 0 else -0.6)
  trefs = ([250.0] * K, list(np.linspace(200.0, 300.0, K)), [250.0 + 20 * (-1) ** k for k in range(K)])
  for T0 in (230.0, 270.0, 300.0):
    for ti, tref in enumerate(trefs):
      tref = np.asarray(tref)
      qv = 0.01 if moist else 0.0
      Tv0 = T0 * (1 + (specs.R_vapor / specs.R - 1) * qv)
      lnps = -specs.g * orogs / (specs.R * Tv0)
      lnps[:, 0, 0] += 0.3
      B = len(combos)
      temp = np.zeros((B, K, 2 * M - 1, L)); temp[:, :, 0, 0] = harness.SQRT4PI * (T0 - tref)
      zeros = np.zeros((B, K, 2 * M - 1, L))
      tracers = {'specific_humidity': np.zeros((B, K, 2 * M - 1, L))} if moist else None
      if moist:
        tracers['specific_humidity'][:, :, 0, 0] = qv * harness.SQRT4PI
      state = harness.pe_state(cls, coords, impl, zeros, zeros, temp, lnps[:, None], tracers=tracers, sim_time=np.zeros(B))

      from dinosaur import primitive_equations as pe
      import jax.numpy as jnp
      orog_impl = jnp.asarray(harness.from_real_layout(orogs, coords.horizontal, impl))

      def tend(orog_one, st_one, tref=tref):
        eq = getattr(pe, cls)(tref, orog_one, coords, specs)
        return harness.total_tendency_fn(eq)(st_one)
      got = harness.pe_tendency_to_real(jax.jit(jax.vmap(tend))(orog_impl, state), shape, impl)
      cancel = specs.g * amp * L * (L + 1) / specs.radius ** 2
      key = ('rest', list(shape), unit['spacing'], str(unit['impl']), cls, T0, ti)
      rec.case(key, transitions=B, outcome=np.concatenate([got['divergence'].ravel(), got['temperature'].ravel()]).tobytes(), nontrivial=True,
               sample={'family': 'rest isothermal over orography', 'T0': T0, 'reference_profile': list(tref), 'orographies': B, 'class': cls})
      for fld, sc in (('vorticity', cancel), ('divergence', cancel), ('temperature', T0 * 1e-3), ('lnps', 1e-3)):
        rec.close(got[fld], np.zeros_like(got[fld]), scale=sc, C=1e4, site='rest_atmosphere_is_steady:' + fld, key=key)
      if moist:
        rec.close(got['tracers']['specific_humidity'], 0 * got['tracers']['specific_humidity'], scale=qv, site='rest_atmosphere_is_steady:humidity', key=key)


def _cos2_coef(M, L, c):
  """coefficients of c * cos^2(lat) = c * (2/3 - (2/3) P2(mu))"""
  x = np.zeros((2 * M - 1, L))
  x[0, 0] = c * (2 / 3) * np.sqrt(4 * np.pi)
  x[0, 2] = -c * (2 / 3) * np.sqrt(4 * np.pi / 5)
  return x


def _solid_unit(unit, rec):
  """solid-body rotation u = U cos(lat) in gradient-wind balance: (A) arbitrary per-layer temperature, uniform ln ps,
  balancing orography; (B) isothermal, flat, balancing ln ps. Uniform humidity for the moist class."""
  from dinosaur import primitive_equations as pe
  shape, impl, specs, coords = _balanced_setup(unit)
  M, L = shape[0], shape[1]
  K = len(unit['bounds']) - 1
  cls = unit['cls']; moist = cls != 'PrimitiveEquations'
  a, Om, R, grav = specs.radius, specs.angular_velocity, specs.R, specs.g
  trefs = ([250.0] * K, list(np.linspace(200.0, 300.0, K)), [250.0 + 20 * (-1) ** k for k in range(K)], list(np.linspace(290.0, 210.0, K)))
  Tprof = np.linspace(210.0, 295.0, K) + 7.0 * (-1.0) ** np.arange(K)
  for U in (-0.02, 0.02, 0.07):
    vort = np.zeros((K, 2 * M - 1, L)); vort[:, 0, 1] = (2 * U / a) * np.sqrt(4 * np.pi / 3)
    gw = (U ** 2 + 2 * Om * a * U) / 2
    for qv in ((0.0, 0.01) if moist else (0.0,)):
      fac = 1 + (specs.R_vapor / specs.R - 1) * qv
      for variant in ('A', 'B'):
        for ti, tref in enumerate(trefs):
          tref = np.asarray(tref)
          if variant == 'A':
            orog = _cos2_coef(M, L, gw) / grav
            lnps = np.zeros((1, 2 * M - 1, L))
            T = Tprof
          else:
            T0 = 265.0
            orog = np.zeros((2 * M - 1, L))
            lnps = _cos2_coef(M, L, gw / (R * T0 * fac))[None]
            T = np.full(K, T0)
          temp = np.zeros((K, 2 * M - 1, L)); temp[:, 0, 0] = harness.SQRT4PI * (T - tref)
          tracers = None
          if moist:
            qa = np.zeros((K, 2 * M - 1, L)); qa[:, 0, 0] = qv * harness.SQRT4PI
            tracers = {'specific_humidity': qa}
          eq = harness.make_pe(cls, coords, tref, orog, specs, impl=impl)
          state = harness.pe_state(cls, coords, impl, vort, np.zeros_like(vort), temp, lnps, tracers=tracers)
          got = harness.pe_tendency_to_real(harness.total_tendency_fn(eq)(state), shape, impl)
          key = ('solid_body', list(shape), unit['spacing'], str(unit['impl']), cls, U, qv, variant, ti)
          rec.case(key, transitions=1, outcome=np.concatenate([got['divergence'].ravel(), got['vorticity'].ravel()]).tobytes(), nontrivial=True,
                   sample={'family': 'solid-body rotation ' + variant, 'U': U, 'humidity': qv, 'reference_profile': list(tref), 'class': cls})
          cancel = abs(gw) * 6 / a ** 2 * np.sqrt(4 * np.pi) + 1e-6
          for fld, sc in (('vorticity', cancel), ('divergence', cancel), ('temperature', 300.0 * abs(U)), ('lnps', abs(U))):
            rec.close(got[fld], np.zeros_like(got[fld]), scale=sc, C=1e4, site='solid_body_rotation_is_steady:' + fld, key=key)
          if moist:
            rec.close(got['tracers']['specific_humidity'], 0 * got['tracers']['specific_humidity'], scale=0.01 * abs(U), site='solid_body_rotation_is_steady:humidity', key=key)


# -- shallow water ----------------------------------------------------------------------------------

SW_DENSITIES = {1: [1.0], 2: [0.9, 1.0], 3: [0.7, 0.85, 1.0]}
SW_REFPOT = {1: [1.2], 2: [0.8, 1.5], 3: [0.5, 1.0, 1.6]}


def _sw_setup(shape, K, impl='real'):
  from dinosaur import shallow_water as sw
  from dinosaur import scales
  dens = np.asarray(SW_DENSITIES[K]) * scales.WATER_DENSITY
  specs = sw.ShallowWaterSpecs.from_si(densities=dens)
  coords = harness.make_coords(shape, None, impl=impl, radius=specs.radius, layers=K)
  return specs, coords


def _sw_alphabet(K, lmax, M):
  alpha = []
  for field, zm in (('vorticity', True), ('divergence', True), ('potential', False)):
    for k in range(K):
      for (i, l) in harness.low_modes(lmax, M, zm):
        alpha.append((field, k, i, l))
  return alpha


def _sw_lattice_unit(unit, rec):
  import jax, jax.numpy as jnp
  from dinosaur import shallow_water as sw
  from mc.ref import sw as rsw
  shape = tuple(unit['shape']); K = unit['K']; M, L = shape[0], shape[1]
  specs, coords = _sw_setup(shape, K)
  orog = np.zeros((2 * M - 1, L)); orog[0, 1] = 0.02; orog[1, 1] = -0.01
  refpot = np.asarray(SW_REFPOT[K])
  eq = sw.ShallowWaterEquations(coords, specs, jnp.asarray(orog), refpot)
  ftot = jax.jit(jax.vmap(harness.total_tendency_fn(eq)))
  ref = rsw.ShallowWaterRef(M, L, radius=specs.radius, omega=specs.angular_velocity, densities=np.asarray(specs.densities), degree=unit['lmax'])
  alphabet = _sw_alphabet(K, unit['lmax'], M)
  msets = harness.multisets(len(alphabet), unit['depth'])
  pal = unit['palette']
  for start in range(0, len(msets), 2000):
    chunk = msets[start:start + 2000]
    st = {f: np.zeros((len(chunk), K, 2 * M - 1, L)) for f in ('vorticity', 'divergence', 'potential')}
    for b, ms in enumerate(chunk):
      for e in ms:
        f, k, i, l = alphabet[e]
        st[f][b, k, i, l] += harness.UNIT_AMPLITUDE[f] * pal[e % len(pal)]
    state = sw.State(jnp.asarray(st['vorticity']), jnp.asarray(st['divergence']), jnp.asarray(st['potential']))
    got = ftot(state)
    want = ref.tendency(st['vorticity'], st['divergence'], st['potential'], refpot, orography=orog)
    sel = slice(0, L - 1)
    for b, ms in enumerate(chunk):
      rec.case(('sw_lattice', K, list(ms), pal), transitions=max(1, len(ms)), outcome=np.asarray(got.divergence[b]).tobytes(),
               sample={'family': 'shallow water lattice', 'layers': K, 'excitations': [list(alphabet[e]) for e in ms]} if b in (0, len(chunk) - 1) else None)
    key = ('sw_lattice_chunk', K, start, pal)
    base = max(1.0, refpot.max() * L * (L + 1))
    for f, arr in (('vorticity', got.vorticity), ('divergence', got.divergence), ('potential', got.potential)):
      rec.close(np.asarray(arr)[..., sel], want[f][..., sel], scale=base, C=1e5, site='shallow_water_tendency_vs_continuous_equations:' + f, key=key)


def _sw_jets_unit(unit, rec):
  """geostrophically balanced zonal jets u = cos(lat) * p(mu): every monomial p of degree <= 3 and pairwise sums, per layer"""
  import jax.numpy as jnp
  from dinosaur import shallow_water as sw
  from dinosaur import shallow_water_states as sws
  shape = tuple(unit['shape']); K = unit['K']; M, L = shape[0], shape[1]
  impl = unit['impl'] if isinstance(unit['impl'], str) else tuple(unit['impl'])
  specs, coords = _sw_setup(shape, K, impl)
  g = coords.horizontal
  mu = np.asarray(g.nodal_axes[1]); cos = np.sqrt(1 - mu ** 2)
  nlat_pad = g.nodal_shape[1]
  monos = [lambda x, p=p: x ** p for p in range(4)]
  profiles = [(0.05, (p,)) for p in range(4)] + [(0.05, (p, q)) for p, q in itertools.combinations(range(4), 2)]
  refpot = np.asarray(SW_REFPOT[K])
  eq = sw.ShallowWaterEquations(coords, specs, None, refpot)
  ftot = harness.total_tendency_fn(eq)
  for pi, (amp, powers) in enumerate(profiles):
    u_layers = []
    for k in range(K):
      prof = sum(((-1.0) ** (j + k)) * (1 + 0.5 * k) * mu ** p for j, p in enumerate(powers))
      u_layers.append(amp * cos * prof)
    u = jnp.asarray(np.stack(u_layers))
    key = ('sw_jet', list(shape), str(unit['impl']), K, list(powers))
    try:
      state = sws.multi_layer(u, np.asarray(specs.densities), coords)
    except Exception as e:  # shipped state builder does not support this layout: counted, not a tendency question
      rec.note('sw_state_builder_raised:' + type(e).__name__)
      continue
    got = ftot(state)
    rec.case(key, transitions=1, outcome=np.asarray(state.potential).tobytes(),
             sample={'family': 'balanced zonal jet', 'layers': K, 'u': 'cos(lat)*sum mu^p', 'powers': list(powers)})
    cancel = max(1e-6, float(np.abs(np.asarray(state.potential)).max()) * L * (L + 1) / specs.radius ** 2)
    for f, arr in (('vorticity', got.vorticity), ('divergence', got.divergence), ('potential', got.potential)):
      arr = harness.to_real_layout(np.asarray(arr), shape, impl)
      rec.close(arr, np.zeros_like(arr), scale=cancel, C=1e4, site='balanced_jet_is_steady:' + f, key=key)


def work(unit, rec):
  k = unit['kind']
  if k == 'lattice':
    _lattice_unit(unit, rec)
  elif k == 'degree':
    _degree_unit(unit, rec)
  elif k == 'planets':
    _planets_unit(unit, rec)
  elif k == 'moist':
    _moist_unit(unit, rec)
  elif k == 'rest':
    _rest_unit(unit, rec)
  elif k == 'solid':
    _solid_unit(unit, rec)
  elif k == 'sw_lattice':
    _sw_lattice_unit(unit, rec)
  elif k == 'sw_jets':
    _sw_jets_unit(unit, rec)
  else:
    raise ValueError(k)
