"""C20: physical forcings are bounded, periodic and dissipative.

Solar radiation.  SolarRadiation.radiation_flux (and the `normalized` variant) is evaluated on the real code at EVERY
time of a minute lattice (every 10 minutes of a leap year, a non-leap year and a year that starts mid-year; quick:
every 30 minutes of one year plus all 10-minute steps of the perihelion / equinox / solstice days for all three
reference datetimes) on every node of six grids, and get_radiation_flux / get_normalized_radiation_flux on a full
lattice of (orbital phase, daily phase, longitude, latitude incl. both poles).  Each field is compared with the
closed-form solar geometry of mc.ref.solar: 0 <= flux <= perihelion constant, exactly zero wherever the reference sun is
below the horizon and positive wherever it is above (nodes within a band of the terminator are counted, not
asserted), global mean == S(t)/4 within the quadrature bound 2/nlat^2 (and, sharper, with exactly the quadrature error that
the same rule makes on the reference lit area), periodicity under +-2*pi in either phase and under
+-1461 days of model time (negative model times included).  The range of the returned phases is finding F7 and is
owned by C18; it is not asserted here.

Held-Suarez.  For every sigma level set of the tenths lattice x reference profile x parameter lattice, EVERY basis
vector of vorticity and of divergence (each level, each (m, l)) is pushed through HeldSuarezForcing.explicit_terms on
top of a lattice of temperature / surface-pressure backgrounds.  The drag is linear, so the basis images are the whole
operator: tendency == -k_v(sigma) * (zeta, delta) for 1 <= l <= L-2, exactly zero above sigma_b, independent of the
thermodynamic background; superpositions are checked as well.  k_v, k_T >= 0, T_eq >= minT, the temperature tendency
equals the analysis of -k_T (T - T_eq) built by mc.ref.held_suarez from the synthesised fields, and the ln p_s tendency
is exactly zero.
"""
import itertools
import numpy as np

from mc import core
from mc.ref import sigma as rs
from mc.ref import solar as so
from mc.ref import held_suarez as rh

ID = 'C20'
TECHNIQUE = ('bounded-exhaustive enumeration (explicit-state) of time / phase / node lattices and of level sets x parameters x every '
             'wind basis vector on the real forcings, against closed-form reference models')
ASSUMPTIONS = [
    'numpy float64 arithmetic of the reference models mc/ref/solar.py (documented solar geometry, evaluated as a scalar product of '
    'unit vectors with exactly reduced phases) and mc/ref/held_suarez.py (Held-Suarez 1994 coefficients)',
    'solar geometry is transcendental: the statement is decided on the enumerated lattice of times / phases / nodes only; nodes whose '
    'reference |sin(altitude)| is below the terminator band (1e-9, widened to 256 ulp of the unreduced phase on the 50-year lattice) '
    'are counted, not asserted',
    'global mean: Gauss weights from numpy leggauss (grid nodes are required to be the Gauss nodes), tolerance = the quadrature bound '
    '2/min(nlat, nlon/2)^2 stated by the property design (measured worst 0.8/nlat^2), not a round-off tolerance; the sharper form compares '
    'mean/(S_ref/4) with the same quadrature of the reference max(0, sin altitude) to round-off',
    'Held-Suarez drag: linearity + complete basis; the l=0 and l=L-1 columns (not a curl/divergence of a resolved wind, top wavenumber '
    'of derivative outputs) are counted, not asserted',
    'Held-Suarez relaxation (p**kappa, log, maximum) is decided on the enumerated lattice only; modal comparison uses Grid.to_nodal / '
    'Grid.to_modal of the real code (checked by C01/C09) and unit conversion by PrimitiveEquationsSpecs.from_si (checked by C18/C12)',
    'the range of the phases returned by time_to_orbital_time (finding F7) is checked by C18, not here',
]
RULE = ('solar case = (grid, reference datetime, variant, model minute) -> one radiation_flux field (all nodes), or (orbital phase index, daily '
        'phase index) -> one get_radiation_flux field on the lon x lat lattice; Held-Suarez case = (grid, level set, profile, parameters, '
        'field, level) covering every (m, l) basis vector of that level (transitions = basis vectors pushed through explicit_terms), or '
        '(…, background index) for one thermodynamic background; distinct = distinct canonical key; non-trivial = output not identically '
        'zero; distinct outcomes = distinct output byte patterns')

EPS = core.EPS
BAND = 1e-9
FOUR_YEARS_MIN = 1461 * 1440

# ---------------------------------------------------------------------------------------------------------------
# lattices
# ---------------------------------------------------------------------------------------------------------------
SOLAR_GRIDS = {
    'T21': None, 'T42': None, 'TL63': None,
    'g8x4': dict(longitude_wavenumbers=2, total_wavenumbers=3, longitude_nodes=8, latitude_nodes=4),
    'g16x8_offset': dict(longitude_wavenumbers=5, total_wavenumbers=6, longitude_nodes=16, latitude_nodes=8, longitude_offset=0.44879895051282759),
    'g25x13': dict(longitude_wavenumbers=8, total_wavenumbers=9, longitude_nodes=25, latitude_nodes=13),
}
REFS = {'nonleap1979': (1979, 1, 1, 0, 0), 'leap1980': (1980, 1, 1, 0, 0), 'mid2001': (2001, 7, 4, 6, 30)}

HS_GRIDS = {
    'h13x7': dict(longitude_wavenumbers=4, total_wavenumbers=5, longitude_nodes=13, latitude_nodes=7),
    'h16x8': dict(longitude_wavenumbers=5, total_wavenumbers=6, longitude_nodes=16, latitude_nodes=8),
}
# SI parameter values; rates in 1/day
HS_DEFAULT = dict(sigma_b=0.7, kf=1.0, ka=1 / 40, ks=1 / 4, minT=200.0, maxT=315.0, dTy=60.0, dThz=10.0)
HS_VALUES = dict(sigma_b=[0.7, 0.5, 0.62, 0.25, 0.85], kf=[1.0, 4.0], ka=[1 / 40, 1 / 10], ks=[1 / 4, 1 / 40, 1 / 100],
                 minT=[200.0, 150.0, 260.0], maxT=[315.0, 280.0], dTy=[60.0, 0.0, 30.0], dThz=[10.0, 0.0, 30.0])
HS_ORDER = ['sigma_b', 'kf', 'ka', 'ks', 'minT', 'maxT', 'dTy', 'dThz']
PRODUCT_LEVELS_QUICK = [[0.0, 1.0], [0.0, 0.5, 1.0], [0.0, 0.2, 0.6, 0.8, 1.0], [0.0, 0.07, 0.3, 0.45, 0.8, 1.0]]
PRODUCT_LEVELS_THOROUGH = PRODUCT_LEVELS_QUICK + [
    [0.0, 0.4, 1.0], [0.0, 0.6, 0.8, 1.0], [0.0, 0.1, 0.5, 1.0], [0.0, 0.3, 0.7, 0.9, 1.0],
    [0.0, 0.1, 0.2, 0.3, 0.4, 0.5, 0.6, 0.7, 0.8, 0.9, 1.0], [0.0, 0.5, 0.6, 0.7, 0.8, 0.9, 1.0],
    [0.0, 0.2, 0.4, 0.6, 0.8, 1.0], [0.0, 0.9, 1.0]]


def _star(sigma_bs):
  """default + every parameter varied alone."""
  out = [dict(HS_DEFAULT)]
  for name in HS_ORDER:
    vals = sigma_bs if name == 'sigma_b' else HS_VALUES[name]
    for v in vals:
      if v != HS_DEFAULT[name]:
        p = dict(HS_DEFAULT); p[name] = v
        out.append(p)
  return out


def _product(tier):
  n = 2 if tier == 'quick' else None
  vals = [HS_VALUES[k][:n] if k != 'sigma_b' else HS_VALUES[k][:2] for k in HS_ORDER]
  return [dict(zip(HS_ORDER, c)) for c in itertools.product(*vals)]


def bounds(tier):
  q = tier == 'quick'
  return dict(
      solar_grids=list(SOLAR_GRIDS), reference_datetimes={k: list(v) for k, v in REFS.items()},
      solar_times=('every 30 min of 366 days after leap1980 (TL63, whose nodes equal those of T42, on the special days only) + every 10 min of the 9 perihelion/equinox/solstice days for the 3 references'
                   if q else 'every 10 min of 366 days after each of the 3 references + every 1447 min of 50 years (T21 and small grids)'),
      solar_variants=['radiation_flux', 'normalized'], terminator_band=BAND,
      periodicity='+-1461 days of model time on %s; +-2pi, +-4pi in orbital / daily phase on the direct lattice' % (
          'the special days' if q else 'every 10th day and the special days'),
      direct_lattice=dict(orbital_phases=(48 if q else 144, '+ perihelion, equinox, aphelion'), daily_phases=48 if q else 144,
                          longitudes='-pi..2pi step pi/12', latitudes='-pi/2..pi/2 step pi/%d' % (24 if q else 48)),
      hs_grids=list(HS_GRIDS)[:1] if q else list(HS_GRIDS),
      hs_level_sets='tenths lattice, K<=%d' % (4 if q else 10),
      hs_reference_profiles='3 (quick: all 3 at the default parameters, rotating over the star lattice)' if q else 3,
      hs_full_basis_lattice=dict(sigma_b=HS_VALUES['sigma_b'][:3] if q else HS_VALUES['sigma_b'], kf=HS_VALUES['kf']),
      hs_star_lattice='default + each of %s varied alone over %s' % (HS_ORDER, {k: (v[:3] if (q and k == 'sigma_b') else v) for k, v in HS_VALUES.items()}),
      hs_product_lattice=dict(parameters={k: v for k, v in zip(HS_ORDER, [sorted(set(p[k] for p in _product(tier))) for k in HS_ORDER])},
                              level_sets=PRODUCT_LEVELS_QUICK if q else PRODUCT_LEVELS_THOROUGH, profiles=1 if q else 3),
      hs_backgrounds='4 temperature patterns x 4 ln ps patterns', hs_wind='every (level, m, l) unit vector of vorticity and divergence + pair superpositions')


def units(tier, seed):
  pal = core.palette(seed, tier)
  q = tier == 'quick'
  us = []
  # ---- solar: time lattices ------------------------------------------------------------------------------------
  special = list(so.SPECIAL_DAYS)
  if q:
    for g in SOLAR_GRIDS:
      if g != 'TL63':     # same 128 x 64 nodes as T42: quick runs it on the special days only
        for d0 in range(0, 366, 61):
          us.append(dict(kind='solar', grid=g, ref='leap1980', days=list(range(d0, min(366, d0 + 61))), step=30, shift_days=[]))
      for r in REFS:
        us.append(dict(kind='solar', grid=g, ref=r, days=special, step=10, shift_days=special))
  else:
    for g in SOLAR_GRIDS:
      for r in REFS:
        for d0 in range(0, 366, 31):
          days = list(range(d0, min(366, d0 + 31)))
          us.append(dict(kind='solar', grid=g, ref=r, days=days, step=10,
                         shift_days=[d for d in days if d % 10 == 0 or d in special]))
    for g in ('T21', 'g8x4', 'g16x8_offset', 'g25x13'):
      for dec in range(5):
        us.append(dict(kind='solar_long', grid=g, ref='nonleap1979', first=dec * 3653 * 1440, last=(dec + 1) * 3653 * 1440, step=1447))
  # ---- solar: direct lattice -----------------------------------------------------------------------------------
  nop = 48 if q else 144
  for i0 in range(0, nop + 3, 8 if q else 12):
    us.append(dict(kind='direct', n_op=nop, ops=list(range(i0, min(nop + 3, i0 + (8 if q else 12)))), n_sp=nop, n_lat=24 if q else 48))
  # ---- Held-Suarez ---------------------------------------------------------------------------------------------
  sets = rs.tenths_level_sets(4 if q else None)
  sbs = HS_VALUES['sigma_b'][:3] if q else HS_VALUES['sigma_b']
  for gi, g in enumerate(list(HS_GRIDS)[:1] if q else list(HS_GRIDS)):
    for si, b in enumerate(sets):
      us.append(dict(kind='hs_levels', grid=g, b=b, index=si, sigma_bs=sbs, star=(gi == 0), all_profiles=not q, palette=pal[0] if q else pal[si % len(pal)]))
  prod = _product(tier)
  lv = PRODUCT_LEVELS_QUICK if q else PRODUCT_LEVELS_THOROUGH
  chunk = 64 if q else 162
  for li, b in enumerate(lv):
    for pi in ([li % 3] if q else [0, 1, 2]):
      for c0 in range(0, len(prod), chunk):
        us.append(dict(kind='hs_product', grid='h13x7', b=b, profile=pi, first=c0, last=min(len(prod), c0 + chunk), tier=tier,
                       palette=pal[0] if q else pal[(li + pi) % len(pal)]))
  return us


# ---------------------------------------------------------------------------------------------------------------
# solar
# ---------------------------------------------------------------------------------------------------------------
def _make_grid(spec_or_name, name):
  from dinosaur import spherical_harmonic as sh
  if spec_or_name is None:
    return getattr(sh.Grid, name)()
  return sh.Grid(**spec_or_name)


def _first_true(mask_per_time):
  idx = np.flatnonzero(mask_per_time)
  return int(idx[0]) if idx.size else None


class _Solar:
  """The real SolarRadiation objects of one (grid, reference) and the reference quantities they are compared with."""

  def __init__(self, grid_name, ref_name):
    import datetime
    import jax
    from dinosaur import coordinate_systems as cs, sigma_coordinates as sc, primitive_equations as pe, radiation as rad, scales
    self.units = scales.units
    self.grid_name, self.ref_name = grid_name, ref_name
    self.ref = REFS[ref_name]
    self.grid = _make_grid(SOLAR_GRIDS[grid_name], grid_name)
    self.specs = pe.PrimitiveEquationsSpecs.from_si()
    coords = cs.CoordinateSystem(self.grid, sc.SigmaCoordinates.equidistant(2))
    refdt = datetime.datetime(*self.ref)
    self.refdt = refdt
    self.sr = rad.SolarRadiation(coords, self.specs, refdt)
    self.srn = rad.SolarRadiation.normalized(coords, self.specs, np.datetime64(refdt))
    self.f = jax.jit(jax.vmap(self.sr.radiation_flux))
    self.fn = jax.jit(jax.vmap(self.srn.radiation_flux))
    self.lon, self.mu = (np.asarray(a, dtype=np.float64) for a in self.grid.nodal_axes)
    self.nlon, self.nlat = len(self.lon), len(self.mu)
    x, w = so.gauss_weights(self.nlat)
    self.gauss = bool(np.max(np.abs(x - self.mu)) < 1e-13)
    self.w = w
    self.wm2 = float(self.specs.nondimensionalize(1.0 * self.units.W / self.units.m ** 2))
    self.smax = so.perihelion_irradiance()
    self.qbound = so.mean_quadrature_bound(self.nlon, self.nlat)

  def times(self, minutes):
    """model minutes -> nondimensional model time (vectorised unit conversion)."""
    return np.asarray(self.specs.nondimensionalize(np.asarray(minutes, dtype=np.float64) * self.units.minute), dtype=np.float64)

  def times_via_datetime(self, minutes, as_np64):
    import datetime
    out = []
    for m in minutes:
      when = self.refdt + datetime.timedelta(minutes=int(m))
      out.append(float(self.sr.datetime_to_time(np.datetime64(when) if as_np64 else when)))
    return np.asarray(out, dtype=np.float64)


def _sign_stats(fl, night, day):
  """per-time reductions of a (T, N) field: min, max, extreme values on the reference night side, min on the day side.
  NaN propagates through every reduction, so a non-finite value fails the comparisons made on these numbers."""
  mn = fl.min(axis=1)
  mx = fl.max(axis=1)
  scratch = np.multiply(fl, night)
  night_hi = scratch.max(axis=1)
  night_lo = scratch.min(axis=1)
  np.copyto(scratch, 1.0)
  np.copyto(scratch, fl, where=day)
  day_lo = scratch.min(axis=1)
  return mn, mx, night_hi, night_lo, day_lo


def _solar_chunk(S, rec, minutes, t_nd, *, shifts, tag):
  """All oracles for one chunk of times (one day)."""
  import jax.numpy as jnp
  minutes = np.asarray(minutes, dtype=np.int64)
  T = len(minutes)
  op, sp, uo, us_ = so.phases_from_reference(S.ref, minutes)
  s = so.sin_altitude_grid(op, sp, S.lon, S.mu).reshape(T, -1)          # (T, nlon*nlat)
  band = np.maximum(BAND, 256 * EPS * np.maximum(uo, us_))[:, None]
  night = s <= -band
  day = s >= band
  rec.note('nodes_within_terminator_band', int(s.size - np.count_nonzero(night) - np.count_nonzero(day)))
  Sref = so.irradiance(op)
  qref = 4.0 * so.global_mean(np.maximum(s, 0.0).reshape(T, S.nlon, S.nlat), S.w) if S.gauss else None
  keys = {}
  fields = {}

  def signs(fl, k, top, variant, prefix, extra):
    mn, mx, nhi, nlo, dlo = _sign_stats(fl, night, day)
    i = _first_true(~(mn >= 0))
    rec.check(i is None, prefix + 'nonnegative', k[i or 0], {} if i is None else dict(extra, min=float(mn[i]), variant=variant))
    i = _first_true(~(mx <= top * (1 + 8 * EPS)))
    rec.check(i is None, prefix + 'le_perihelion_constant', k[i or 0],
              {} if i is None else dict(extra, max_over_perihelion_constant=float(mx[i] / top), variant=variant))
    i = _first_true(~((nhi == 0) & (nlo == 0)))
    rec.check(i is None, prefix + 'zero_below_horizon', k[i or 0],
              {} if i is None else dict(extra, variant=variant, nodes=int(np.count_nonzero((fl[i] != 0) & night[i])),
                                        max_abs=float(max(abs(nhi[i]), abs(nlo[i]))),
                                        ref_sin_altitude_there=float(s[i][(fl[i] != 0) & night[i]].min())))
    i = _first_true(~(dlo > 0))
    rec.check(i is None, prefix + 'positive_above_horizon', k[i or 0],
              {} if i is None else dict(extra, variant=variant, nodes=int(np.count_nonzero(~(fl[i] > 0) & day[i])),
                                        ref_sin_altitude_there=float(s[i][~(fl[i] > 0) & day[i]].max())))

  for variant, fun in (('flux', S.f), ('normalized', S.fn)):
    fl = np.asarray(fun(jnp.asarray(t_nd))).reshape(T, -1)
    fields[variant] = fl
    unit = S.wm2 if variant == 'flux' else 1.0 / S.smax     # implementation value of 1 W/m^2 in this variant
    top = S.smax * unit
    k = [('solar', S.grid_name, S.ref_name, variant, tag, int(m)) for m in minutes]
    keys[variant] = k
    for i in range(T):
      rec.case(k[i], transitions=1, outcome=fl[i].tobytes(),
               sample=None if i else {'grid': S.grid_name, 'reference': list(S.ref), 'variant': variant, 'model_minute': int(minutes[i]),
                                      'entry': tag, 'nodes': [S.nlon, S.nlat], 'max_flux': float(fl[i].max()),
                                      'lit_fraction': float((fl[i] > 0).mean())})
    signs(fl, k, top, variant, 'flux_', {})
    if S.gauss:
      ratio = so.global_mean(fl.reshape(T, S.nlon, S.nlat), S.w) / (Sref * unit / 4.0)
      i = int(np.argmax(np.abs(ratio - 1.0)))               # argmax returns the first NaN if there is one
      rec.close(ratio[i], 1.0, scale=S.qbound, C=1.0, eps=1.0, site='global_mean_is_quarter_S', key=k[i],
                extra={'variant': variant, 'S_ref': float(Sref[i]), 'quadrature_bound': S.qbound})
      # the same statement with the quadrature error evaluated instead of bounded: the rule applied to the reference
      # max(0, sin altitude) on the same nodes has the error 4*Q[max(0, s)] - 1, the implementation must show exactly that one
      psc = 1.0 + np.maximum(uo, us_)
      i = int(np.argmax(np.abs(ratio - qref) / psc))
      rec.close(ratio[i], qref[i], scale=psc[i], site='global_mean_over_quarter_S_is_the_quadrature_of_the_lit_area', key=k[i],
                extra={'variant': variant, 'S_ref': float(Sref[i])})
    else:
      rec.note('global_mean_skipped_non_gauss_grid', T)
  # normalised == flux / (S0 + dS)
  a = fields['normalized']; b = fields['flux'] / (S.smax * S.wm2)
  np.subtract(b, a, out=b); np.abs(b, out=b)
  i = int(np.argmax(b.max(axis=1)))
  rec.close(a[i], fields['flux'][i] / (S.smax * S.wm2), scale=1.0, site='normalized_is_flux_over_perihelion_constant', key=keys['normalized'][i])
  # periodicity under +-1461 days of model time (2*pi*4 in orbital phase, 2*pi*1461 in daily phase)
  for sh_ in shifts:
    m2 = minutes + sh_ * FOUR_YEARS_MIN
    t2 = S.times(m2)
    _, _, uo2, us2 = so.phases_from_reference(S.ref, m2)
    for variant, fun in (('flux', S.f), ('normalized', S.fn)):
      fl2 = np.asarray(fun(jnp.asarray(t2))).reshape(T, -1)
      top = S.wm2 * S.smax if variant == 'flux' else 1.0
      k2 = [('solar_shift', S.grid_name, S.ref_name, variant, tag, int(m), sh_) for m in minutes]
      for i in range(T):
        rec.case(k2[i], transitions=1, outcome=fl2[i].tobytes())
      d = np.abs(fl2 - fields[variant]).max(axis=1)
      sc = top * np.maximum(1.0, np.maximum(us2, us_))
      i = int(np.argmax(d / sc))
      rec.close(fl2[i], fields[variant][i], scale=sc[i], site='periodic_under_1461_days', key=k2[i],
                extra={'variant': variant, 'shift_days': 1461 * sh_})
      # the shifted field obeys the same bounds and day / night oracles
      signs(fl2, k2, top, variant, 'shifted_flux_', {'shift_days': 1461 * sh_})


CHUNK = 48   # times per evaluation (one compiled shape; arrays stay cache sized)


def _solar_unit(unit, rec):
  S = _Solar(unit['grid'], unit['ref'])
  step = unit['step']
  for d in unit['days']:
    day_minutes = d * 1440 + np.arange(0, 1440, step)
    special = d in unit['shift_days']
    for c0 in range(0, len(day_minutes), CHUNK):
      minutes = day_minutes[c0:c0 + CHUNK]
      if special and d % 2 == 0:
        t_nd = S.times_via_datetime(minutes, as_np64=(d % 4 == 0))     # the datetime entry point of the class
        tag = 'datetime64' if d % 4 == 0 else 'datetime'
      else:
        t_nd = S.times(minutes)
        tag = 'time'
      _solar_chunk(S, rec, minutes, t_nd, shifts=(1, -1) if special else (), tag=tag)


def _solar_long_unit(unit, rec):
  S = _Solar(unit['grid'], unit['ref'])
  minutes = np.arange(unit['first'], unit['last'], unit['step'], dtype=np.int64)
  for i0 in range(0, len(minutes), CHUNK):
    m = minutes[i0:i0 + CHUNK]
    _solar_chunk(S, rec, m, S.times(m), shifts=(), tag='time')


def _direct_unit(unit, rec):
  import jax.numpy as jnp
  from dinosaur import radiation as rad
  nop, nsp = unit['n_op'], unit['n_sp']
  ops = [so.TWO_PI * i / nop for i in range(nop)] + [so.TWO_PI * so.PERIHELION_DAY / so.JULIAN_YEAR_DAYS,
                                                      so.TWO_PI * so.EQUINOX_DAY / so.JULIAN_YEAR_DAYS,
                                                      so.TWO_PI * so.PERIHELION_DAY / so.JULIAN_YEAR_DAYS + np.pi]
  sps = so.TWO_PI * np.arange(nsp) / nsp
  lon = np.pi / 12 * np.arange(-12, 24)
  nl = unit['n_lat']
  lat = np.pi / nl * np.arange(nl + 1) - np.pi / 2
  lat[0], lat[-1] = -np.pi / 2, np.pi / 2
  LON, LAT = np.meshgrid(lon, lat, indexing='ij')
  smax = so.perihelion_irradiance()

  jl, ja = jnp.asarray(LON)[None], jnp.asarray(LAT)[None]

  def magnitude(x):
    return np.asarray(getattr(x, 'magnitude', x), dtype=np.float64)

  def fr(o, s_):      # default (SI, pint) constants, daily phase broadcast on a leading axis
    return rad.get_radiation_flux(rad.OrbitalTime(o, jnp.asarray(s_)[:, None, None]), jl, ja)

  def fnr(o, s_):
    return rad.get_normalized_radiation_flux(rad.OrbitalTime(o, jnp.asarray(s_)[:, None, None]), jl, ja)

  # the same two functions with caller-supplied (non-default, Mars-like) solar constants as plain floats
  CM, CV = 586.2, 110.0

  def frc(o, s_):
    return rad.get_radiation_flux(rad.OrbitalTime(o, jnp.asarray(s_)[:, None, None]), jl, ja, mean_irradiance=CM, variation=CV)

  def fnrc(o, s_):
    return rad.get_normalized_radiation_flux(rad.OrbitalTime(o, jnp.asarray(s_)[:, None, None]), jl, ja, mean_irradiance=CM, variation=CV)

  for io in unit['ops']:
    o = float(ops[io])
    s = so.sin_altitude_points(o, sps[:, None, None], LON[None], LAT[None])
    night, day = s <= -BAND, s >= BAND
    rec.note('nodes_within_terminator_band', int(s.size - night.sum() - day.sum()))
    base = {}
    for variant, fun, top in (('flux', fr, smax), ('normalized', fnr, 1.0), ('flux[custom constants]', frc, CM + CV), ('normalized[custom constants]', fnrc, 1.0)):
      fl = magnitude(fun(o, sps))
      base[variant] = fl
      k = [('direct', variant, nop, io, nsp, j, nl) for j in range(nsp)]
      for j in range(nsp):
        rec.case(k[j], transitions=1, outcome=fl[j].tobytes(),
                 sample={'function': 'get_radiation_flux' if variant.startswith('flux') else 'get_normalized_radiation_flux', 'constants': 'custom (586.2, 110.0)' if 'custom' in variant else 'default',
                         'orbital_phase': o, 'daily_phase': float(sps[j]), 'points': list(LON.shape), 'max': float(fl[j].max())})
      j = _first_true(~np.isfinite(fl).all(axis=(1, 2)))
      rec.check(j is None, 'direct_finite', k[j or 0], {'variant': variant})
      j = _first_true((fl < 0).any(axis=(1, 2)))
      rec.check(j is None, 'direct_nonnegative', k[j or 0], {} if j is None else {'min': float(fl[j].min()), 'variant': variant})
      j = _first_true(~(fl.max(axis=(1, 2)) <= top * (1 + 8 * EPS)))
      rec.check(j is None, 'direct_le_perihelion_constant', k[j or 0], {} if j is None else {'max': float(fl[j].max()), 'bound': top, 'variant': variant})
      nz = (fl != 0) & night
      j = _first_true(nz.any(axis=(1, 2)))
      rec.check(j is None, 'direct_zero_below_horizon', k[j or 0],
                {} if j is None else {'variant': variant, 'points': int(nz[j].sum()), 'max_abs': float(np.abs(fl[j][night[j]]).max())})
      dk = ~(fl > 0) & day
      j = _first_true(dk.any(axis=(1, 2)))
      rec.check(j is None, 'direct_positive_above_horizon', k[j or 0], {} if j is None else {'variant': variant, 'points': int(dk[j].sum())})
      for (do, ds) in ((1, 0), (0, 1), (-1, 0), (0, -1), (1, 1), (2, 0), (0, -2)):
        fl2 = magnitude(fun(o + do * so.TWO_PI, sps + ds * so.TWO_PI))
        k2 = [('direct_shift', variant, nop, io, nsp, j, nl, do, ds) for j in range(nsp)]
        for j in range(nsp):
          rec.case(k2[j], transitions=1, outcome=fl2[j].tobytes())
        j = int(np.argmax(np.abs(np.nan_to_num(fl2 - fl, nan=np.inf)).max(axis=(1, 2))))
        rec.close(fl2[j], fl[j], scale=top * 4 * so.TWO_PI, site='direct_periodic_in_phase', key=k2[j],
                  extra={'variant': variant, 'orbital_shift_2pi': do, 'daily_shift_2pi': ds})
    for vn, vf, div in (('normalized[custom constants]', 'flux[custom constants]', CM + CV),):
      j = int(np.argmax(np.abs(np.nan_to_num(base[vn] - base[vf] / div, nan=np.inf)).max(axis=(1, 2))))
      rec.close(base[vn][j], base[vf][j] / div, scale=1.0, site='direct_normalized_is_flux_over_perihelion_constant',
                key=('direct', vn, nop, io, nsp, j, nl))
      # the custom-constant flux is the default-constant flux rescaled by S_custom(t) / S_default(t)
      ratio = so.irradiance(o, CM, CV) / so.irradiance(o)
      j = int(np.argmax(np.abs(np.nan_to_num(base[vf] - base['flux'] * ratio, nan=np.inf)).max(axis=(1, 2))))
      rec.close(base[vf][j], base['flux'][j] * ratio, scale=CM + CV, site='direct_flux_scales_with_the_solar_constants', key=('direct', vf, nop, io, nsp, j, nl))
    j = int(np.argmax(np.abs(np.nan_to_num(base['normalized'] - base['flux'] / smax, nan=np.inf)).max(axis=(1, 2))))
    rec.close(base['normalized'][j], base['flux'][j] / smax, scale=1.0, site='direct_normalized_is_flux_over_perihelion_constant',
              key=('direct', 'normalized', nop, io, nsp, j, nl))


# ---------------------------------------------------------------------------------------------------------------
# Held-Suarez
# ---------------------------------------------------------------------------------------------------------------
def _profiles(r):
  K = r.K
  return (np.full(K, 250.0), 300.0 - 60.0 * (1 - r.c), 250.0 + 20.0 * (-1.0) ** np.arange(K))


def _ptag(p):
  return [round(float(p[k]), 6) for k in HS_ORDER]


class _HS:
  """One (grid, level set): the real coordinate objects, the excitation lattice and the reference pieces."""

  def __init__(self, grid_name, b, amp):
    import jax.numpy as jnp
    from dinosaur import coordinate_systems as cs, sigma_coordinates as sc, primitive_equations as pe, scales
    self.units = scales.units
    self.grid_name = grid_name
    self.grid = _make_grid(HS_GRIDS[grid_name], grid_name)
    self.specs = pe.PrimitiveEquationsSpecs.from_si()
    self.b = list(b)
    self.btag = [round(v, 3) for v in b]
    self.r = rs.Sigma(b)
    self.K = self.r.K
    self.coords = cs.CoordinateSystem(self.grid, sc.SigmaCoordinates(np.asarray(b)))
    self.ms = tuple(self.grid.modal_shape)
    self.L = self.grid.total_wavenumbers
    m_ax, l_ax = self.grid.modal_axes
    mask = np.asarray(self.grid.mask, dtype=bool)
    self.idx = [(i, j) for i in range(self.ms[0]) for j in range(self.ms[1]) if mask[i, j]]
    self.l_of = {(i, j): int(l_ax[j]) for (i, j) in self.idx}
    self.m_of = {(i, j): int(m_ax[i]) for (i, j) in self.idx}
    self.lon, self.mu = (np.asarray(a, dtype=np.float64) for a in self.grid.nodal_axes)
    self.amp = float(amp)
    nd = self.specs.nondimensionalize
    self.p0 = float(nd(1e5 * self.units.pascal))
    self.kappa = float(self.specs.kappa)
    self.per_day = float(nd(1.0 / self.units.day))
    self.kelvin = float(nd(1.0 * self.units.degK))
    # thermodynamic backgrounds: 4 temperature-deviation patterns x 4 ln ps patterns (degree <= 1: exactly representable)
    cl = np.sqrt((1 - self.mu) * (1 + self.mu))[None, :]
    mu = self.mu[None, :]
    cx, sx = np.cos(self.lon)[:, None], np.sin(self.lon)[:, None]
    one = np.ones((len(self.lon), len(self.mu)))
    lev = ((np.arange(self.K) + 1.0) / self.K)[:, None, None]
    tpat = [0.0 * one[None] * lev, 10.0 * one[None] * (0 * lev + 1), 8.0 * (mu * one)[None] * lev, (5.0 - 15.0 * cl * cx)[None] * (1.5 - lev)]
    ppat = [0.0 * one, np.log(0.8) * one, 0.05 * cl * cx, -0.1 * mu * one + 0.03 * cl * sx]
    self.bg = []
    for ti, tp in enumerate(tpat):
      for pi, pp in enumerate(ppat):
        tm = np.asarray(self.grid.to_modal(jnp.asarray(self.amp * self.kelvin * tp)))
        pm = np.asarray(self.grid.to_modal(jnp.asarray(np.log(self.p0) + pp)))[None]
        self.bg.append((tm, pm))
    self.bgT = np.stack([t for t, _ in self.bg])
    self.bgP = np.stack([p for _, p in self.bg])
    self.bgT_nodal = np.asarray(self.grid.to_nodal(jnp.asarray(self.bgT)))          # (16, K, nlon, nlat)
    self.bgPs_nodal = np.exp(np.asarray(self.grid.to_nodal(jnp.asarray(self.bgP))))[:, 0]   # (16, nlon, nlat)

  def forcing(self, tref, p):
    from dinosaur import held_suarez as hs
    u = self.units
    return hs.HeldSuarezForcing(self.coords, self.specs, tref * self.kelvin, sigma_b=p['sigma_b'], kf=p['kf'] / u.day, ka=p['ka'] / u.day,
                                ks=p['ks'] / u.day, minT=p['minT'] * u.degK, maxT=p['maxT'] * u.degK, dTy=p['dTy'] * u.degK,
                                dThz=p['dThz'] * u.degK)

  def basis(self, i, j, k):
    z = np.zeros((self.K,) + self.ms)
    z[k, i, j] = 1.0
    return z


def _hs_run(H, rec, tref, pi, p, members, *, kind, coeffs=True):
  """Runs explicit_terms on the batch `members` = list of dict(v=(K,M,L) vorticity, d=divergence, bg=background index,
  resolved=bool, tag=(field, level) or None) for one configuration and evaluates every oracle."""
  import jax
  import jax.numpy as jnp
  from dinosaur import primitive_equations as pe
  f = H.forcing(tref, p)
  ptag = _ptag(p)
  cfg = (H.grid_name, H.btag, pi, ptag)
  K = H.K
  # -- coefficients: non-negative, floor, and equal to the reference ------------------------------------------------
  kv_ref = rh.kv(H.r.c, p['sigma_b'], p['kf'] * H.per_day)                                    # (K,)
  kt_ref = rh.kt(H.r.c, H.mu, p['sigma_b'], p['ka'] * H.per_day, p['ks'] * H.per_day)          # (K, nlat)
  minT = p['minT'] * H.kelvin
  rate = max(p['kf'], p['ka'], p['ks']) * H.per_day
  above = rh.levels_clearly_above(H.r.c, p['sigma_b'])
  if coeffs:
    key = ('hs_coefficients',) + cfg
    kv = np.asarray(f.kv()); kt = np.asarray(f.kt())
    teq = np.stack([np.asarray(f.equilibrium_temperature(jnp.asarray(H.bgPs_nodal[q]))) for q in range(4)])
    rec.case(key, transitions=6, outcome=kv.tobytes() + kt.tobytes() + teq.tobytes(),
             sample={'grid': H.grid_name, 'boundaries': H.btag, 'profile': pi, 'parameters': dict(p), 'kv': kv.ravel().tolist()})
    rec.check(bool(np.all(kv >= 0)), 'kv_nonnegative', key, {'min': float(kv.min())})
    rec.check(bool(np.all(kt >= 0)), 'kt_nonnegative', key, {'min': float(kt.min())})
    rec.check(bool(np.all(teq >= minT)), 'teq_not_below_floor', key, {'min': float(teq.min()), 'minT': minT})
    rec.close(kv.reshape(-1), kv_ref, scale=p['kf'] * H.per_day, site='kv_vs_reference', key=key)
    rec.close(kt, np.broadcast_to(kt_ref[:, None, :], kt.shape), scale=rate, site='kt_vs_reference', key=key)
    tscale = (abs(p['maxT']) + abs(p['dTy']) + abs(p['dThz']) * 8 + abs(p['minT'])) * H.kelvin
    teq_ref = rh.teq(H.r.c, H.mu, H.bgPs_nodal[:4], H.p0, H.kappa, minT, p['maxT'] * H.kelvin, p['dTy'] * H.kelvin,
                     p['dThz'] * H.kelvin)                                                       # (4, K, nlon, nlat)
    rec.close(teq, teq_ref, scale=tscale, site='teq_vs_reference', key=key)
    rec.note('levels_within_1e-9_of_sigma_b', int(rh.levels_near_top(H.r.c, p['sigma_b']).sum()))
    rec.zero(kv.reshape(-1)[above], site='kv_zero_above_sigma_b', key=key)

  # -- the batch ----------------------------------------------------------------------------------------------------
  n = len(members)
  V = np.stack([m['v'] for m in members]); D = np.stack([m['d'] for m in members])
  bgi = np.array([m['bg'] for m in members])
  st = pe.State(vorticity=jnp.asarray(V), divergence=jnp.asarray(D), temperature_variation=jnp.asarray(H.bgT[bgi]),
                log_surface_pressure=jnp.asarray(H.bgP[bgi]))
  out = jax.vmap(f.explicit_terms)(st)
  oV, oD, oT, oP = (np.asarray(x) for x in (out.vorticity, out.divergence, out.temperature_variation, out.log_surface_pressure))
  amax = max(1e-300, float(max(np.abs(V).max(), np.abs(D).max())))
  dscale = p['kf'] * H.per_day * amax * H.L
  wantV = -kv_ref[None, :, None, None] * V
  wantD = -kv_ref[None, :, None, None] * D
  resolved = np.array([m['resolved'] for m in members], dtype=bool)
  # cases
  groups = {}
  for q, m in enumerate(members):
    groups.setdefault(m['tag'], []).append(q)
  for tag, qs in groups.items():
    key = (kind,) + cfg + tuple(tag)
    o = np.concatenate([oV[qs].ravel(), oD[qs].ravel(), oT[qs].ravel()])
    drag_part = np.concatenate([oV[qs].ravel(), oD[qs].ravel()])
    rec.case(key, transitions=len(qs), outcome=o.tobytes(), nontrivial=bool(np.any(drag_part != 0)) or tag[0] == 'background',
             sample={'grid': H.grid_name, 'boundaries': H.btag, 'profile': pi, 'parameters': dict(p), 'case': list(tag), 'states': len(qs)})
    qa = np.array(qs)
    r_ = qa[resolved[qa]]
    rec.note('wind_states_with_l0_or_top_wavenumber', int(len(qa) - len(r_)))
    if len(r_):
      rec.close(oV[r_], wantV[r_], scale=dscale, site='vorticity_tendency_is_minus_kv_vorticity', key=key)
      rec.close(oD[r_], wantD[r_], scale=dscale, site='divergence_tendency_is_minus_kv_divergence', key=key)
    # exactly no friction above the boundary layer, for every input (resolved or not)
    rec.zero(oV[qa][:, above], site='vorticity_tendency_zero_above_sigma_b', key=key)
    rec.zero(oD[qa][:, above], site='divergence_tendency_zero_above_sigma_b', key=key)
    rec.zero(oP[qa], site='log_surface_pressure_tendency_zero', key=key)
    rec.check(oP[qa].shape == (len(qa),) + tuple(H.bgP.shape[1:]), 'log_surface_pressure_tendency_shape', key, {'shape': list(oP.shape)})
    rec.finite(oT[qa], site='temperature_tendency_finite', key=key)
  # -- temperature relaxation: analysis of -kt (T - Teq) of the synthesised fields -------------------------------------
  teq16 = rh.teq(H.r.c, H.mu, H.bgPs_nodal, H.p0, H.kappa, minT, p['maxT'] * H.kelvin, p['dTy'] * H.kelvin, p['dThz'] * H.kelvin)
  Tn = tref[None, :, None, None] * H.kelvin + H.bgT_nodal
  want_nodal = -kt_ref[None, :, None, :] * (Tn - teq16)                               # (16, K, nlon, nlat)
  want_modal = np.asarray(H.grid.to_modal(jnp.asarray(want_nodal)))
  relax_scale = rate * float(np.abs(Tn - teq16).max() + 1.0)
  d = np.abs(np.nan_to_num(oT - want_modal[bgi], nan=np.inf)).reshape(n, -1).max(axis=1)
  q = int(np.argmax(d))
  key = (kind,) + cfg + tuple(members[q]['tag'])
  rec.close(oT[q], want_modal[bgi[q]], scale=relax_scale, site='temperature_tendency_is_minus_kt_T_minus_Teq', key=key,
            extra={'background': int(bgi[q]), 'member': q})
  return oV, oD


N_PAIRS = 8


def _batch_size(H):
  """One batch size per grid for every explicit_terms call (op-by-op dispatch compiles per shape)."""
  return 2 * len(H.idx) + N_PAIRS


def _wind_members(H, k, amp_cycle):
  """every (field, m, l) unit vector of level k on cycling backgrounds + N_PAIRS superpositions touching level k."""
  members = []
  c = k * 5
  res_idx = [ij for ij in H.idx if 1 <= H.l_of[ij] <= H.L - 2]
  for fld in ('vorticity', 'divergence'):
    for (i, j) in H.idx:
      a = amp_cycle[c % len(amp_cycle)]
      z = a * H.basis(i, j, k)
      res = 1 <= H.l_of[(i, j)] <= H.L - 2
      members.append(dict(v=z if fld == 'vorticity' else 0 * z, d=z if fld == 'divergence' else 0 * z, bg=c % 16, resolved=res, tag=(fld, k)))
      c += 1
  # superpositions (vorticity on two levels + divergence), palette amplitudes
  a1 = amp_cycle[0]; a2 = amp_cycle[-1] if len(amp_cycle) > 1 else -0.5
  for q in range(N_PAIRS):
    i1, j1 = res_idx[(3 * q + k) % len(res_idx)]
    i2, j2 = res_idx[(7 * q + 3 + 2 * k) % len(res_idx)]
    v = a1 * H.basis(i1, j1, k) + a2 * H.basis(i2, j2, (k + 1) % H.K)
    d = a2 * H.basis(i2, j2, k)
    members.append(dict(v=v, d=d, bg=(q + k) % 16, resolved=True, tag=('superposition', k)))
  assert len(members) == _batch_size(H)
  return members


def _background_members(H, amp):
  """the 16 thermodynamic backgrounds at rest + unit wind excitations on top of backgrounds (same batch size)."""
  members = []
  zero = np.zeros((H.K,) + H.ms)
  for e in range(16):
    members.append(dict(v=zero, d=zero, bg=e, resolved=True, tag=('background', e)))
  res_idx = [ij for ij in H.idx if 1 <= H.l_of[ij] <= H.L - 2]
  for q in range(_batch_size(H) - 16):
    i, j = res_idx[(5 * q + 1) % len(res_idx)]
    k = (H.K - 1 - q) % H.K
    z = amp * H.basis(i, j, k)
    members.append(dict(v=z if q % 2 == 0 else zero, d=zero if q % 2 == 0 else z, bg=(5 * q + 3) % 16, resolved=True,
                        tag=('wind_on_background', q % 4)))
  return members


def _hs_levels_unit(unit, rec):
  pal = unit['palette']
  H = _HS(unit['grid'], unit['b'], pal[0])
  profs = _profiles(H.r)
  wind = [_wind_members(H, k, pal) for k in range(H.K)]
  n = 0
  first = None
  for sb in unit['sigma_bs']:
    for kf in HS_VALUES['kf']:
      p = dict(HS_DEFAULT); p['sigma_b'] = sb; p['kf'] = kf
      pi = (unit['index'] + n) % 3
      n += 1
      imgs = [_hs_run(H, rec, profs[pi], pi, p, wind[k], kind='hs_drag', coeffs=(k == 0)) for k in range(H.K)]
      if first is None:
        first = (p, pi, imgs)
  # the drag does not see the reference profile or the thermodynamic parameters
  p0, pi0, imgs0 = first
  p = dict(p0); p['maxT'] = 280.0; p['dThz'] = 30.0; p['ks'] = 1 / 40
  pi1 = (pi0 + 1) % 3
  dscale = p['kf'] * H.per_day * max(abs(a) for a in pal) * H.L
  for k in range(H.K):
    oV1, oD1 = _hs_run(H, rec, profs[pi1], pi1, p, wind[k], kind='hs_drag', coeffs=(k == 0))
    key = ('hs_drag',) + (H.grid_name, H.btag, pi1, _ptag(p)) + ('vorticity', k)
    rec.close(oV1, imgs0[k][0], scale=dscale, site='drag_independent_of_thermodynamics', key=key)
    rec.close(oD1, imgs0[k][1], scale=dscale, site='drag_independent_of_thermodynamics', key=key)
  if unit['star']:
    bgm = _background_members(H, pal[-1])
    for n, p in enumerate(_star(unit['sigma_bs'])):
      for pi in (range(3) if (unit['all_profiles'] or n == 0) else [(unit['index'] + n) % 3]):
        _hs_run(H, rec, profs[pi], pi, p, bgm, kind='hs_relax')


def _hs_product_unit(unit, rec):
  pal = unit['palette']
  H = _HS(unit['grid'], unit['b'], pal[0])
  profs = _profiles(H.r)
  bgm = _background_members(H, pal[-1])
  prod = _product(unit['tier'])
  for p in prod[unit['first']:unit['last']]:
    _hs_run(H, rec, profs[unit['profile']], unit['profile'], p, bgm, kind='hs_relax')


def work(unit, rec):
  kind = unit['kind']
  if kind == 'solar':
    _solar_unit(unit, rec)
  elif kind == 'solar_long':
    _solar_long_unit(unit, rec)
  elif kind == 'direct':
    _direct_unit(unit, rec)
  elif kind == 'hs_levels':
    _hs_levels_unit(unit, rec)
  elif kind == 'hs_product':
    _hs_product_unit(unit, rec)
  else:
    raise ValueError(kind)
