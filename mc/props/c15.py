"""C15: spectral filters are mean-preserving, non-amplifying and step-size consistent.

Bounded-exhaustive enumeration on the real code.  A filter is a diagonal linear map on the modal space (one
factor per total wavenumber), so it is completely determined by what it does to the all-ones spectrum and to
every basis vector; both are pushed through every filter of the parameter lattice on every grid of the grid
lattice (both spherical-harmonics layouts, zero-padded Fast layouts included) and compared, entry by entry on
the resolved coefficients, with the closed forms of the docstrings (mc/ref/filters.py, extended precision).
On the same filters: range (0,1], factor 1 for the global mean, monotone decay in l, independence of m,
semigroup in the step size, array-valued strengths == per-slice scalar filters, and the shape-selective
tree map on mixed pytrees whose leaves have every shape of a finite shape alphabet (a leaf is rescaled iff
broadcasting the scaling against it keeps the leaf's shape; every other leaf comes back bit-identical and the
call does not raise).  The Robert-Asselin filter is a 3x1 stencil per entry: its three impulse responses, the
newest level (bit-identical) and linear-in-time triples are enumerated over a lattice of strengths.

Extensions after the seeded-breakage rounds (DESIGN.md 8.5): An integer-typed step counter that is linear in time goes through the Robert-Asselin filter.
"""
import functools
import numpy as np

from mc import core
from mc.ref import filters as rf

ID = 'C15'
TECHNIQUE = ('bounded-exhaustive enumeration (explicit-state) of grids x layouts x filter parameters x '
             '{ones spectrum, every basis vector, mixed pytrees} against closed-form reference factors')
ASSUMPTIONS = [
    'numpy extended-precision arithmetic of the reference model (mc/ref/filters.py)',
    'linearity + complete basis: a filter acts leaf-wise as multiplication by a fixed array, so agreement on the '
    'ones spectrum and on every basis vector is agreement on all spectra of the enumerated grid',
    'grids with a single total wavenumber (L=1) are outside the domain of the documented formulas '
    '(k = l / l_max is 0/0); they are executed and counted, not asserted',
    'parameters outside the enumerated lattice (cutoff >= 1, negative strengths, strengths that underflow '
    'float64) are not covered; factors whose exact value is below 1e-290 are only required to be >= 0',
    'filters read the grid only through modal axes, mask and radius: latitude spacing, longitude offset and '
    'the stacked/reverse einsum options of the Fast implementation are not varied',
]
RULE = ('case = (grid layout, filter family, parameter tuple, input) with input in {ones spectrum, basis batch, '
        'one pytree leaf (by name/shape/dtype), semigroup pair, slice comparison, adapter slot, Robert-Asselin '
        'triple}; distinct = distinct canonical key; non-trivial = the filter output differs from zero; '
        'distinct_nontrivial counts distinct output byte patterns')

EARTH = 6.37122e6
K_LEVELS = 3

EXP_ATT = [0.5, 16.0, 32.0]
EXP_ORDER = [1, 2, 18]
EXP_CUTOFF = [0.0, 0.3, 0.8]
DIFF_ORDER = [1, 2, 3]
# (dt, tau): dt/tau = 0.5, 16 (the documented default pair), 32, 3.2
STEP_PAIRS_QUICK = [(0.25, 0.5), (0.175008, 0.010938)]
STEP_PAIRS = [(0.25, 0.5), (0.175008, 0.010938), (2.0, 0.0625), (0.8, 0.25)]
RA_QUICK = [0.0, 0.01, 0.05, 0.1, 0.25, 0.5, 1.0]


# ---- the lattice ------------------------------------------------------------------------------------

def _with_wavenumbers(M, dealiasing):
  order = {'linear': 2, 'quadratic': 3, 'cubic': 4}[dealiasing]
  nlon = order * M + 1
  return (M, M + 1, nlon, -(-nlon // 2))


def _construct(k, n):
  return (k + 1, k + 2, 4 * n, 2 * n)


HAND = [(4, 5, 13, 7), (6, 7, 12, 8), (5, 5, 11, 6), (3, 5, 8, 5), (2, 4, 7, 4), (3, 3, 7, 4)]


def _shapes(tier):
  out = []
  if tier == 'quick':
    for M in range(1, 9):
      out.append((('with_wavenumbers', M, 'quadratic'), _with_wavenumbers(M, 'quadratic')))
    for M, d in ((2, 'linear'), (5, 'linear'), (3, 'cubic'), (6, 'cubic')):
      out.append((('with_wavenumbers', M, d), _with_wavenumbers(M, d)))
    for k, n in ((0, 1), (2, 2), (3, 2), (5, 4)):
      out.append((('construct', k, n), _construct(k, n)))
  else:
    for M in range(1, 17):
      for d in ('linear', 'quadratic', 'cubic'):
        out.append((('with_wavenumbers', M, d), _with_wavenumbers(M, d)))
    for k in range(0, 7):
      for n in range(1, 7):
        if 2 * n >= k + 1:
          out.append((('construct', k, n), _construct(k, n)))
  for s in HAND:
    out.append((('explicit',) + s, s))
  return out


def _impls(tier):
  if tier == 'quick':
    return [('real', 0), ('fast', 1), ('fast', 2), ('fast', 4)]
  return [('real', 0), ('fast', 1), ('fast', 2), ('fast', 3), ('fast', 4)]


def _radii(tier):
  return [1.0, 2.5] if tier == 'quick' else [1.0, 2.5, EARTH]


def bounds(tier):
  q = tier == 'quick'
  return dict(
      grids='with_wavenumbers(M<=%d, %s), construct(%s), explicit %s' % (
          8 if q else 16, 'quadratic + 4 linear/cubic' if q else 'linear|quadratic|cubic',
          '4 (k,n) pairs' if q else 'all k<=6, n<=6, 2n>=k+1', HAND),
      implementations=['Real'] + ['Fast(base_shape_multiple=%d)' % b for _, b in _impls(tier)[1:]],
      radius=_radii(tier),
      exponential=dict(attenuation=EXP_ATT, order=EXP_ORDER, cutoff=EXP_CUTOFF),
      diffusion=dict(order=DIFF_ORDER, scale=['1e-3', '4*(radius**2/(lmax*(lmax+1)))**order']),
      step_dt_tau=STEP_PAIRS_QUICK if q else STEP_PAIRS,
      array_parameters=['attenuation (3,1,1)', 'order (3,1,1)', 'attenuation (2,1,1,1)', 'scale (3,1,1)',
                        'scale (2,1,1,1)', 'tau (3,1,1)'],
      leaf_shape_alphabet='(), (1,), (L,), (cols,), (3,), (2,) uint32, nodal, (rows,cols), (1,rows,cols), '
                          '(K,rows,cols), (2,K,rows,cols), (3,rows,cols), (2,rows,cols), (rows,1), (cols,rows), '
                          '(rows,cols+1), (K,), (K,1,1), (3,1,cols), python float/int, int32 scalar, float32 scalar, jax arrays, '
                          'the fields of primitive_equations.StateWithTime (incl. sim_time)',
      robert_asselin_r=RA_QUICK if q else 'i/40, i=0..40, + 0.01, 0.03, 0.05',
      amplitudes=core.palette(0, tier) if not q else 'one palette of core.PALETTES (VERIF_SEED)',
  )


def units(tier, seed):
  pal = core.palette(seed, tier)
  us = []
  for ctor, (M, L, nlon, nlat) in _shapes(tier):
    for impl, bsm in _impls(tier):
      for radius in _radii(tier):
        us.append(dict(kind='grid', ctor=list(ctor), M=M, L=L, nlon=nlon, nlat=nlat, impl=impl, bsm=bsm,
                       radius=radius, palettes=pal, tier=tier))
  rs = list(RA_QUICK) if tier == 'quick' else sorted(set([i / 40 for i in range(41)] + [0.01, 0.03, 0.05]))
  chunk = 7 if tier == 'quick' else 11
  for i in range(0, len(rs), chunk):
    us.append(dict(kind='ra', r=rs[i:i + chunk], palettes=pal, tier=tier))
  us.append(dict(kind='degenerate', palettes=pal, tier=tier))
  return us


# ---- helpers ---------------------------------------------------------------------------------------------

def _pattern(shape, amp, salt=0):
  """deterministic, nowhere-zero, sign-changing values."""
  n = int(np.prod(shape)) if len(shape) else 1
  v = (((np.arange(n) * 7 + salt * 3) % 11) - 4.5) / 4.0
  return (amp * v).reshape(shape)


def _np(x):
  return np.asarray(x)


def _ptag(params):
  out = []
  for k, v in params.items():
    a = np.asarray(v)
    out.append([k, [round(float(t), 9) for t in a.ravel()], list(a.shape)] if a.ndim else [k, round(float(a), 9)])
  return out


def _make_grid(unit):
  from dinosaur import spherical_harmonic as sh
  impl = (sh.RealSphericalHarmonics if unit['impl'] == 'real'
          else functools.partial(sh.FastSphericalHarmonics, base_shape_multiple=unit['bsm']))
  c = unit['ctor']
  if c[0] == 'with_wavenumbers':
    return sh.Grid.with_wavenumbers(c[1], dealiasing=c[2], spherical_harmonics_impl=impl, radius=unit['radius'])
  if c[0] == 'construct':
    return sh.Grid.construct(c[1], c[2], spherical_harmonics_impl=impl, radius=unit['radius'])
  return sh.Grid(longitude_wavenumbers=unit['M'], total_wavenumbers=unit['L'], longitude_nodes=unit['nlon'],
                 latitude_nodes=unit['nlat'], spherical_harmonics_impl=impl, radius=unit['radius'])


class _Ctx:
  """Everything one grid unit needs: layout, masks, amplitude list."""

  def __init__(self, unit, rec, grid):
    self.unit, self.rec, self.grid = unit, rec, grid
    self.L = unit['L']
    lay = rf.layout(unit['impl'], unit['M'], unit['L'], unit['bsm'] or 1)
    self.R, self.C = lay['shape']
    self.res = lay['resolved']
    self.idx = np.argwhere(self.res)
    self.gtag = [unit['impl'], unit['bsm'], unit['M'], unit['L'], unit['nlon'], unit['nlat'], unit['radius']]
    self.amps = sorted({a for p in unit['palettes'] for a in p})
    self.nodal = tuple(int(s) for s in grid.nodal_shape)


def _xshape(ctx, sshape, levels=2):
  """shape of a spectral array that the scaling of shape `sshape` rescales: leading scaling axes kept, unit
  axes (levels) expanded to `levels`, then (rows, cols)."""
  if len(sshape) == 1:
    return (ctx.R, ctx.C)
  return tuple(d if d > 1 else levels for d in sshape[:-2]) + (ctx.R, ctx.C)


def _leaves(ctx, sshape, amp):
  """the leaf alphabet: (name, value).  Values are nowhere zero so that a rescaling is visible."""
  R, C, L, K = ctx.R, ctx.C, ctx.L, K_LEVELS
  import jax.numpy as jnp
  shapes = [
      ('scalar0d', ()), ('one', (1,)), ('len_L', (L,)), ('len_cols', (C,)), ('vec3', (3,)), ('nodal', ctx.nodal),
      ('modal', (R, C)), ('surface', (1, R, C)), ('levels', (K, R, C)), ('time_levels', (2, K, R, C)),
      ('three_slices', (3, R, C)), ('two_slices', (2, R, C)), ('rows_only', (R, 1)), ('transposed', (C, R)),
      ('cols_plus_one', (R, C + 1)), ('len_K', (K,)), ('per_level', (K, 1, 1)), ('scaling_like', (3, 1, C)),
      ('nodal_levels', (K,) + ctx.nodal),
  ]
  out = [(n, _pattern(s, amp, i)) for i, (n, s) in enumerate(shapes)]
  out.append(('levels_jax', jnp.asarray(_pattern((K, R, C), amp, 31))))
  out.append(('scalar_jax', jnp.asarray(amp * 1.75)))
  out.append(('prng_key', np.array([0, 42], dtype=np.uint32)))
  out.append(('step_int32', np.array(7, dtype=np.int32)))
  out.append(('sim_time_pyfloat', 0.125 * amp))
  out.append(('count_pyint', 5))
  out.append(('f32_scalar', np.float32(1.5)))
  # the fields of a real model state with a clock (primitive_equations.StateWithTime)
  for i, n in enumerate(('vorticity', 'divergence', 'temperature_variation', 'q')):
    out.append(('pe.' + n, _pattern((K, R, C), amp, 40 + i)))
  out.append(('pe.log_surface_pressure', _pattern((1, R, C), amp, 47)))
  out.append(('pe.sim_time', np.float64(12.625 * amp)))
  return out


def _tree(leaves):
  """nests the leaves in dict / list / tuple containers (with a None subtree)."""
  from dinosaur import primitive_equations as pe
  d = dict(leaves)
  model_state = pe.StateWithTime(
      vorticity=d['pe.vorticity'], divergence=d['pe.divergence'], temperature_variation=d['pe.temperature_variation'],
      log_surface_pressure=d['pe.log_surface_pressure'], sim_time=d['pe.sim_time'], tracers={'q': d['pe.q']})
  leaves = [(k, v) for k, v in leaves if not k.startswith('pe.')]
  n = len(leaves)
  a, b, c = leaves[:n // 3], leaves[n // 3: 2 * n // 3], leaves[2 * n // 3:]
  return {'state': {k: v for k, v in a}, 'aux': [v for _, v in b],
          'nest': (tuple(v for _, v in c), {'none': None}), 'model_state': model_state}


def _check_factor(ctx, fam, ptag, apply, factor, sshape, asserted_range=True, amps=None):
  """ones spectrum + every basis vector through `apply`; `factor`: reference (..., L) long double."""
  rec, L, R, C = ctx.rec, ctx.L, ctx.R, ctx.C
  fb = rf.pad_factor(factor, C)                      # (..., C), extended precision
  fb = np.broadcast_to(fb, sshape) if fb.shape != tuple(sshape) else fb
  fbx = fb.astype(np.float64)                        # broadcasts against x below
  xshape = _xshape(ctx, sshape)
  res = np.broadcast_to(ctx.res, xshape)

  # -- all-ones spectrum: reads the factor at every (m, l) ------------------------------------------
  key = (ctx.gtag, fam, ptag, 'ones')
  o = _np(apply(np.ones(xshape)))
  shape_ok = o.shape == tuple(xshape)
  rec.case(key, outcome=o.tobytes(),
           sample={'grid': ctx.gtag, 'filter': fam, 'params': ptag, 'input': 'ones' + str(xshape),
                   'factor_row0': [float(v) for v in o.reshape(-1, R, C)[0, 0, :L]] if shape_ok else None})
  if not rec.check(shape_ok, fam + ':output_shape', key, {'got': list(o.shape), 'want': list(xshape)}):
    return
  rec.finite(o, site=fam + ':finite_everywhere', key=key)
  want = np.broadcast_to(fbx, xshape)
  rec.close(o[res], want[res], scale=1.0, site=fam + ':closed_form', key=key)
  rec.zero(np.where(res, o - o[..., 0:1, :], 0.0), site=fam + ':factor_depends_on_l_only', key=key)
  rec.close(o[..., 0, 0], np.ones(xshape[:-2]), scale=1.0, site=fam + ':mean_factor_is_one', key=key)
  if asserted_range:
    exact = np.broadcast_to(fb, xshape)[res]
    tiny = exact < 1e-290
    rec.check(bool(np.all(o[res] <= 1.0)) and bool(np.all(o[res] >= 0.0)) and bool(np.all(o[res][~tiny] > 0.0)),
              fam + ':factor_in_(0,1]', key, {'min': float(np.min(o[res])), 'max': float(np.max(o[res]))})
    if tiny.any():
      rec.note('factor_underflows_float64_only_nonnegativity_asserted', int(tiny.sum()))
    row0 = o[..., 0, :L]
    inc = np.maximum(row0[..., 1:] - row0[..., :-1], 0.0)
    rec.close(inc, np.zeros_like(inc), scale=1.0, site=fam + ':non_increasing_in_l', key=key)

  # -- every basis vector (resolved coefficients), all amplitudes of the palette: no mixing ----------------
  n = len(ctx.idx)
  E = np.zeros((n, R, C))
  E[np.arange(n), ctx.idx[:, 0], ctx.idx[:, 1]] = 1.0
  xshape = _xshape(ctx, sshape, levels=1)
  lead = xshape[:-2]
  Eb = np.broadcast_to(E.reshape((n,) + (1,) * len(lead) + (R, C)), (n,) + xshape)
  amps = np.asarray(ctx.amps if amps is None else amps)
  x = amps.reshape((-1,) + (1,) * Eb.ndim) * Eb[None]
  key = (ctx.gtag, fam, ptag, 'basis', [float(a) for a in amps])
  o = _np(apply(x))
  if rec.check(o.shape == x.shape, fam + ':output_shape', key, {'got': list(o.shape), 'want': list(x.shape)}):
    hit = x != 0
    rec.case(key, transitions=n * len(amps), outcome=o[hit].tobytes())
    rec.zero(o[~hit], site=fam + ':no_mixing_between_coefficients', key=key)
    want = x * np.broadcast_to(fbx, xshape)
    rec.close(o[..., :L], want[..., :L], scale=float(np.max(np.abs(amps))), site=fam + ':basis_images', key=key)


def _check_pytree(ctx, fam, ptag, apply, factor, sshape, amp):
  """mixed pytree: a leaf is rescaled iff broadcasting the scaling against it keeps its shape."""
  import jax
  rec, L, R, C = ctx.rec, ctx.L, ctx.R, ctx.C
  fb = rf.pad_factor(factor, C)
  fb64 = np.broadcast_to(fb, sshape).astype(np.float64)
  leaves = _leaves(ctx, sshape, amp)
  tree = _tree(leaves)
  key = (ctx.gtag, fam, ptag, 'pytree', amp)
  try:
    out = apply(tree)
  except Exception as e:  # pylint: disable=broad-except
    rec.case(key, transitions=len(leaves), outcome=('raised', type(e).__name__))
    rec.check(False, fam + ':raised_on_mixed_pytree', key, {'error': '%s: %s' % (type(e).__name__, str(e)[:200])},
              sig={'kind': 'filter_raises_on_unrelated_leaf'})
    return
  fin, din = jax.tree_util.tree_flatten(tree)
  fout, dout = jax.tree_util.tree_flatten(out)
  if not rec.check(din == dout and len(fin) == len(fout), fam + ':pytree_structure_preserved', key,
                   {'in': str(din)[:200], 'out': str(dout)[:200]}):
    return
  # tree_flatten orders dict keys; rebuild the name order the same way
  names = jax.tree_util.tree_flatten(_tree([(n, n) for n, _ in leaves]))[0]
  byname = dict(leaves)
  for name, got in zip(names, fout):
    leaf = byname[name]
    shape = tuple(np.shape(leaf))
    lkey = (ctx.gtag, fam, ptag, 'leaf', name, list(shape), amp)
    g = _np(got)
    rescaled = rf.is_rescaled(shape, sshape)
    rec.case(lkey, outcome=name.encode() + g.tobytes())
    if rescaled:
      if name in ('nodal', 'nodal_levels', 'vec3', 'len_K', 'prng_key', 'len_L', 'transposed', 'cols_plus_one'):
        rec.note('unrelated_leaf_shape_coincides_with_spectral_shape:' + name)
      want = _np(leaf) * fb64
      mag = float(np.max(np.abs(_np(leaf).astype(np.float64))))   # operand magnitude (leaves are nowhere zero)
      ok = rec.check(g.shape == want.shape, fam + ':rescaled_leaf_shape', lkey, {'got': list(g.shape)})
      if ok:
        rec.finite(g, site=fam + ':rescaled_leaf_finite', key=lkey)
        if len(shape) >= 2 and shape[-2:] == (R, C):
          m = np.broadcast_to(ctx.res, shape)
          rec.close(g[m], want[m], scale=mag, site=fam + ':leaf_rescaled_iff_shape_preserved', key=lkey)
        else:
          rec.close(g[..., :L], want[..., :L], scale=mag, site=fam + ':leaf_rescaled_iff_shape_preserved', key=lkey)
    else:
      if isinstance(leaf, (float, int)) and not isinstance(leaf, np.generic):
        rec.check(type(got) is type(leaf) and got == leaf, fam + ':unrelated_leaf_untouched', lkey,
                  {'got': repr(got), 'want': repr(leaf)})
      else:
        rec.exact(g, _np(leaf), site=fam + ':unrelated_leaf_untouched', key=lkey)


def _state_pair(ctx, amp):
  """two small states (same structure, different values) used as `u` for the adapters."""
  mk = lambda s: {'x': _pattern((K_LEVELS, ctx.R, ctx.C), amp, s), 'sp': _pattern((1, ctx.R, ctx.C), amp, s + 1),
                  't': np.float64(0.25 * (s + 1)), 'diag': _pattern(ctx.nodal, amp, s + 2)}
  return mk(3), mk(8), mk(13), mk(21)


def _same_tree(rec, a, b, site, key):
  import jax
  fa, da = jax.tree_util.tree_flatten(a)
  fb_, db = jax.tree_util.tree_flatten(b)
  if not rec.check(da == db, site, key, {'in': str(da)[:200], 'out': str(db)[:200]}):
    return False
  for x, y in zip(fa, fb_):   # one violation per (site, key): stop at the first differing leaf
    if not rec.exact(_np(x), _np(y), site=site, key=key):
      return False
  return True


# ---- one grid unit ---------------------------------------------------------------------------------------

def _work_grid(unit, rec):
  from dinosaur import filtering
  from dinosaur import time_integration as ti

  grid = _make_grid(unit)
  key0 = ('grid', unit['ctor'], unit['impl'], unit['bsm'], unit['radius'])
  got = (grid.longitude_wavenumbers, grid.total_wavenumbers, grid.longitude_nodes, grid.latitude_nodes)
  ctx = _Ctx(unit, rec, grid)
  ok = rec.check(got == (unit['M'], unit['L'], unit['nlon'], unit['nlat']) and tuple(grid.modal_shape) == (ctx.R, ctx.C)
                 and float(grid.radius) == unit['radius'],
                 'layout_precondition', key0, {'grid': list(got), 'modal_shape': list(grid.modal_shape),
                                               'reference_shape': [ctx.R, ctx.C]})
  if not ok:
    return
  L, C, radius = ctx.L, ctx.C, unit['radius']
  lam_max = float((L - 1) * L)   # l(l+1) of the top total wavenumber
  quick = unit['tier'] == 'quick'
  pairs = STEP_PAIRS_QUICK if quick else STEP_PAIRS
  amp0 = ctx.amps[0]
  amp1 = ctx.amps[-1]
  one_amp = [amp1]
  u_a, u_b, cur, prev = _state_pair(ctx, amp0)

  def rk(stepf):
    return lambda s: stepf(s, s)

  def lf(stepf):
    return lambda s: stepf((s, s), (s, s))[1]

  # ---- exponential filter: scalar parameters ---------------------------------------------------------
  for a in EXP_ATT:
    for p in EXP_ORDER:
      for c in EXP_CUTOFF:
        params = dict(attenuation=a, order=p, cutoff=c)
        ptag = _ptag(params)
        fn = filtering.exponential_filter(grid, a, p, c)
        factor = rf.exponential_factor(L, a, p, c)
        _check_factor(ctx, 'exponential_filter', ptag, fn, factor, (C,))
        _check_pytree(ctx, 'exponential_filter', ptag, fn, factor, (C,), amp0 if (p + int(a)) % 2 else amp1)

  # ---- horizontal diffusion filter: scalar parameters ----------------------------------------------
  for p in DIFF_ORDER:
    for s in (1e-3, 4.0 * (radius ** 2 / lam_max) ** p):
      ptag = _ptag(dict(scale=s, order=p))
      fn = filtering.horizontal_diffusion_filter(grid, s, p)
      factor = rf.diffusion_factor(L, radius, s, p)
      _check_factor(ctx, 'horizontal_diffusion_filter', ptag, fn, factor, (C,))
      _check_pytree(ctx, 'horizontal_diffusion_filter', ptag, fn, factor, (C,), amp0)

  # ---- step filters: closed form in dt/tau, semigroup, adapters ----------------------------------------
  def semigroup(fam, ptag, half, full):
    key = (ctx.gtag, fam, ptag, 'semigroup')
    x = np.ones((ctx.R, ctx.C))
    twice = _np(half(half(x)))
    once = _np(full(x))
    rec.case(key, transitions=3, outcome=twice.tobytes())
    rec.finite(twice, site=fam + ':semigroup_finite', key=key)
    rec.close(twice[ctx.res], once[ctx.res], scale=1.0, site=fam + ':two_half_steps_equal_one_step', key=key)

  for dt, tau in pairs:
    for p in EXP_ORDER:
      for c in EXP_CUTOFF:
        ptag = _ptag(dict(dt=dt, tau=tau, order=p, cutoff=c))
        factor = rf.exponential_step_factor(L, dt, tau, p, c)
        st = ti.exponential_step_filter(grid, dt, tau, p, c)
        _check_factor(ctx, 'exponential_step_filter', ptag, rk(st), factor, (C,), amps=one_amp)
        _check_pytree(ctx, 'exponential_step_filter', ptag, rk(st), factor, (C,), amp0)
        semigroup('exponential_step_filter', ptag, rk(ti.exponential_step_filter(grid, dt / 2, tau, p, c)), rk(st))
        # Runge-Kutta adapter: result is the filtered u_next and does not depend on u
        key = (ctx.gtag, 'exponential_step_filter', ptag, 'rk_slot')
        o1, o2 = st(u_a, cur), st(u_b, cur)
        rec.case(key, transitions=2, outcome=_np(o1['x']).tobytes())
        _same_tree(rec, o1, o2, 'runge_kutta_step_filter:independent_of_u', key)
        _same_tree(rec, o1, filtering.exponential_filter(grid, dt / tau, p, c)(cur),
                   'runge_kutta_step_filter:equals_state_filter_of_u_next', key)

        lst = ti.exponential_leapfrog_step_filter(grid, dt, tau, p, c)
        _check_factor(ctx, 'exponential_leapfrog_step_filter', ptag, lf(lst), factor, (C,), amps=one_amp)
        _check_pytree(ctx, 'exponential_leapfrog_step_filter', ptag, lf(lst), factor, (C,), amp1)
        semigroup('exponential_leapfrog_step_filter', ptag,
                  lf(ti.exponential_leapfrog_step_filter(grid, dt / 2, tau, p, c)), lf(lst))
        # leapfrog adapter: (current, future) -> (current bit-identical, filtered future); u is not read
        key = (ctx.gtag, 'exponential_leapfrog_step_filter', ptag, 'leapfrog_slot')
        fut = u_a
        o1 = lst((prev, cur), (cur, fut))
        o2 = lst((u_b, cur), (cur, fut))
        rec.case(key, transitions=2, outcome=_np(o1[1]['x']).tobytes())
        if rec.check(isinstance(o1, tuple) and len(o1) == 2, 'leapfrog_step_filter:returns_pair', key, {}):
          _same_tree(rec, o1[0], cur, 'leapfrog_step_filter:current_slot_bit_identical', key)
          _same_tree(rec, o1, o2, 'leapfrog_step_filter:independent_of_u', key)
          _same_tree(rec, o1[1], st(fut, fut), 'leapfrog_step_filter:future_slot_is_filtered_future', key)

    for p in DIFF_ORDER:
      ptag = _ptag(dict(dt=dt, tau=tau, order=p))
      factor = rf.diffusion_step_factor(L, dt, tau, p)
      st = ti.horizontal_diffusion_step_filter(grid, dt, tau, p)
      _check_factor(ctx, 'horizontal_diffusion_step_filter', ptag, rk(st), factor, (C,), amps=one_amp)
      _check_pytree(ctx, 'horizontal_diffusion_step_filter', ptag, rk(st), factor, (C,), amp0)
      semigroup('horizontal_diffusion_step_filter', ptag,
                rk(ti.horizontal_diffusion_step_filter(grid, dt / 2, tau, p)), rk(st))
      key = (ctx.gtag, 'horizontal_diffusion_step_filter', ptag, 'rk_slot')
      o1, o2 = st(u_a, cur), st(u_b, cur)
      rec.case(key, transitions=2, outcome=_np(o1['x']).tobytes())
      _same_tree(rec, o1, o2, 'runge_kutta_step_filter:independent_of_u', key)

  # ---- generic adapters around another state filter (diffusion) ----------------------------------------
  for p in DIFF_ORDER:
    s = 4.0 * (radius ** 2 / lam_max) ** p
    ptag = _ptag(dict(scale=s, order=p))
    base = filtering.horizontal_diffusion_filter(grid, s, p)
    factor = rf.diffusion_factor(L, radius, s, p)
    lst = ti.leapfrog_step_filter(base)
    rst = ti.runge_kutta_step_filter(base)
    _check_factor(ctx, 'leapfrog_step_filter(diffusion)', ptag, lf(lst), factor, (C,), amps=one_amp)
    _check_factor(ctx, 'runge_kutta_step_filter(diffusion)', ptag, rk(rst), factor, (C,), amps=one_amp)
    key = (ctx.gtag, 'leapfrog_step_filter(diffusion)', ptag, 'leapfrog_slot')
    o1 = lst((prev, cur), (cur, u_a))
    rec.case(key, transitions=1, outcome=_np(o1[1]['x']).tobytes())
    if rec.check(isinstance(o1, tuple) and len(o1) == 2, 'leapfrog_step_filter:returns_pair', key, {}):
      _same_tree(rec, o1[0], cur, 'leapfrog_step_filter:current_slot_bit_identical', key)
      _same_tree(rec, o1[1], base(u_a), 'leapfrog_step_filter:future_slot_is_filtered_future', key)
      _same_tree(rec, rst(u_b, u_a), base(u_a), 'runge_kutta_step_filter:equals_state_filter_of_u_next', key)

  # ---- array-valued strengths: closed form with the parameter axes, and == per-slice scalar filters ------
  def slices(fam, ptag, fn_array, scalar_fns, lead):
    """fn_array on x[lead..., R, C] must equal scalar_fns[i] on x[i] for the leading parameter axis."""
    xs = tuple(lead) + (ctx.R, ctx.C)
    x = _pattern(xs, amp0, 5)
    key = (ctx.gtag, fam, ptag, 'slices')
    o = _np(fn_array(x))
    rec.case(key, transitions=1 + len(scalar_fns), outcome=o.tobytes())
    if not rec.check(o.shape == xs, fam + ':output_shape', key, {'got': list(o.shape), 'want': list(xs)}):
      return
    rec.finite(o, site=fam + ':finite_everywhere', key=key)
    m = np.broadcast_to(ctx.res, xs[1:])
    for i, f in enumerate(scalar_fns):
      oi = _np(f(x[i]))
      if not rec.close(o[i][m], oi[m], scale=abs(amp0) * 1.2, site=fam + ':array_strength_equals_per_slice_scalar',
                       key=key):
        break

  A3 = np.array(EXP_ATT).reshape(3, 1, 1)
  P3 = np.array(EXP_ORDER).reshape(3, 1, 1)
  A2 = np.array([1.0, 2.0]).reshape(2, 1, 1, 1)
  for c in (0.0, 0.3):
    for (a, p, lead) in ((A3, 2, (3,)), (16.0, P3, (3,)), (A3, P3, (3,)), (A2, 18, (2, K_LEVELS)), (A2, 1, (2, K_LEVELS))):
      fam = 'exponential_filter[array]'
      ptag = _ptag(dict(attenuation=a, order=p, cutoff=c))
      fn = filtering.exponential_filter(grid, a, p, c)
      factor = rf.exponential_factor(L, a, p, c)
      ss = rf.scaling_shape(C, a, p)
      _check_factor(ctx, fam, ptag, fn, factor, ss, amps=one_amp)
      _check_pytree(ctx, fam, ptag, fn, factor, ss, amp0)
      n = lead[0]
      av = np.broadcast_to(np.asarray(a, dtype=float).reshape(-1), (n,)) if np.ndim(a) else [a] * n
      pv = np.broadcast_to(np.asarray(p).reshape(-1), (n,)) if np.ndim(p) else [p] * n
      slices(fam, ptag, fn, [filtering.exponential_filter(grid, float(av[i]), int(pv[i]), c) for i in range(n)], lead)

  S3 = np.array([0.1, 2.0, 8.0]).reshape(3, 1, 1)
  S2 = np.array([0.5, 4.0]).reshape(2, 1, 1, 1)
  for p in (1, 2):
    for (s, lead) in ((S3 * (radius ** 2 / lam_max) ** p, (3,)), (S2 * (radius ** 2 / lam_max) ** p, (2, K_LEVELS))):
      fam = 'horizontal_diffusion_filter[array]'
      ptag = _ptag(dict(scale=s, order=p))
      fn = filtering.horizontal_diffusion_filter(grid, s, p)
      factor = rf.diffusion_factor(L, radius, s, p)
      ss = rf.scaling_shape(C, s)
      _check_factor(ctx, fam, ptag, fn, factor, ss, amps=one_amp)
      _check_pytree(ctx, fam, ptag, fn, factor, ss, amp1)
      slices(fam, ptag, fn, [filtering.horizontal_diffusion_filter(grid, float(v), p) for v in s.reshape(-1)], lead)

  T3 = np.array([0.5, 0.0625, 0.25]).reshape(3, 1, 1)
  dt = 0.25
  for p in (1, 2):
    fam = 'exponential_step_filter[array]'
    ptag = _ptag(dict(dt=dt, tau=T3, order=p, cutoff=0.3))
    st = ti.exponential_step_filter(grid, dt, T3, p, 0.3)
    factor = rf.exponential_step_factor(L, dt, T3, p, 0.3)
    ss = rf.scaling_shape(C, T3)
    _check_factor(ctx, fam, ptag, rk(st), factor, ss, amps=one_amp)
    slices(fam, ptag, rk(st), [rk(ti.exponential_step_filter(grid, dt, float(t), p, 0.3)) for t in T3.reshape(-1)], (3,))
    fam = 'horizontal_diffusion_step_filter[array]'
    ptag = _ptag(dict(dt=dt, tau=T3, order=p))
    st = ti.horizontal_diffusion_step_filter(grid, dt, T3, p)
    factor = rf.diffusion_step_factor(L, dt, T3, p)
    _check_factor(ctx, fam, ptag, rk(st), factor, ss, amps=one_amp)
    slices(fam, ptag, rk(st), [rk(ti.horizontal_diffusion_step_filter(grid, dt, float(t), p)) for t in T3.reshape(-1)], (3,))


# ---- Robert-Asselin ---------------------------------------------------------------------------------------

RA_SHAPES = [(), (1,), (3,), (5, 4), (2, 5, 4), (7, 3)]


def _work_ra(unit, rec):
  from dinosaur import time_integration as ti
  import jax
  amps = sorted({a for p in unit['palettes'] for a in p})
  for r in unit['r']:
    filt = ti.robert_asselin_leapfrog_filter(r)
    rt = round(float(r), 9)

    def mk(salt, amp, zero=False):
      t = {'state': {'s%d' % j: (np.zeros(sh) if zero else _pattern(sh, amp, salt + j)) for j, sh in enumerate(RA_SHAPES)}}
      t['clock'] = np.float64(0.0 if zero else amp * (salt + 1) * 0.125)
      return t

    def run(p, c, f):
      # leapfrog history: u = (previous, current), u_next = (current, future)
      return filt((p, c), (c, f))

    for amp in amps:
      # impulse responses: only one of the three levels is non-zero
      for slot in range(3):
        trip = [mk(0, amp, zero=True) for _ in range(3)]
        trip[slot] = mk(2 + slot, amp)
        key = ('ra', rt, 'impulse', slot, amp)
        out = run(*trip)
        ok = rec.check(isinstance(out, tuple) and len(out) == 2, 'robert_asselin:returns_pair', key, {})
        fl = jax.tree_util.tree_leaves(out[0]) if ok else []
        rec.case(key, transitions=len(fl), outcome=b''.join(_np(x).tobytes() for x in fl),
                 nontrivial=any(bool(np.any(_np(x) != 0)) for x in fl),
                 sample={'r': rt, 'input': 'impulse in level %d of (previous, current, future)' % slot, 'amp': amp})
        if not ok:
          continue
        _same_tree(rec, out[1], trip[2], 'robert_asselin:newest_level_bit_identical', key)
        want = jax.tree_util.tree_map(lambda p, c, f: rf.robert_asselin(p, c, f, r).astype(np.float64), *trip)
        for g, w in zip(fl, jax.tree_util.tree_leaves(want)):
          if not rec.close(_np(g), w, scale=abs(amp) * 1.2, site='robert_asselin:three_point_closed_form', key=key):
            break
      # linear in time: previous = a - d, current = a, future = a + d
      for salt, (a_amp, d_amp) in enumerate([(amp, amps[0]), (amp, -0.375), (0.0, amp), (amp, 0.0)]):
        a = mk(5 + salt, a_amp) if a_amp else mk(0, 1.0, zero=True)
        d = mk(9 + salt, d_amp) if d_amp else mk(0, 1.0, zero=True)
        # an integer-typed leaf that is linear in time (a step counter carried in the leapfrog state): n-1, n, n+1
        a['counter'] = np.arange(1, 65, dtype=np.int32 if salt % 2 else np.int64)
        d['counter'] = np.ones(64, dtype=a['counter'].dtype)
        p = jax.tree_util.tree_map(lambda x, y: x - y, a, d)
        f = jax.tree_util.tree_map(lambda x, y: x + y, a, d)
        key = ('ra', rt, 'linear_in_time', a_amp, d_amp)
        out = run(p, a, f)
        if not rec.check(isinstance(out, tuple) and len(out) == 2, 'robert_asselin:returns_pair', key, {}):
          continue
        fl = jax.tree_util.tree_leaves(out[0])
        rec.case(key, transitions=len(fl), outcome=b''.join(_np(x).tobytes() for x in fl), nontrivial=bool(a_amp))
        _same_tree(rec, out[1], f, 'robert_asselin:newest_level_bit_identical', key)
        scale = (abs(a_amp) + abs(d_amp)) * 1.2 * 3
        rec.close(np.asarray(_np(out[0]['counter']), dtype=np.float64), np.arange(1, 65, dtype=np.float64), scale=64.0,
                  site='robert_asselin:linear_in_time_unchanged', key=key, sig={'leaf': 'integer step counter'})
        for g, w in zip(fl, jax.tree_util.tree_leaves(a)):
          if not rec.close(_np(g), _np(w), scale=scale, site='robert_asselin:linear_in_time_unchanged', key=key):
            break


# ---- degenerate grids (counted, not asserted) -------------------------------------------------------------

def _work_degenerate(unit, rec):
  from dinosaur import filtering
  from dinosaur import time_integration as ti
  for impl, bsm in (('real', 0), ('fast', 1), ('fast', 2)):
    u = dict(unit, impl=impl, bsm=bsm, ctor=['explicit'], M=1, L=1, nlon=4, nlat=2, radius=1.0)
    grid = _make_grid(u)
    x = np.ones(grid.modal_shape)
    for name, fn in (('exponential_filter', filtering.exponential_filter(grid, 16, 18, 0.0)),
                     ('horizontal_diffusion_step_filter',
                      lambda s, g=grid: ti.horizontal_diffusion_step_filter(g, 0.25, 0.5, 1)(s, s))):
      key = ('degenerate_L1', impl, bsm, name)
      o = _np(fn(x))
      rec.case(key, outcome=o.tobytes(), nontrivial=False)
      if not np.all(np.isfinite(o)):
        rec.note('single_wavenumber_grid_L1_factor_not_finite(0/0)_not_asserted')


def work(unit, rec):
  if unit['kind'] == 'grid':
    _work_grid(unit, rec)
  elif unit['kind'] == 'ra':
    _work_ra(unit, rec)
  else:
    _work_degenerate(unit, rec)
