"""C16: conservative regridding preserves constants, bounds and integrals (horizontal and hybrid->sigma vertical).

Bounded-exhaustive enumeration on the real code.  Horizontal: every ordered (source, target) pair of the grid
lattice (sizes x latitude spacings x longitude offsets, coarser and finer, nested and non-nested).  For every
pair the longitude and latitude weight factors (`lon_weights`, `lat_weights`) are compared with the reference
overlap weights, and every source basis field (one-hot cell) is pushed through the real
`ConservativeRegridder.__call__` (skipna False and True), which yields the full weight matrix W[target, source]
by linearity.  Oracle on W: W >= 0, rows sum to one, sum_t area_t W[t,s] == area_s with the areas of the
reference cell bounds, W == reference overlap weights (mc.ref.regrid); hence constants, bounds and integrals for
every field.  A constant and a distinct-valued field go through the same call (linearity, range).  NaN patterns
(every single cell, every pair of cells on the small grids, every full longitude row / latitude circle, all cells)
go through both skipna modes and are compared with the documented semantics.

Vertical: hybrid coordinates {ECMWF137, UFS127, 3 synthetic} x sigma level sets on the tenths lattice x surface
pressures {500, 850, 1013.25, 1080} hPa x every basis column through `vertical_interpolation.ConservativeRegridder`
(= regrid_hybrid_to_sigma); same oracle with pressure-thickness overlaps over the covered range.

Counted, not asserted: target cells whose NaN source cells carry a reference weight in (1e-9, 1e-2) with
skipna=False (the code thresholds with isclose(rtol=1e-3)); target cells whose only valid source cells merely touch
them (zero-area contact decided by rounding) with skipna=True; sigma layers not covered by the source column.
"""
import itertools
import numpy as np

from mc import core
from mc.ref import regrid as rr

ID = 'C16'
TECHNIQUE = ('bounded-exhaustive enumeration (explicit-state) of grid pairs x basis fields x NaN patterns on the real '
             'regridders against a reference overlap model')
ASSUMPTIONS = [
    'numpy float64 arithmetic of the reference model (mc/ref/regrid.py): midpoint cell bounds, interval overlap in '
    'longitude, in sin(latitude) and in pressure',
    'linearity + complete basis: agreement of the weight matrix on every one-hot source field implies agreement on all '
    'NaN-free fields for that grid pair (linearity is checked on a distinct-valued superposition of all basis fields)',
    'domain restriction stated by the code: no longitude cell wider than half the circle; nlon >= 3 is enumerated (nlon = 2 is the '
    'degenerate boundary where the nearest periodic image of a neighbour is a tie); grids outside the enumerated lattice are not covered',
    'NaN semantics are decided on the enumerated patterns only (single cells, pairs on grids with <= 18 cells, full rows, '
    'all cells); the quick tier runs __call__ on a covering sub-lattice of pairs (every latitude factor and, for each size pair, '
    'every offset pair of the design lattice at least once) and the weight factors on all pairs; the thorough tier runs __call__ on all pairs',
    'vertical: hybrid coefficients are taken from the library objects as configuration; surface pressures on the 4-point lattice',
]
RULE = ('case = (source grid, target grid, what) with what in {factors, basis through __call__ per skipna, constant/'
        'distinct field per skipna, one NaN pattern (both skipna modes)} or (hybrid, sigma set, surface pressure); '
        'distinct = distinct canonical key; non-trivial = output not identically zero; distinct_nontrivial counts '
        'distinct output byte patterns')

SIZES = [(3, 2), (4, 2), (5, 3), (6, 3), (8, 4), (7, 5), (12, 6), (16, 8)]
SPACINGS = ['gauss', 'equiangular', 'equiangular_with_poles']
OFFSETS_THOROUGH = [0.0, 0.1, float(np.pi / 5), 1.0, 3.0, 6.0]
OFFSETS_QUICK = [0.0, 0.1, 3.0]
# pairs that involve a three-cell longitude grid (cells 2*pi/3 wide, the widest the code admits) get extra offsets
OFFSETS_NLON3_EXTRA = {'quick': [0.5, 1.0], 'thorough': [0.5]}
QUICK_LATIN_SHIFTS = (0,)         # quick: spacing pair k=(3*i+j) runs offset pair (k+shift) mod n through __call__
PAIRS_PER_UNIT = 25               # grid pairs per work unit
PAIR_PATTERN_MAX_CELLS = 18       # "smaller grids": all pairs of NaN cells when the source has <= 18 cells
SURFACE_PRESSURES = [500.0, 850.0, 1013.25, 1080.0]
HYBRIDS = ['ECMWF137', 'UFS127', 'sigma5', 'mixed5', 'top60']
SETS_PER_UNIT = 16

NAN_MUST = 1e-2      # skipna=False: NaN cells carrying at least this reference weight must give NaN
NAN_NONE = 1e-9      # skipna=False: NaN cells carrying at most this reference weight must not give NaN
VALID_MIN = 1e-6     # skipna=True: valid cells carrying at least this reference weight must give their mean


def _offsets(tier, a, b):
  offs = list(OFFSETS_QUICK if tier == 'quick' else OFFSETS_THOROUGH)
  if 3 in (a[0], b[0]):
    offs = sorted(offs + OFFSETS_NLON3_EXTRA[tier])
  return offs


def bounds(tier):
  offs = OFFSETS_QUICK if tier == 'quick' else OFFSETS_THOROUGH
  npairs = sum(len(_offsets(tier, a, b)) ** 2 * len(SPACINGS) ** 2 for a in SIZES for b in SIZES)
  return dict(sizes_nlon_nlat=SIZES, spacings=SPACINGS, longitude_offsets=offs,
              extra_offsets_for_pairs_with_nlon_3=OFFSETS_NLON3_EXTRA[tier], grid_pairs=npairs,
              pairs_through_call=('covering sub-lattice, %d per (size, size): spacing pair k runs with offset pair k, so '
                                  'every spacing pair and the first 9 offset pairs occur; the weight factors are checked '
                                  'on all pairs' % (9 * len(QUICK_LATIN_SHIFTS)))
              if tier == 'quick' else 'all',
              nan_patterns='all single cells; all pairs of cells (source <= %d cells); full longitude rows; full latitude '
                           'circles; all cells' % PAIR_PATTERN_MAX_CELLS,
              skipna=[False, True],
              hybrids=HYBRIDS, sigma_sets='tenths lattice, K<=%d, + 2 irregular' % (4 if tier == 'quick' else 10),
              surface_pressures_hPa=SURFACE_PRESSURES)


def units(tier, seed):
  pal = core.palette(seed, tier)
  amps_all = sorted({p[-1] for p in pal}, key=lambda v: (abs(v) != 1.0, v))      # quick: one amplitude; thorough: 1, -0.5, 2
  amps_h = amps_all[:2]
  us = []
  for a in SIZES:
    for b in SIZES:
      offs = _offsets(tier, a, b)
      opairs = list(itertools.product(range(len(offs)), repeat=2))
      for i, sa in enumerate(SPACINGS):
        for j, sb in enumerate(SPACINGS):
          if tier == 'quick':
            k = i * 3 + j
            call = {(k + s) % len(opairs) for s in QUICK_LATIN_SHIFTS}
          else:
            call = set(range(len(opairs)))
          pairs = [[ia, ib, int(n in call)] for n, (ia, ib) in enumerate(opairs)]
          for c in range(0, len(pairs), PAIRS_PER_UNIT):
            us.append(dict(kind='h', a=list(a), b=list(b), sa=sa, sb=sb, offsets=offs, pairs=pairs[c:c + PAIRS_PER_UNIT],
                           amps=amps_h))
  sets = rr.tenths_level_sets(4 if tier == 'quick' else None)
  sets = sets + [list(s) for s in rr.IRREGULAR if list(s) not in sets]
  for h in HYBRIDS:
    for c in range(0, len(sets), SETS_PER_UNIT):
      us.append(dict(kind='v', hybrid=h, sets=sets[c:c + SETS_PER_UNIT], amps=amps_all))
  return us


# -- helpers ----------------------------------------------------------------------------------------------------
def _tag(size, spacing, offset):
  return [int(size[0]), int(size[1]), spacing, round(float(offset), 6)]


def _relevant(rec, *tags):
  return True      # a replay re-executes the whole unit; run.py filters the violations by key


def _distinct_field(n, amp):
  i = np.arange(n)
  return amp * (((37 * i + 11) % 257) / 128.0 - 1.0 + 0.0013)


def _nan_patterns(nlon, nlat):
  """list of (family, cells) with cells = flat indices (lon-major) of the NaN source cells"""
  ns = nlon * nlat
  pats = [('single', (i,)) for i in range(ns)]
  if ns <= PAIR_PATTERN_MAX_CELLS:
    pats += [('pair', p) for p in itertools.combinations(range(ns), 2)]
  pats += [('lon_row', tuple(i * nlat + d for d in range(nlat))) for i in range(nlon)]
  pats += [('lat_circle', tuple(b * nlat + d for b in range(nlon))) for d in range(nlat)]
  pats += [('all', tuple(range(ns)))]
  seen, out = set(), []
  for fam, cells in pats:           # on the smallest grids a full row is also a pair of cells: one case, not two
    if cells not in seen:
      seen.add(cells)
      out.append((fam, cells))
  return out


def work(unit, rec):
  if unit['kind'] == 'h':
    _work_horizontal(unit, rec)
  else:
    _work_vertical(unit, rec)


# -- horizontal ---------------------------------------------------------------------------------------------------
def _work_horizontal(unit, rec):
  import jax
  from dinosaur import horizontal_interpolation as hi
  from dinosaur import spherical_harmonic as sh

  def mk(size, spacing, offset):
    return sh.Grid(longitude_wavenumbers=0, total_wavenumbers=0, longitude_nodes=size[0], latitude_nodes=size[1],
                   latitude_spacing=spacing, longitude_offset=offset)

  a, b, sa, sb = tuple(unit['a']), tuple(unit['b']), unit['sa'], unit['sb']
  offs = unit['offsets']
  ns, nt = a[0] * a[1], b[0] * b[1]
  pats = _nan_patterns(*a)
  mask = np.zeros((len(pats), ns), dtype=bool)
  for p, (_, cells) in enumerate(pats):
    mask[p, list(cells)] = True

  for ia, ib, through_call in unit['pairs']:
    oa, ob = offs[ia], offs[ib]
    ts, tt = _tag(a, sa, oa), _tag(b, sb, ob)
    if not _relevant(rec, ts, tt):
      continue
    R = rr.Horizontal((a[0], a[1], sa, oa), (b[0], b[1], sb, ob))
    gs, gt = mk(a, sa, oa), mk(b, sb, ob)

    # ---- the two weight factors the regridder exposes ------------------------------------------------------------
    key = ('factors', ts, tt)
    r0 = hi.ConservativeRegridder(gs, gt)
    wlon = np.asarray(r0.lon_weights, dtype=np.float64)
    wlat = np.asarray(r0.lat_weights, dtype=np.float64)
    rec.case(key, transitions=2, outcome=wlon.tobytes() + wlat.tobytes(),
             sample={'source': ts, 'target': tt, 'what': 'lon_weights, lat_weights', 'shapes': [list(wlon.shape), list(wlat.shape)]})
    rec.close(np.asarray(gs.longitudes), R.slon, scale=4 * np.pi, site='grid_longitudes_are_ref_centres', key=key)
    rec.close(np.asarray(gs.latitudes), R.slat, scale=np.pi, site='grid_latitudes_are_ref_centres', key=key)
    rec.check(wlon.shape == R.wlon.shape and wlat.shape == R.wlat.shape, 'factor_shapes', key,
              {'lon': list(wlon.shape), 'lat': list(wlat.shape)})
    if wlon.shape == R.wlon.shape and wlat.shape == R.wlat.shape:
      rec.check(bool(np.all(wlon >= 0)), 'lon_weights_nonnegative', key, {'min': float(np.nanmin(wlon))})
      rec.check(bool(np.all(wlat >= 0)), 'lat_weights_nonnegative', key, {'min': float(np.nanmin(wlat))})
      rec.close(wlon.sum(axis=1), np.ones(b[0]), scale=1.0, site='lon_rows_sum_to_one', key=key)
      rec.close(wlat.sum(axis=1), np.ones(b[1]), scale=1.0, site='lat_rows_sum_to_one', key=key)
      rec.close(rr.lon_widths(R.tlon) @ wlon, rr.lon_widths(R.slon), scale=2 * np.pi / min(a[0], b[0]),
                site='lon_width_conserved', key=key)
      rec.close(rr.lat_areas(R.tlat) @ wlat, rr.lat_areas(R.slat), scale=2.0, site='lat_area_conserved', key=key)
      rec.close(wlon, R.wlon, scale=1.0, site='lon_weights_vs_ref', key=key)
      rec.close(wlat, R.wlat, scale=1.0, site='lat_weights_vs_ref', key=key)

    if not through_call:
      continue

    # ---- everything through the real __call__ ------------------------------------------------------------------
    for n_amp, amp in enumerate(unit['amps']):
      F = _distinct_field(ns, amp)
      fmax = float(np.abs(F).max())
      basis = amp * np.eye(ns)
      const = np.full((1, ns), 3.0 * amp)
      # the NaN patterns ride in the same batch (one compilation per regridder); they are judged with the first amplitude
      nanf = np.where(mask, np.nan, F[None, :])
      batch = np.concatenate([basis, F[None, :], const, nanf], axis=0).reshape(-1, a[0], a[1])
      outs = {}
      for skipna in (False, True):
        reg = hi.ConservativeRegridder(gs, gt, skipna=skipna)
        out = np.asarray(reg(batch), dtype=np.float64)
        key = ('basis', ts, tt, skipna, amp)
        ok = rec.check(out.shape == (batch.shape[0], b[0], b[1]), 'output_shape', key, {'shape': list(out.shape)})
        if not ok:
          continue
        out = out.reshape(batch.shape[0], nt)
        outs[skipna] = out
        W = out[:ns].T / amp                                        # W[target, source]
        rec.case(key, transitions=ns, outcome=out[:ns].tobytes(),
                 sample={'source': ts, 'target': tt, 'skipna': skipna, 'basis_fields': ns, 'target_cells': nt,
                         'W[0,:4]': [float(v) for v in W[0, :4]]})
        rec.check(bool(np.all(W >= 0)), 'weights_nonnegative', key,
                  {'min': float(np.nanmin(W)) if not np.all(np.isnan(W)) else 'nan', 'nan': int(np.isnan(W).sum())})
        rec.close(W.sum(axis=1), np.ones(nt), scale=1.0, site='rows_sum_to_one', key=key)
        rec.close(R.area_t @ W, R.area_s, scale=float(max(R.area_s.max(), R.area_t.max())),
                  site='area_integral_conserved', key=key)
        rec.close(W, R.W, scale=1.0, site='weights_vs_ref', key=key)
        # a constant, and a distinct-valued superposition of all basis fields (linearity, range)
        key = ('fields', ts, tt, skipna, amp)
        got_F, got_c = out[ns], out[ns + 1]
        rec.case(key, transitions=2, outcome=got_F.tobytes())
        rec.close(got_c, np.full(nt, 3.0 * amp), scale=3.0 * abs(amp), site='constant_reproduced', key=key)
        rec.close(got_F, W @ F, scale=fmax, site='call_is_linear', key=key)
        rec.close(got_F, R.W @ F, scale=fmax, site='field_vs_ref', key=key)
        rec.close(got_F, np.clip(got_F, F.min(), F.max()), scale=fmax, site='output_within_input_range', key=key)
        rec.close(R.area_t @ got_F, R.area_s @ F, scale=fmax * 4 * np.pi, site='field_integral_conserved', key=key)
      if len(outs) != 2 or n_amp > 0:
        continue

      # ---- NaN patterns, both modes --------------------------------------------------------------------------
      Wt = R.W.T                                                       # (source, target)
      valid = ~mask
      nan_w = mask.astype(float) @ Wt                                  # (pattern, target)
      valid_w = valid.astype(float) @ Wt
      with np.errstate(invalid='ignore', divide='ignore'):
        valid_mean = ((valid * F[None, :]) @ Wt) / valid_w
      all_valid_apart = (valid.astype(float) @ (~R.apart).T.astype(float)) == 0
      o_f, o_t = outs[False][ns + 2:], outs[True][ns + 2:]
      nan_f, nan_t = np.isnan(o_f), np.isnan(o_t)
      fin_f, fin_t = np.isfinite(o_f), np.isfinite(o_t)

      must_nan_f = nan_w >= NAN_MUST
      must_fin_f = nan_w <= NAN_NONE
      must_fin_t = valid_w >= VALID_MIN
      must_nan_t = all_valid_apart & ~must_fin_t
      rec.note('skipna_false_nan_weight_between_1e-9_and_1e-2', int((~must_nan_f & ~must_fin_f).sum()))
      rec.note('skipna_false_nan_weight_between_1e-9_and_1e-2_output_is_nan', int((~must_nan_f & ~must_fin_f & nan_f).sum()))
      rec.note('skipna_true_only_touching_valid_cells', int((~must_nan_t & ~must_fin_t).sum()))
      for p, (fam, cells) in enumerate(pats):
        key = ('nan', ts, tt, amp, fam, list(cells))
        sample = None
        if len(rec.samples) < 2:
          sample = {'source': ts, 'target': tt, 'nan_cells': list(cells), 'family': fam,
                    'nan_targets_skipna_false': int(nan_f[p].sum()), 'nan_targets_skipna_true': int(nan_t[p].sum())}
        rec.case(key, transitions=2, outcome=o_f[p].tobytes() + o_t[p].tobytes(), nontrivial=bool(fin_t[p].any()),
                 sample=sample)
        sig = {'family': fam}

        def flag(bad, site, **arrays):
          if bad.any():
            det = {'targets': np.flatnonzero(bad)[:5]}
            det.update({k: v[p][bad][:5] for k, v in arrays.items()})
            rec.fail(site, key, det, sig)

        # skipna=False: propagated to every overlapping target cell, and only to those
        flag(must_nan_f[p] & ~nan_f[p], 'nan_propagates_to_overlapping_cells', nan_weight=nan_w, got=o_f)
        flag(must_fin_f[p] & ~fin_f[p], 'nan_does_not_spread_to_disjoint_cells', nan_weight=nan_w)
        sel = must_fin_f[p] & fin_f[p]
        if sel.any():
          rec.close(o_f[p][sel], valid_mean[p][sel], scale=fmax, site='skipna_false_value', key=key, sig=sig)
        # skipna=True: NaN iff every overlapping cell is NaN, else the weighted mean of the valid ones
        flag(must_fin_t[p] & ~fin_t[p], 'skipna_ignores_nan', valid_weight=valid_w)
        flag(must_nan_t[p] & ~nan_t[p], 'skipna_nan_where_all_overlapping_are_nan', got=o_t)
        sel = must_fin_t[p] & fin_t[p]
        if sel.any():
          resid = (o_t[p][sel] - valid_mean[p][sel]) * valid_w[p][sel]
          rec.close(resid, np.zeros_like(resid), scale=fmax, site='skipna_true_value', key=key, sig=sig)
  _clear(jax)


# -- vertical -------------------------------------------------------------------------------------------------------
def _work_vertical(unit, rec):
  import jax
  from dinosaur import sigma_coordinates as sc
  from dinosaur import vertical_interpolation as vi

  name = unit['hybrid']
  if name in ('ECMWF137', 'UFS127'):
    hyb = getattr(vi.HybridCoordinates, name)()
  else:
    a_, b_ = rr.SYNTHETIC_HYBRIDS[name]
    hyb = vi.HybridCoordinates(a_boundaries=np.asarray(a_, dtype=np.float64), b_boundaries=np.asarray(b_, dtype=np.float64))
  a = np.asarray(hyb.a_boundaries, dtype=np.float64)
  b = np.asarray(hyb.b_boundaries, dtype=np.float64)
  n = len(a) - 1
  sp = np.asarray(SURFACE_PRESSURES).reshape(2, 2)

  for sb in unit['sets']:
    stag = [round(v, 3) for v in sb]
    if not _relevant(rec, stag):
      continue
    sig = sc.SigmaCoordinates(np.asarray(sb))
    K = sig.layers
    reg = vi.ConservativeRegridder(hyb, sig)
    for amp in unit['amps']:
      F = _distinct_field(n, amp)
      fmax = float(np.abs(F).max())
      cols = np.concatenate([amp * np.eye(n), F[None, :], np.full((1, n), 3.0 * amp)], axis=0)   # (n+2, n)
      field = np.broadcast_to(cols[:, :, None, None], (n + 2, n, 2, 2)).copy()
      out = np.asarray(reg(field, sp), dtype=np.float64)
      key0 = ('v_call', name, stag, amp)
      if not rec.check(out.shape == (n + 2, K, 2, 2), 'v_output_shape', key0, {'shape': list(out.shape)}):
        continue
      for ix, iy in itertools.product(range(2), range(2)):
        ps = float(sp[ix, iy])
        key = ('v', name, stag, ps, amp)
        R = rr.Vertical(a, b, sb, ps)
        o = out[:, :, ix, iy]
        W = o[:n].T / amp                                            # W[target layer, source layer]
        rec.case(key, transitions=n, outcome=np.ascontiguousarray(o[:n]).tobytes(),
                 sample={'hybrid': name, 'sigma_boundaries': stag, 'surface_pressure_hPa': ps, 'basis_columns': n,
                         'covered_thickness_hPa': [float(v) for v in R.covered]})
        if not R.increasing:
          rec.note('v_source_levels_not_increasing')
          continue
        rows = R.row_covered
        rec.note('v_sigma_layers_not_covered_by_source', int(R.row_uncovered.sum()))
        rec.note('v_sigma_layers_not_covered_output_is_nan', int(np.isnan(W[R.row_uncovered]).all(axis=1).sum()))
        rec.note('v_sigma_layers_coverage_unresolved', int((~rows & ~R.row_uncovered).sum()))
        if not rows.any():
          continue
        Wc, Rc = W[rows], R.W[rows]
        rec.check(bool(np.all(Wc >= 0)), 'v_weights_nonnegative', key,
                  {'min': float(np.nanmin(Wc)) if not np.all(np.isnan(Wc)) else 'nan', 'nan': int(np.isnan(Wc).sum())})
        rec.close(Wc.sum(axis=1), np.ones(int(rows.sum())), scale=1.0, site='v_rows_sum_to_one', key=key)
        rec.close(Wc, Rc, scale=1.0, site='v_weights_vs_ref', key=key)
        # thickness-weighted integral over the covered range: every source layer keeps its covered thickness
        rec.close(R.covered[rows] @ Wc, R.overlap[rows].sum(axis=0), scale=ps, site='v_thickness_integral_conserved', key=key)
        if rows.all():
          rec.close(R.covered @ Wc, R.src_thickness_in_range, scale=ps, site='v_thickness_integral_conserved_full_column', key=key)
        got_F, got_c = o[n][rows], o[n + 1][rows]
        rec.close(got_c, np.full(got_c.shape, 3.0 * amp), scale=3.0 * abs(amp), site='v_constant_reproduced', key=key)
        rec.close(got_F, Wc @ F, scale=fmax, site='v_call_is_linear', key=key)
        rec.close(got_F, np.clip(got_F, F.min(), F.max()), scale=fmax, site='v_output_within_input_range', key=key)
        rec.close((R.covered[rows] * got_F).sum(), (R.overlap[rows] @ F).sum(), scale=fmax * ps,
                  site='v_field_integral_conserved', key=key)
  _clear(jax)


_UNITS_DONE = [0]


def _clear(jax):
  """bounds the memory of a worker: every regridder instance is a static jit argument and would be kept alive."""
  from dinosaur import horizontal_interpolation as hi
  from dinosaur import vertical_interpolation as vi
  for f in (hi.ConservativeRegridder._mean, vi.regrid_hybrid_to_sigma):
    if hasattr(f, 'clear_cache'):
      f.clear_cache()
  _UNITS_DONE[0] += 1
  if _UNITS_DONE[0] % 40 == 0:
    jax.clear_caches()
