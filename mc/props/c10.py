"""C10: dynamics are equivariant under the symmetries of the rotating sphere.

For every grid of a sub-lattice (odd and even longitude node counts, both layouts), every equation class
(dry, moist, cloud-moist, shallow water) with orography and tracers, and EVERY symmetry of the enumerated
group elements -- rotation about the polar axis by k longitude grid steps (all k in the thorough tier),
the equatorial mirror, and mirror o rotation -- the exact coefficient-space map T of mc/ref/sphere.py is
applied to every state of the excitation lattice (all multisets of <= 2 unit excitations, which contains
every basis vector) and to the orography, and  T(f(x)) == f_T(T(x))  is checked for f in
{explicit_terms, implicit_terms, implicit_inverse, 1..3 steps of SIL3 / RK3 / leapfrog with filters}.
Vorticity is a pseudo-scalar: it picks up an extra sign under the mirror.
"""
import numpy as np

from mc import core, harness
from mc.ref import sphere

ID = 'C10'
TECHNIQUE = 'bounded-exhaustive enumeration of symmetry group elements x grids x equation classes x excitation lattice; commutation T(f(x)) == f_T(T(x)) with exact coefficient-space symmetry maps'
ASSUMPTIONS = [
    'mc/ref/sphere.py rotate / mirror are the exact actions of the symmetries on real spherical-harmonic coefficients',
    'lattice statement in the state (multisets of <= 2 unit excitations with l <= 1 on all levels); all enumerated group elements of each grid',
]
RULE = ('case = (class, grid/layout, group element, function, state multiset); transitions = function evaluations on both sides; '
        'non-trivial = transformed output not identically zero')

BOUNDS3 = [0.0, 0.2, 0.55, 1.0]


def bounds(tier):
  return dict(grids=['(5,6,21,11) real', '(5,6,16,8) fast padded', '(4,6,13,7) real' if tier == 'thorough' else None],
              rotations='k in {1,3,nlon-1}' if tier == 'quick' else 'all k in 0..nlon-1', mirror=True, mirror_o_rotation=True,
              classes=['PrimitiveEquations', 'MoistPrimitiveEquations', 'MoistPrimitiveEquationsWithCloudMoisture', 'ShallowWater'],
              functions=['explicit_terms', 'implicit_terms', 'implicit_inverse', 'steps 1..3 (sil3, rk3 / leapfrog) with filters'],
              states='multisets of <= 2 unit excitations, K=3, lmax=1')


GRIDS = [([5, 6, 21, 11], 'real'), ([5, 6, 16, 8], ['fast', 2, True, False]), ([4, 6, 13, 7], 'real')]


def units(tier, seed):
  pal = core.palette(seed, tier)
  us = []
  grids = GRIDS if tier == 'thorough' else GRIDS[:2]
  for shape, impl in grids:
    nlon = shape[2]
    ks = list(range(nlon)) if tier == 'thorough' else [1, 3, nlon - 1]
    elems = [('rot', k) for k in ks] + [('mirror', 0)] + [('mirror_rot', k) for k in (ks if tier == 'thorough' else [2])]
    for cls in ('PrimitiveEquations', 'MoistPrimitiveEquations', 'MoistPrimitiveEquationsWithCloudMoisture', 'ShallowWater'):
      for i in range(0, len(elems), 3):
        us.append(dict(cls=cls, shape=shape, impl=impl, elems=elems[i:i + 3], palette=pal[0], steps=(i == 0)))
  return us


def _transform(coef, elem, nlon, pseudo=False):
  kind, k = elem
  out = np.asarray(coef, dtype=np.float64)
  if kind in ('rot', 'mirror_rot'):
    out = sphere.rotate(out, 2 * np.pi * k / nlon)
  if kind in ('mirror', 'mirror_rot'):
    out = sphere.mirror(out)
    if pseudo:
      out = -out
  return out


def work(unit, rec):
  import jax, jax.numpy as jnp
  from dinosaur import time_integration as ti
  from dinosaur import shallow_water as sw
  from dinosaur import scales
  cls = unit['cls']; pal = unit['palette']
  shape = tuple(unit['shape']); impl = unit['impl'] if isinstance(unit['impl'], str) else tuple(unit['impl'])
  M, L, nlon, nlat = shape
  K = 3
  is_sw = cls == 'ShallowWater'
  moist = cls.startswith('Moist'); cloud = cls.endswith('CloudMoisture')
  if is_sw:
    fields = ('vorticity', 'divergence', 'potential')
    alphabet = [(f, k, i, l) for f, zm in (('vorticity', True), ('divergence', True), ('potential', False)) for k in range(2)
                for (i, l) in harness.low_modes(1, M, zm)]
    K = 2
  else:
    fields = ('vorticity', 'divergence', 'temperature', 'lnps')
    alphabet = harness.pe_alphabet(K, 1, M)
  msets = harness.multisets(len(alphabet), 2)
  B = len(msets)
  st = {f: np.zeros((B, 1 if f == 'lnps' else K, 2 * M - 1, L)) for f in fields}
  for b, ms in enumerate(msets):
    for e in ms:
      f, k, i, l = alphabet[e]
      st[f][b, k, i, l] += harness.UNIT_AMPLITUDE[f] * pal[e % len(pal)]
  orog = np.zeros((2 * M - 1, L))
  orog[0, 1] = 2e-4; orog[1, 1] = 1.4e-4; orog[2, 2] = -0.6e-4; orog[4, 3] = 0.5e-4; orog[3, 2] = 0.3e-4
  tnames = []
  if moist:
    tnames.append('specific_humidity')
  if cloud:
    tnames += list(harness.CLOUD_TRACERS)
  if not is_sw:
    tnames.append('passive')
  tracers = {}
  for j, nme in enumerate(tnames):
    x = np.zeros((B, K, 2 * M - 1, L))
    x[:, :, 0, 0] = (0.01 if 'specific' in nme else 1.0) * harness.SQRT4PI * (1 + 0.1 * j)
    x[:, 1, 1, 1] = 2e-3 * (j + 1); x[:, 0, 2, 2] = -1e-3; x[:, 2 % K, 0, 1] = 1.5e-3
    tracers[nme] = x
  dt = 0.01

  if is_sw:
    specs = sw.ShallowWaterSpecs.from_si(densities=np.array([0.9, 1.0]) * scales.WATER_DENSITY)
    coords = harness.make_coords(shape, None, impl=impl, radius=specs.radius, layers=2)
  else:
    specs = harness.pe_specs()
    coords = harness.make_coords(shape, BOUNDS3, impl=impl, radius=specs.radius)

  def orog_array(elem):
    o = _transform(orog, elem, nlon) if elem else orog
    return jnp.asarray(harness.from_real_layout(o * (100.0 if is_sw else 1.0), coords.horizontal, impl))

  def make_eq(o):
    """equation for the (possibly transformed, possibly traced) orography array"""
    if is_sw:
      return sw.ShallowWaterEquations(coords, specs, o, np.array([0.8, 1.5]))
    from dinosaur import primitive_equations as pe
    return getattr(pe, cls)(np.array([210.0, 250.0, 290.0]), o, coords, specs)

  def make_state(elem):
    tf = (lambda x, pseudo=False: _transform(x, elem, nlon, pseudo)) if elem else (lambda x, pseudo=False: x)
    if is_sw:
      conv = lambda x: jnp.asarray(harness.from_real_layout(x, coords.horizontal, impl))
      return sw.State(conv(tf(st['vorticity'], True)), conv(tf(st['divergence'])), conv(tf(st['potential'])))
    temp = st['temperature'].copy(); temp[:, :, 0, 0] += harness.SQRT4PI * np.array([10.0, 5.0, -5.0])
    return harness.pe_state(cls, coords, impl, tf(st['vorticity'], True), tf(st['divergence']), tf(temp), tf(st['lnps']),
                            tracers={k: tf(v) for k, v in tracers.items()}, sim_time=np.zeros(B) if cls != 'PrimitiveEquations' else 0.0)

  def flatten(x):
    """state-like -> list of (name, Real-layout array, pseudo flag)"""
    if is_sw:
      return [('vorticity', harness.to_real_layout(x.vorticity, shape, impl), True), ('divergence', harness.to_real_layout(x.divergence, shape, impl), False),
              ('potential', harness.to_real_layout(x.potential, shape, impl), False)]
    d = harness.pe_tendency_to_real(x, shape, impl)
    out = [('vorticity', d['vorticity'], True), ('divergence', d['divergence'], False), ('temperature', d['temperature'], False), ('lnps', d['lnps'], False)]
    out += [('tracer:' + k, d['tracers'][k], False) for k in sorted(d['tracers'])]
    return out

  g = coords.horizontal
  # step functions are evaluated on a sub-batch: every state with <= 1 excitation and every 7th pair
  sub = np.array([b for b, ms in enumerate(msets) if len(ms) <= 1 or b % 7 == 0])

  def take(x, idx):
    return jax.tree_util.tree_map(lambda a: a[idx] if getattr(a, 'ndim', 0) >= 1 and a.shape[0] == B else a, x)

  fs = {'explicit_terms': (lambda o, s: make_eq(o).explicit_terms(s), False),
        'implicit_terms': (lambda o, s: make_eq(o).implicit_terms(s), False),
        'implicit_inverse': (lambda o, s: make_eq(o).implicit_inverse(s, 0.37), False)}
  if unit['steps']:
    if is_sw:
      def run_lf(o, s, n=3):
        eq = make_eq(o)
        step = ti.step_with_filters(ti.semi_implicit_leapfrog(eq, dt), sw.default_filters(g, dt))
        pair = (s, ti.backward_forward_euler(eq, dt)(s))
        for _ in range(n):
          pair = step(pair)
        return pair[1]
      fs['leapfrog+filters x3'] = (run_lf, True)
    else:
      def runner(kind, n):
        def f(o, s):
          eq = make_eq(o)
          filters = [ti.exponential_step_filter(g, dt), ti.horizontal_diffusion_step_filter(g, dt, tau=0.05, order=2)]
          step = (ti.step_with_filters(ti.imex_rk_sil3(eq, dt), filters) if kind == 'sil3'
                  else ti.step_with_filters(ti.crank_nicolson_rk3(eq, dt), filters[:1]))
          for _ in range(n):
            s = step(s)
          return s
        return f
      fs['sil3+filters x1'] = (runner('sil3', 1), True)
      fs['sil3+filters x3'] = (runner('sil3', 3), True)
      fs['rk3+filter x2'] = (runner('rk3', 2), True)
  compiled = {}
  for name, (f, is_step) in fs.items():
    vf = jax.vmap(f, in_axes=(None, 0))
    compiled[name] = (jax.jit(vf) if is_step else vf, is_step)

  def evaluate(name, elem):
    f, is_step = compiled[name]
    x = make_state(elem)
    if is_step:
      x = take(x, sub)
    return flatten(f(orog_array(elem), x))

  base = {name: evaluate(name, None) for name in compiled}
  ctag = [cls, list(shape), str(unit['impl'])]
  for elem in unit['elems']:
    elem = tuple(elem)
    for name in compiled:
      key = ('commute', ctag, list(elem), name, pal)
      if not rec.want(key):
        continue
      got = evaluate(name, elem)
      nb = len(sub) if compiled[name][1] else B
      rec.case(key, transitions=2 * nb, outcome=got[1][1].tobytes(),
               sample={'class': cls, 'grid': list(shape), 'impl': str(unit['impl']), 'group_element': list(elem), 'function': name, 'states': nb})
      for (fname, arr, pseudo), (_, arr0, _) in zip(got, base[name]):
        want = _transform(arr0, elem, nlon, pseudo)
        sc = max(1.0, float(np.abs(want).max()))
        rec.close(arr, want, scale=sc, C=1e5, site='equivariance:' + name, key=key, sig={'kind': elem[0]}, extra={'field': fname})
  for b, ms in enumerate(msets):
    rec.case(('state', ctag, list(ms), pal), transitions=0, outcome=None, nontrivial=False, validated=0)
