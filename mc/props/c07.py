"""C07: sharded (model-parallel) execution equals single-device execution.

The "schedules" of this code base are partitions of the work over a device mesh.  EVERY mesh shape (z, x, y)
with z*x*y <= 8 (thorough: also the 16-device shapes with even axes) is built on forced host devices and, for
each, the sharded einsum (all transform patterns x gather/scatter strategy x argument order, one-hot inputs
for every rhs entry, so that every chunk-to-device routing is observed), the sharded cumulative sums, the
Grid operations on every modal basis vector with level counts not divisible by the mesh, the sharded
implicit operators and whole model steps are executed and compared, after cropping the padding, with the
single-device computation on the same data.  Padding must stay finite.  Meshes with an odd x or y axis > 1
must be rejected with the library's own ValueError (documented rejection), never silently mis-computed.

Extensions after the seeded-breakage rounds (DESIGN.md 8.5): Grid operations run in variants that populate every x / y shard with resolved coefficients (shape multiple 1 / 2, and larger grids under the library default multiple 8; rank-2 and rank-3 fields); the evidence reports how many shards hold resolved coefficients.  The two ring collectives are additionally executed for every even axis size up to 16 (thorough 64) through jax.vmap(axis_name=...) with one-hot inputs (exact oracle).
"""
import itertools
import math
import numpy as np

from mc import core, harness

ID = 'C07'
DEVICES = 8
WORKERS = 4
TECHNIQUE = 'exhaustive enumeration of device-mesh factorisations (schedules) x strategies x one-hot / basis inputs on forced host devices; differential oracle vs the single-device computation'
ASSUMPTIONS = [
    'implicit operators and whole steps run on the mesh with base_shape_multiple=1 so that every x / y shard holds resolved coefficients of the small grid; the library default multiple (8) is covered by the Grid-operation units on a grid large enough to populate the second (thorough: every) shard',
    'XLA CPU collectives on forced host devices emulate the accelerator collectives (same SPMD program, single lock-step schedule)',
    'linearity of einsum / cumsum / grid operations (one-hot and basis inputs determine them); whole steps are a lattice statement',
    'level counts must be divisible by the z axis for whole model steps and z-sharded vertical operators (shard_map requirement); the Grid operations pad internally and are checked with indivisible level counts',
]
RULE = ('case = (mesh shape, component, options); transitions = one-hot / basis inputs pushed through; non-trivial = output not identically zero; '
        'a documented rejection (odd x/y axis) is a case with outcome "rejected"')

SHAPE = (5, 6, 16, 8)     # (M, L, nlon, nlat)
MID_SHAPE = (11, 12, 36, 18)      # populates the second x / y shard under the default shape multiple 8
LARGE_SHAPE = (26, 27, 80, 40)    # populates all four x / y shards under the default shape multiple 8 (thorough)


def meshes(maxdev):
  out = []
  for z in range(1, maxdev + 1):
    for x in range(1, maxdev + 1):
      for y in range(1, maxdev + 1):
        if z * x * y <= maxdev:
          out.append((z, x, y))
  return out


def bounds(tier):
  return dict(meshes='all (z,x,y) with z*x*y <= 8 (%d shapes)' % len(meshes(8)), einsum_patterns=[p[0] for p in PATTERNS],
              gather_inputs=[None, True, False], reverse_arg_order=[False, True], cumsum_lengths='z*{1,2,3}', level_counts=[1, 2, 3, 5, 7] if tier == 'thorough' else [1, 3, 5],
              steps='dry SIL3+filters, moist RK3+filters; 2 steps; states = multisets of <= 1 excitation (+pairs in thorough)',
              ring_axis_sizes='every even size 2..%d through jax.vmap(axis_name) emulation of the ring collectives, 4 patterns x chunk {1,2} x strategy x argument order, one-hot rhs; odd sizes 3..17 rejected' % (16 if tier == 'quick' else 64))


# (subscripts, rhs dims tagged with the mesh axis that shards them or None, out spec builder)
PATTERNS = [
    ('mjl,zsml->zsmj', ('z', None, 'x', 'y'), ('z', None, 'x', 'y')),     # inverse Legendre
    ('ism,zsmj->zij', ('z', None, 'x', 'y'), ('z', 'x', 'y')),            # inverse Fourier (stacked)
    ('im,zmj->zij', ('z', 'x', 'y'), ('z', 'x', 'y')),                    # inverse Fourier
    ('ism,zij->zsmj', ('z', 'x', 'y'), ('z', None, 'x', 'y')),            # forward Fourier (stacked)
    ('im,zij->zmj', ('z', 'x', 'y'), ('z', 'x', 'y')),                    # forward Fourier
    ('mjl,zsmj->zsml', ('z', None, 'x', 'y'), ('z', None, 'x', 'y')),     # forward Legendre
    ('mjl,sml->smj', (None, 'x', 'y'), (None, 'x', 'y')),                 # inverse Legendre, surface field
    ('ij,jk->ik', ('x', 'y'), ('x', 'y')),                                # plain matmul
    ('gh,hml->gml', ('z', 'x', 'y'), ('z', 'x', 'y')),                    # vertical matvec
    ('lgh,hml->gml', ('z', 'x', 'y'), ('z', 'x', 'y')),                   # vertical matvec per wavenumber
]


CORE = [(1, 1, 1), (2, 1, 1), (1, 2, 1), (1, 1, 2), (2, 2, 1), (2, 1, 2), (1, 2, 2), (2, 2, 2), (4, 1, 2), (1, 4, 2), (4, 2, 1), (8, 1, 1), (3, 1, 2),
        (1, 3, 1), (1, 2, 3), (1, 1, 8)]


def units(tier, seed):
  pal = core.palette(seed, tier)
  us = []
  for m in meshes(8):
    for kind in ('einsum', 'cumsum', 'grid', 'implicit', 'steps'):
      if tier == 'quick' and kind in ('implicit', 'steps') and m not in CORE:
        continue
      us.append(dict(mesh=list(m), kind=kind, full=tier == 'thorough', palette=pal[0]))
  for n in range(2, (16 if tier == 'quick' else 64) + 1, 2):
    us.append(dict(kind='ring', axis_size=n, full=tier == 'thorough'))
  return us


def _mesh(shape):
  import jax
  z, x, y = shape
  devs = np.array(jax.devices()[:z * x * y]).reshape(z, x, y)
  return jax.sharding.Mesh(devs, ['z', 'x', 'y'])


def _odd_xy(shape):
  return any(a > 1 and a % 2 for a in shape[1:])


REJECTION = 'axis_size must be 1 or even'


def _guard(rec, shape, key, fn, may_reject=None):
  """Runs fn(); on meshes with an odd x or y axis (or, for a bare einsum, an odd mesh axis along the contracted
  dimension) the library's documented ValueError is an accepted outcome."""
  try:
    return True, fn()
  except ValueError as e:
    if (_odd_xy(shape) if may_reject is None else may_reject) and REJECTION in str(e):
      rec.case(key, transitions=1, outcome=('rejected',), sample={'mesh': list(shape), 'outcome': 'documented rejection: ' + REJECTION})
      rec.note('odd_mesh_axis_rejected_as_documented')
      return False, None
    raise


# -- (i) sharded einsum ---------------------------------------------------------------------------

def _einsum_unit(unit, rec):
  import jax, jax.numpy as jnp
  from dinosaur import jax_numpy_utils as jnu
  P = jax.sharding.PartitionSpec
  shape = tuple(unit['mesh'])
  mesh = _mesh(shape)
  size = dict(z=shape[0], x=shape[1], y=shape[2])
  for subs, rhs_axes, out_axes in PATTERNS:
    lhs_s, rest = subs.split(',')
    rhs_s, out_s = rest.split('->')
    dims = {}
    for c, ax in zip(rhs_s, rhs_axes):
      dims[c] = (size[ax] if ax else 1) * (2 if c not in 'z' else 1) if ax else 2
    for c, ax in zip(out_s, out_axes):
      if c not in dims:
        dims[c] = (size[ax] * 2) if ax else 2
    for c in lhs_s:
      dims.setdefault(c, 2)
    if 'z' in dims:
      dims['z'] = size['z']
    lhs_shape = tuple(dims[c] for c in lhs_s)
    rhs_shape = tuple(dims[c] for c in rhs_s)
    lhs = (1.0 + np.arange(math.prod(lhs_shape))).reshape(lhs_shape)
    nr = math.prod(rhs_shape)
    onehots = np.eye(nr).reshape((nr,) + rhs_shape)
    want = np.einsum(subs.replace(rhs_s, 'B' + rhs_s, 1).replace('->' + out_s, '->B' + out_s), lhs, onehots)
    rhs_spec = P(*rhs_axes); out_spec = P(*out_axes)
    for gather, rev in (itertools.product((None, True, False), (False, True)) if unit['full'] else ((True, False), (False, False), (None, True))):
      if True:
        key = ('einsum', list(shape), subs, str(gather), rev)
        if not rec.want(key):
          continue

        def run():
          f = lambda r: jnu.sharded_einsum(subs, lhs, r, mesh=mesh, rhs_spec=rhs_spec, out_spec=out_spec, gather_inputs=gather, reverse_arg_order=rev,
                                           precision='highest')
          return np.asarray(jax.vmap(f)(jnp.asarray(onehots)))
        # the contracted rhs dimension decides which mesh axis the ring collective runs over
        red = [ax for c, ax in zip(rhs_s, rhs_axes) if c not in out_s and ax]
        odd_reduce = any(size[ax] > 1 and size[ax] % 2 for ax in red)
        ok, got = _guard(rec, shape, key, run, may_reject=odd_reduce)
        if not ok:
          continue
        rec.case(key, transitions=nr, outcome=got.tobytes(),
                 sample={'mesh': list(shape), 'pattern': subs, 'gather_inputs': str(gather), 'reverse_arg_order': rev, 'lhs_shape': list(lhs_shape), 'rhs_one_hots': nr})
        rec.close(got, want, scale=float(lhs.max()), site='sharded_einsum_equals_einsum', key=key, sig={'pattern': subs, 'gather': str(gather)})


# -- (ii) cumulative sums -----------------------------------------------------------------------------

def _cumsum_unit(unit, rec):
  import jax, jax.numpy as jnp
  from dinosaur import jax_numpy_utils as jnu
  P = jax.sharding.PartitionSpec
  shape = tuple(unit['mesh'])
  mesh = _mesh(shape)
  z = shape[0]
  for mult in (1, 2, 3):
    n = z * mult
    eye = np.eye(n) * np.arange(1, n + 1)[None, :]          # column j: value j+1 at row j
    for ndim, spec in ((2, P('z', None)), (3, P('z', None, None))):
      x = eye if ndim == 2 else np.stack([eye, -2 * eye], axis=-1)
      sharding = jax.sharding.NamedSharding(mesh, spec)
      xs = jax.device_put(jnp.asarray(x), sharding)
      for method in ('dot', 'jax'):
        for rev in (False, True):
          key = ('cumsum', list(shape), n, ndim, method, rev)
          if not rec.want(key):
            continue
          f = jnu.reverse_cumsum if rev else jnu.cumsum
          got = np.asarray(f(xs, 0, method=method, sharding=sharding))
          want = np.flip(np.cumsum(np.flip(x, 0), 0), 0) if rev else np.cumsum(x, 0)
          rec.case(key, transitions=n, outcome=got.tobytes(), sample={'mesh': list(shape), 'length': n, 'method': method, 'reverse': rev, 'ndim': ndim})
          rec.close(got, want, scale=float(2 * n), site='sharded_cumsum_equals_cumsum', key=key, sig={'method': method, 'reverse': rev})


# -- (iii) Grid operations on a mesh ---------------------------------------------------------------------

def _grid_variants(shape, full):
  """(tag, grid shape, base_shape_multiple).  With the library default (multiple 8 on a mesh) a small grid lives entirely
  on the first shard of the x and y axes -- the other shards would hold nothing but padding -- so the small grid is
  also run with multiple 1 and 2 (every shard holds resolved coefficients), and a grid large enough to populate the
  second shard under the default multiple is run on the meshes with x, y <= 2 (x, y <= 4 in the thorough tier)."""
  z, x, y = shape
  v = [('small_bm1', SHAPE, 1), ('small_default', SHAPE, None)]
  if full:
    v.append(('small_bm2', SHAPE, 2))
  if x <= 2 and y <= 2 and (x > 1 or y > 1):
    v.append(('mid_default', MID_SHAPE, None))
  if full and (x == 4 or y == 4) and x in (1, 2, 4) and y in (1, 2, 4):
    v.append(('large_default', LARGE_SHAPE, None))
  return v


def _grid_unit(unit, rec):
  for tag, gshape, bm in _grid_variants(tuple(unit['mesh']), unit['full']):
    _grid_variant(unit, rec, tag, gshape, bm)


def _grid_variant(unit, rec, vtag, gshape, bm):
  import jax, jax.numpy as jnp
  from dinosaur import filtering, time_integration as ti
  from mc.ref import sphere
  shape = tuple(unit['mesh'])
  mesh = _mesh(shape)
  M, L, nlon, nlat = gshape
  rows = 2 * M - 1
  ref = harness.make_grid(gshape, 'gauss', ('fast', 1, True, False), radius=1.3)
  key0 = ('grid_build', list(shape), vtag)
  ok, g = _guard(rec, shape, key0, lambda: harness.make_grid(gshape, 'gauss', ('fast', bm, None, None), radius=1.3, mesh=mesh))
  if not ok:
    return
  # how many x / y shards hold at least one resolved coefficient (reported: a vacuous sharding would show up here)
  gm = np.asarray(g.mask, dtype=bool)
  xs, ys = shape[1], shape[2]
  rec.note('grid_variant:%s:x_shards_with_resolved_rows=%d_of_%d' % (vtag, sum(bool(gm[i * gm.shape[0] // xs:(i + 1) * gm.shape[0] // xs].any()) for i in range(xs)), xs))
  rec.note('grid_variant:%s:y_shards_with_resolved_cols=%d_of_%d' % (vtag, sum(bool(gm[:, j * gm.shape[1] // ys:(j + 1) * gm.shape[1] // ys].any()) for j in range(ys)), ys))
  mask = sphere.real_mask(M, L)
  idx = [(i, l) for i in range(rows) for l in range(L) if mask[i, l]]
  n = len(idx)
  dt = 0.01
  filt_ref = [filtering.exponential_filter(ref, 8.0, 2), filtering.horizontal_diffusion_filter(ref, 0.01, 2)]
  filt = [filtering.exponential_filter(g, 8.0, 2), filtering.horizontal_diffusion_filter(g, 0.01, 2)]
  stepf_ref = ti.horizontal_diffusion_step_filter(ref, dt, tau=0.05, order=2)
  stepf = ti.horizontal_diffusion_step_filter(g, dt, tau=0.05, order=2)

  def ops(gr, fl, sf):
    def f(x):
      nod = gr.to_nodal(x)
      return dict(to_nodal=nod, roundtrip=gr.to_modal(nod), d_dlon=gr.d_dlon(x), clip=gr.clip_wavenumbers(x), inverse_laplacian=gr.inverse_laplacian(x),
                  laplacian=gr.laplacian(x), cos_lat_d_dlat=gr.cos_lat_d_dlat(x), exponential_filter=fl[0](x), diffusion_filter=fl[1](x),
                  diffusion_step_filter=sf(None, x), mask=x * gr.mask)
    return jax.jit(f)
  fr = ops(ref, filt_ref, stepf_ref)
  fm = ops(g, filt, stepf)
  # level count 0 stands for a rank-2 (m, l) field without a level axis (surface fields, orography)
  counts = ([0, 1, 2, 3, 5, 7] if unit['full'] else [0, 1, 3, 5]) if vtag.startswith('small') else [0, 3]
  for k in counts:
    key = ('grid_ops', list(shape), vtag, k)
    if not rec.want(key):
      continue
    worst = {}
    first_out = None
    for start in range(0, n, max(k, 1)):
      sel = idx[start:start + max(k, 1)]
      if len(sel) < k:
        sel = sel + idx[:k - len(sel)]
      xr = np.zeros((max(k, 1), rows, L))
      for j, (i, l) in enumerate(sel):
        xr[j, i, l] = 1.0 + 0.25 * j
      if k == 0:
        xr = xr[0]
      a = fr(jnp.asarray(sphere.real_to_fast(xr, ref.modal_shape)))

      def run():
        return fm(jnp.asarray(sphere.real_to_fast(xr, g.modal_shape)))
      ok, b = _guard(rec, shape, key, run)
      if not ok:
        return
      for name in a:
        ya, yb = np.asarray(a[name]), np.asarray(b[name])
        if name == 'to_nodal':
          ya_c, yb_c = ya[..., :nlon, :nlat], yb[..., :nlon, :nlat]
          pad_zero = [yb[..., nlon:, :], yb[..., nlat:]]
        else:
          ya_c, yb_c = sphere.fast_to_real(ya, M, L), sphere.fast_to_real(yb, M, L)
          pad_zero = []
        d = float(np.abs(ya_c - yb_c).max()) if np.all(np.isfinite(yb_c)) else float('inf')
        worst[name] = max(worst.get(name, 0.0), d)
        if not np.all(np.isfinite(yb)):
          rec.fail('sharded_padding_finite', key, {'operation': name, 'nonfinite': int(np.sum(~np.isfinite(yb)))}, {'operation': name})
        for pz in pad_zero:
          if np.any(pz != 0):
            rec.fail('sharded_nodal_padding_zero', key, {'operation': name})
        if name in ('roundtrip', 'clip', 'mask'):
          gm = np.asarray(g.mask, dtype=bool)
          if np.any(yb[..., ~gm] != 0):
            rec.fail('sharded_masked_entries_zero', key, {'operation': name}, {'operation': name})
      if first_out is None:
        first_out = np.asarray(b['to_nodal']).tobytes()
    rec.case(key, transitions=n, outcome=first_out, sample={'mesh': list(shape), 'modal_shape_on_mesh': list(g.modal_shape), 'level_count': k, 'basis_vectors': n,
                                                           'operations': sorted(worst)})
    for name, d in worst.items():
      tol = 1e4 * core.EPS * 30.0
      rec.margins['sharded_grid_op:' + name] = max(rec.margins.get('sharded_grid_op:' + name, 0.0), d / tol)
      if not d <= tol:
        rec.fail('sharded_grid_op_equals_single_device', key, {'operation': name, 'max_abs_diff': d, 'tol': tol}, {'operation': name})


# -- (iv) sharded implicit operators -------------------------------------------------------------------

def _implicit_unit(unit, rec):
  import jax, jax.numpy as jnp
  from dinosaur import primitive_equations as pe
  from mc.ref import sphere
  shape = tuple(unit['mesh'])
  mesh = _mesh(shape)
  z = shape[0]
  M, L, nlon, nlat = SHAPE
  rows = 2 * M - 1
  specs = harness.pe_specs()
  for K in sorted({z, 2 * z, 4 if 4 % z == 0 else z}):
    b = np.concatenate([[0.0], np.cumsum(np.arange(1, K + 1) ** 1.5)]); b = b / b[-1]     # uneven layers
    tref = 250.0 + 30.0 * np.sin(np.arange(K))
    key = ('implicit', list(shape), K)
    if not rec.want(key):
      continue
    c0 = harness.make_coords(SHAPE, b, impl=('fast', 1, True, False), radius=specs.radius)
    ok, c1 = _guard(rec, shape, key, lambda: harness.make_coords(SHAPE, b, impl=('fast', 1, None, None), radius=specs.radius, mesh=mesh))
    if not ok:
      return
    res = {}
    # basis: unit vectors (level k, mode (i,l)) for a fixed set of modes covering several wavenumbers
    modes = [(0, 0), (0, 1), (1, 1), (2, 3), (8, 4), (5, 5)]
    for tag, c in (('single', c0), ('mesh', c1)):
      g = c.horizontal
      eqs = {m: pe.PrimitiveEquations(tref, jnp.zeros(g.modal_shape), c, specs, vertical_matmul_method=m) for m in ('dense', 'sparse', None)}
      outs = []

      def compute(st, xf, eqs=eqs, c=c):
        o = {}
        for m, eq in eqs.items():
          t = eq.implicit_terms(st)
          o['implicit_terms:%s' % m] = [t.divergence, t.temperature_variation, t.log_surface_pressure]
        for method in ('split', 'blockwise'):
          s_ = eqs[None].implicit_inverse(st, 0.37, method=method)
          o['implicit_inverse:%s' % method] = [s_.divergence, s_.temperature_variation, s_.log_surface_pressure]
        o['geopotential_sparse'] = [pe.get_geopotential_diff(xf, c.vertical, specs.R, 'sparse', sharding=c.dycore_sharding)]
        o['temperature_implicit_sparse'] = [pe.get_temperature_implicit(xf, c.vertical, tref, specs.kappa, 'sparse', sharding=c.dycore_sharding)]
        return o
      compute = jax.jit(compute)
      for (i, l) in modes:
        for k in range(K):
          x = np.zeros((K, rows, L)); x[k, i, l] = 1.0
          xs = np.zeros((1, rows, L)); xs[0, i, l] = 0.5
          xf = jnp.asarray(sphere.real_to_fast(x, g.modal_shape)); xsf = jnp.asarray(sphere.real_to_fast(xs, g.modal_shape))
          st = pe.State(xf, 2 * xf, -xf, xsf)
          if tag == 'mesh':
            ok, o = _guard(rec, shape, key, lambda: compute(st, xf))
            if not ok:
              return
          else:
            o = compute(st, xf)
          outs.append({name: [sphere.fast_to_real(np.asarray(a), M, L) for a in arrs] for name, arrs in o.items()})
          if tag == 'mesh':
            for name, arrs in o.items():
              for a in arrs:
                if not np.all(np.isfinite(np.asarray(a))):
                  rec.fail('sharded_padding_finite', key, {'operation': name}, {'operation': name})
      res[tag] = outs
    rec.case(key, transitions=len(res['mesh']), outcome=np.concatenate([np.ravel(a) for a in res['mesh'][0]['implicit_inverse:blockwise']]).tobytes(),
             sample={'mesh': list(shape), 'layers': K, 'sigma_boundaries': [round(float(v), 4) for v in b], 'basis_vectors': len(res['mesh'])})
    for oa, ob in zip(res['single'], res['mesh']):
      for name in oa:
        for a, b_ in zip(oa[name], ob[name]):
          sc = max(1.0, float(np.abs(a).max()))
          rec.close(b_, a, scale=sc, site='sharded_implicit_operator_equals_single_device:' + name.split(':')[0], key=key, sig={'operation': name})


# -- (v) whole model steps ----------------------------------------------------------------------------------

def _steps_unit(unit, rec):
  import jax, jax.numpy as jnp
  from dinosaur import primitive_equations as pe, time_integration as ti, shallow_water as sw, scales
  from mc.ref import sphere
  shape = tuple(unit['mesh'])
  mesh = _mesh(shape)
  z = shape[0]
  M, L, nlon, nlat = SHAPE
  rows = 2 * M - 1
  pal = unit['palette']
  K = z * (2 if z <= 2 else 1) if z > 1 else 4
  b = np.concatenate([[0.0], np.cumsum(np.arange(1, K + 1) ** 1.3)]); b = b / b[-1]
  dt = 0.01
  # ShallowWaterEquations stacks fields into 4-D arrays, which the mesh-aware transforms reject by assertion: the
  # shallow-water model is not a supported SPMD configuration and is left out (DESIGN.md, C07).
  for cls in ('PrimitiveEquations', 'MoistPrimitiveEquations'):
    key = ('steps', list(shape), cls)
    if not rec.want(key):
      continue
    if cls == 'ShallowWater':
      alphabet = [(f, k, i, l) for f, zm in (('vorticity', True), ('divergence', True), ('potential', False)) for k in range(K)
                  for (i, l) in harness.low_modes(1, M, zm)]
    else:
      alphabet = harness.pe_alphabet(K, 1, M)
    msets = harness.multisets(len(alphabet), 1)
    if unit['full']:
      msets = msets + [(a, (3 * a + 5) % len(alphabet)) for a in range(len(alphabet))]
    results = {}
    for tag in ('single', 'mesh'):
      def build():
        if cls == 'ShallowWater':
          specs = sw.ShallowWaterSpecs.from_si(densities=np.linspace(0.7, 1.0, K) * scales.WATER_DENSITY)
          c = harness.make_coords(SHAPE, None, impl=('fast', 1, True, False) if tag == 'single' else ('fast', 1, None, None), radius=specs.radius, layers=K,
                                  mesh=None if tag == 'single' else mesh)
          g = c.horizontal
          orog = jnp.asarray(sphere.real_to_fast(np.pad(np.array([[0.0, 0.02]]), ((0, rows - 1), (0, L - 2))), g.modal_shape))
          eq = sw.ShallowWaterEquations(c, specs, orog, np.linspace(0.8, 1.5, K))
          step = ti.step_with_filters(ti.semi_implicit_leapfrog(eq, dt), sw.default_filters(g, dt))
          first = ti.backward_forward_euler(eq, dt)

          def run(s):
            pair = (s, first(s))
            for _ in range(2):
              pair = step(pair)
            return pair[1]
          return c, jax.jit(run)
        specs = harness.pe_specs()
        c = harness.make_coords(SHAPE, b, impl=('fast', 1, True, False) if tag == 'single' else ('fast', 1, None, None), radius=specs.radius,
                                mesh=None if tag == 'single' else mesh)
        g = c.horizontal
        orog = np.zeros((rows, L)); orog[0, 1] = 2e-4; orog[1, 1] = 1.4e-4; orog[2, 2] = -0.6e-4
        eq = getattr(pe, cls)(np.linspace(220.0, 290.0, K), jnp.asarray(sphere.real_to_fast(orog, g.modal_shape)), c, specs)
        filters = [ti.exponential_step_filter(g, dt), ti.horizontal_diffusion_step_filter(g, dt, tau=0.05, order=2)]
        step = ti.step_with_filters((ti.imex_rk_sil3 if cls == 'PrimitiveEquations' else ti.crank_nicolson_rk3)(eq, dt), filters)

        def run(s):
          for _ in range(2):
            s = step(s)
          return s
        return c, jax.jit(run)
      if tag == 'mesh':
        ok, built = _guard(rec, shape, key, build)
        if not ok:
          return
      else:
        built = build()
      c, run = built
      g = c.horizontal
      outs = []
      for ms in msets:
        arrs = {}
        fields = ('vorticity', 'divergence', 'potential') if cls == 'ShallowWater' else ('vorticity', 'divergence', 'temperature', 'lnps')
        for f in fields:
          arrs[f] = np.zeros((1 if f == 'lnps' else K, rows, L))
        for e in ms:
          f, k, i, l = alphabet[e]
          arrs[f][k, i, l] += harness.UNIT_AMPLITUDE[f] * pal[e % len(pal)]
        conv = lambda x: jnp.asarray(sphere.real_to_fast(x, g.modal_shape))
        if cls == 'ShallowWater':
          s = sw.State(conv(arrs['vorticity']), conv(arrs['divergence']), conv(arrs['potential']))
        else:
          tr = {}
          if cls.startswith('Moist'):
            q = np.zeros((K, rows, L)); q[:, 0, 0] = 0.01 * harness.SQRT4PI; q[K // 2, 1, 1] = 2e-3
            tr = {'specific_humidity': conv(q)}
          args = (conv(arrs['vorticity']), conv(arrs['divergence']), conv(arrs['temperature']), conv(arrs['lnps']))
          s = pe.State(*args, tr) if cls == 'PrimitiveEquations' else pe.StateWithTime(*args, 0.0, tr)
        if tag == 'mesh':
          ok, o = _guard(rec, shape, key, lambda: run(s))
          if not ok:
            return
        else:
          o = run(s)
        leaves = [np.asarray(a) for a in jax.tree_util.tree_leaves(o)]
        if tag == 'mesh' and not all(np.all(np.isfinite(a)) for a in leaves):
          rec.fail('sharded_padding_finite', key, {'state': list(ms)}, {'operation': 'step'})
        outs.append([sphere.fast_to_real(a, M, L) if a.ndim >= 2 else a for a in leaves])
      results[tag] = outs
    rec.case(key, transitions=2 * len(msets), outcome=np.concatenate([np.ravel(a) for a in results['mesh'][1]]).tobytes(),
             sample={'mesh': list(shape), 'class': cls, 'layers': K, 'states': len(msets), 'steps': 2})
    for ms, oa, ob in zip(msets, results['single'], results['mesh']):
      for a, b_ in zip(oa, ob):
        sc = max(1.0, float(np.abs(a).max()))
        rec.close(b_, a, scale=sc, C=1e5, site='sharded_step_equals_single_device', key=key, sig={'class': cls}, extra={'state': list(ms)})


# -- (vi) the ring collectives beyond the device count ------------------------------------------------------

RING_PATTERNS = [
    # (einsum, lhs dims, reduce subscript, scatter/transfer subscript)
    ('ij,jk->ik', 'j', 'i'),
    ('mjl,sml->smj', 'l', 'j'),     # inverse Legendre: reduce total wavenumber, scatter latitude
    ('im,zmj->zij', 'm', 'i'),      # inverse Fourier: reduce longitude wavenumber, scatter longitude
    ('mjl,zsmj->zsml', 'j', 'l'),   # forward Legendre: reduce latitude, scatter total wavenumber
]


def _ring_unit(unit, rec):
  """The two ring collectives are SPMD programs over ONE named axis.  jax.vmap(axis_name=...) executes the very same
  lax.psum / axis_index / ppermute / fori_loop program for any axis size on a single device, so the real functions
  are run for every even axis size up to the bound (far beyond the 8 forced host devices) with one-hot inputs for
  every rhs entry and integer lhs entries: every output entry is then a single lhs entry and must be EXACT.  Sizes
  2, 4, 8 are also executed through shard_map on real (forced host) devices in the einsum units (conformance of the
  emulation)."""
  import jax, jax.numpy as jnp
  from dinosaur import jax_numpy_utils as jnu
  N = unit['axis_size']
  for subs, red, sca in RING_PATTERNS:
    lhs_s, rest = subs.split(',')
    rhs_s, out_s = rest.split('->')
    for c in ((1, 2) if unit['full'] or N <= 8 else (1,)):          # chunk size per device
      dims = {ch: 2 for ch in set(lhs_s + rhs_s)}
      dims[red] = N * c
      dims[sca] = N * c
      if 'z' in dims:
        dims['z'] = 1
      lhs_shape = tuple(dims[ch] for ch in lhs_s); rhs_shape = tuple(dims[ch] for ch in rhs_s)
      lhs = (1.0 + np.arange(math.prod(lhs_shape))).reshape(lhs_shape)
      nr = math.prod(rhs_shape)
      onehots = np.eye(nr).reshape((nr,) + rhs_shape)
      want = np.einsum(subs.replace(rhs_s, 'B' + rhs_s, 1).replace('->' + out_s, '->B' + out_s), lhs, onehots)
      ra = rhs_s.index(red)          # rhs axis sharded over the ring
      la_red, la_sca = lhs_s.index(red), lhs_s.index(sca)
      oa = out_s.index(sca)

      def shard(x, axis):            # (B, ...) -> (B, N, ...chunk...) device-major along `axis` (axis counts without B)
        x = np.asarray(x)
        shp = x.shape
        new = shp[:axis + 1] + (N, shp[axis + 1] // N) + shp[axis + 2:]
        return np.moveaxis(x.reshape(new), axis + 1, 1)
      rhs_dev = shard(onehots, ra)                                           # (B, N, chunked rhs)
      for rev in (False, True):
        # all-gather: lhs full along the reduced axis, chunked along the scattered (output) axis on each device
        key = ('ring', N, subs, c, 'allgather', rev)
        lhs_dev = np.moveaxis(lhs.reshape(lhs.shape[:la_sca] + (N, c) + lhs.shape[la_sca + 1:]), la_sca, 0)       # (N, lhs with sca chunk)
        f = lambda l, r: jnu._allgather_matmul_twoway(subs, l, r, split_axis=la_red, axis_name='ring', reverse_arg_order=rev, precision='highest')
        got = np.asarray(jax.jit(jax.vmap(jax.vmap(f, axis_name='ring'), in_axes=(None, 0)))(jnp.asarray(lhs_dev), jnp.asarray(rhs_dev)))   # (B, N, out with sca chunk)
        got = np.moveaxis(got, 1, oa + 1)
        got = got.reshape(want.shape)
        rec.case(key, transitions=nr, outcome=got.tobytes(), sample={'axis_size': N, 'pattern': subs, 'chunk': c, 'strategy': 'allgather', 'reverse_arg_order': rev, 'one_hots': nr})
        rec.exact(got, want, site='ring_allgather_matmul_exact_on_one_hots', key=key, sig={'pattern': subs})
        # reduce-scatter: lhs chunked along the reduced axis like rhs, full along the scattered axis; output chunk d lands on device d
        key = ('ring', N, subs, c, 'reducescatter', rev)
        lhs_dev = np.moveaxis(lhs.reshape(lhs.shape[:la_red] + (N, c) + lhs.shape[la_red + 1:]), la_red, 0)
        g = lambda l, r: jnu._matmul_reducescatter_twoway(subs, l, r, scatter_axis=la_sca, axis_name='ring', reverse_arg_order=rev, precision='highest')
        got = np.asarray(jax.jit(jax.vmap(jax.vmap(g, axis_name='ring'), in_axes=(None, 0)))(jnp.asarray(lhs_dev), jnp.asarray(rhs_dev)))
        got = np.moveaxis(got, 1, oa + 1)
        got = got.reshape(want.shape)
        rec.case(key, transitions=nr, outcome=got.tobytes(), sample={'axis_size': N, 'pattern': subs, 'chunk': c, 'strategy': 'reducescatter', 'reverse_arg_order': rev, 'one_hots': nr})
        rec.exact(got, want, site='ring_matmul_reducescatter_exact_on_one_hots', key=key, sig={'pattern': subs})
  # odd axis sizes must be rejected, never mis-computed
  if N > 1 and N <= 16:
    odd = N + 1
    key = ('ring_rejects_odd', odd)
    lhs = np.ones((2, odd)); rhs = np.ones((odd, 1, 2))
    for name, fn in (('allgather', lambda r: jnu._allgather_matmul_twoway('ij,jk->ik', jnp.asarray(lhs), r, split_axis=1, axis_name='ring')),
                     ('reducescatter', lambda r: jnu._matmul_reducescatter_twoway('ij,jk->ik', jnp.asarray(np.ones((odd, 1))), r, scatter_axis=0, axis_name='ring'))):
      try:
        jax.vmap(fn, axis_name='ring')(jnp.asarray(rhs))
        rec.fail('ring_odd_axis_rejected', key, {'strategy': name, 'outcome': 'accepted silently'})
      except ValueError as e:
        rec.check(REJECTION in str(e), 'ring_odd_axis_rejected', key, {'strategy': name, 'error': str(e)[:200]})
    rec.case(key, transitions=2, outcome=('rejected', odd))


def work(unit, rec):
  if unit['kind'] == 'ring':
    return _ring_unit(unit, rec)
  dict(einsum=_einsum_unit, cumsum=_cumsum_unit, grid=_grid_unit, implicit=_implicit_unit, steps=_steps_unit)[unit['kind']](unit, rec)
