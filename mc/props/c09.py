"""C09: the two spherical-harmonic implementations are observationally equivalent.

Grid level: for every grid of the lattice G and every FastSphericalHarmonics option combination
(base_shape_multiple x stacked x reversed einsum order x precision hint) every public attribute of Grid and
every Grid operation is evaluated on EVERY modal unit vector (and every nodal one-hot for the analysis) and
compared with RealSphericalHarmonics under the fixed re-indexing of mc/ref/sphere.py.  Every operator
SEQUENCE up to a depth bound over the alphabet {d_dlon, cos_lat_d_dlat, sec_lat_d_dlat_cos2, laplacian,
inverse_laplacian, clip, analysis o synthesis} is enumerated as well, so that whatever an operator leaves in
the padded region gets the chance to leak back into resolved coefficients.
Model level: tendencies and 3-step trajectories of the dry, moist and shallow-water equations from every
multiset of <= 2 unit excitations are compared between the implementations.
"""
import itertools
import numpy as np

from mc import core, harness
from mc.ref import sphere

ID = 'C09'
TECHNIQUE = 'bounded-exhaustive enumeration of grids x option combinations x operations / operator sequences x every basis vector; differential oracle Real vs Fast under the fixed re-indexing'
ASSUMPTIONS = [
    'the fixed re-indexing between the layouts (mc/ref/sphere.py real_to_fast / fast_to_real)',
    'on CPU the precision hint cannot change float64 results; it is enumerated to cover its code paths, not accelerator numerics',
    'linearity of the grid operations (complete basis per grid); model-level statements are lattice statements',
]
RULE = ('case = (grid, fast options, operation or operator sequence); each case covers every modal (or nodal) basis vector (transitions); '
        'model cases = (class, options, state multiset); non-trivial = Real output not identically zero')

OPS = ('d_dlon', 'cos_lat_d_dlat', 'sec_lat_d_dlat_cos2', 'laplacian', 'inverse_laplacian', 'clip', 'roundtrip')
SPACINGS = ('gauss', 'equiangular', 'equiangular_with_poles')
PRECISIONS = ('float32', 'tensorfloat32', 'highest')


def bounds(tier):
  return dict(shapes='with_wavenumbers(M<=%d) + construct(k<=4,n<=4) + hand-picked' % (5 if tier == 'quick' else 8), spacings=list(SPACINGS),
              fast_options='base_shape_multiple 1..4 x stacked x reverse (+ precision hints on a sub-lattice)',
              operator_sequences='all sequences of length <= %d over %s' % (2 if tier == 'quick' else 3, list(OPS)),
              model='dry / moist / shallow water, multisets of <= 2 excitations, tendencies and 3 steps (SIL3, leapfrog + filters)')


def units(tier, seed):
  pal = core.palette(seed, tier)
  us = []
  for shape in harness.grid_shapes(5 if tier == 'quick' else 8, construct_max=4):
    for sp in SPACINGS:
      us.append(dict(kind='grid', shape=list(shape), spacing=sp, depth=2 if tier == 'quick' else 3, full=tier == 'thorough' or shape[0] <= 3))
  variants = [['fast', 1, True, False], ['fast', 2, False, True], ['fast', 4, True, True], ['fast', 3, False, False]]
  for cls in ('PrimitiveEquations', 'MoistPrimitiveEquations', 'ShallowWater'):
    for v in (variants if tier == 'thorough' else variants[:3]):
      us.append(dict(kind='model', cls=cls, impl=v, palette=pal[0]))
  return us


def _op(g, name):
  import jax.numpy as jnp
  if name == 'clip':
    return lambda x: g.clip_wavenumbers(x)
  if name == 'roundtrip':
    return lambda x: g.to_modal(g.to_nodal(x))
  return getattr(g, name)


def _grid_unit(unit, rec):
  import jax.numpy as jnp
  shape = tuple(unit['shape']); sp = unit['spacing']
  M, L, nlon, nlat = shape
  stag = list(shape)
  rows = 2 * M - 1
  real = harness.make_grid(shape, sp, 'real', radius=1.7, offset=0.3)
  mask = np.asarray(real.mask, dtype=bool)
  n = rows * L
  eye = np.eye(n).reshape(n, rows, L)
  xr = jnp.asarray(eye)
  finite_guard = sp != 'equiangular_with_poles'   # sec2_lat is infinite at the poles by construction on that spacing

  # Real-side results, computed once
  real_res = {}
  real_res['to_nodal'] = np.asarray(real.to_nodal(xr))
  nod_eye = np.eye(nlon * nlat).reshape(nlon * nlat, nlon, nlat)
  real_res['to_modal'] = np.asarray(real.to_modal(jnp.asarray(nod_eye)))
  for name in OPS:
    real_res[name] = np.asarray(_op(real, name)(xr))
  for clip in (True, False):
    gu, gv = real.cos_lat_grad(xr, clip=clip)
    real_res['grad', clip] = (np.asarray(gu), np.asarray(gv))
    real_res['div', clip] = np.asarray(real.div_cos_lat((xr, 2 * xr), clip=clip))
    real_res['curl', clip] = np.asarray(real.curl_cos_lat((xr, 2 * xr), clip=clip))
  real_res['integrate'] = np.asarray(real.integrate(jnp.asarray(real_res['to_nodal'])))
  seqs = [s for d in range(2, unit['depth'] + 1) for s in itertools.product(OPS, repeat=d)]
  real_seq = {}
  for s in seqs:
    y = xr
    for name in s:
      y = _op(real, name)(y)
    real_seq[s] = np.asarray(y)

  impls = [v for v in harness.impl_variants(full=unit['full']) if harness.is_fast(v)]
  combos = [(v, None) for v in impls] + [(impls[0], p) for p in PRECISIONS] + [(impls[-1], 'highest')]
  for impl, prec in combos:
    tag = 'fast:%d:%d:%d:%s' % (impl[1], impl[2], impl[3], prec)
    g = harness.make_grid(shape, sp, impl, radius=1.7, offset=0.3, precision=prec)
    ms = g.modal_shape
    gmask = np.asarray(g.mask, dtype=bool)
    xf = jnp.asarray(harness.from_real_layout(eye, g, impl))
    tor = lambda y: harness.to_real_layout(np.asarray(y), shape, impl)

    # ---- attributes ---------------------------------------------------------------------------------
    key = ('attributes', stag, sp, tag)
    if rec.want(key):
      rec.case(key, transitions=12, outcome=np.asarray(g.mask).tobytes())
      rec.exact(np.asarray(g.nodal_axes[0])[:nlon], np.asarray(real.nodal_axes[0]), site='attr:longitudes', key=key)
      rec.exact(np.asarray(g.nodal_axes[1])[:nlat], np.asarray(real.nodal_axes[1]), site='attr:sin_latitudes', key=key)
      rec.exact(np.asarray(g.longitudes)[:nlon], np.asarray(real.longitudes), site='attr:longitudes', key=key)
      rec.exact(np.asarray(g.latitudes)[:nlat], np.asarray(real.latitudes), site='attr:latitudes', key=key)
      rec.exact(np.asarray(g.cos_lat)[:nlat], np.asarray(real.cos_lat), site='attr:cos_lat', key=key)
      rec.exact(np.asarray(g.sec2_lat)[:nlat], np.asarray(real.sec2_lat), site='attr:sec2_lat', key=key)
      rec.exact(np.asarray(g.laplacian_eigenvalues)[:L], np.asarray(real.laplacian_eigenvalues), site='attr:laplacian_eigenvalues', key=key)
      rec.exact(np.asarray(g.quadrature_weights)[:nlon, :nlat], np.asarray(real.quadrature_weights), site='attr:quadrature_weights', key=key)
      rec.exact(tor(gmask), mask, site='attr:mask', key=key)
      rec.check(not gmask[1].any() and not gmask[2 * M:].any() and not gmask[:, L:].any(), 'attr:mask_false_in_row1_and_padding', key)
      mf, lf = g.modal_axes
      mr, lr = real.modal_axes
      rec.exact(np.asarray(lf)[:L], np.asarray(lr), site='attr:total_wavenumbers', key=key)
      rec.exact(np.concatenate([np.asarray(mf)[:1], np.asarray(mf)[2:2 * M]]), np.asarray(mr), site='attr:longitude_wavenumbers', key=key)
      rec.check(g.nodal_shape[0] >= nlon and g.nodal_shape[1] >= nlat and ms[0] >= 2 * M and ms[1] >= L, 'attr:shapes_cover_limits', key, {'modal_shape': list(ms)})
      rec.check(g.radius == real.radius and g.longitude_offset == real.longitude_offset, 'attr:radius_offset', key)

    # ---- single operations on every basis vector ------------------------------------------------------
    def cmp_modal(name, yf, yr, zero_pad):
      key = ('op', stag, sp, tag, name)
      if not rec.want(key):
        return
      yf = np.asarray(yf)
      rec.case(key, transitions=n, outcome=np.asarray(yr).tobytes(), nontrivial=bool(np.any(np.asarray(yr) != 0)),
               sample={'shape(M,L,nlon,nlat)': stag, 'spacing': sp, 'fast_options': tag, 'operation': name, 'basis_vectors': n})
      sc = max(1.0, float(np.abs(yr).max()))
      rec.close(tor(yf), yr, scale=sc, site='fast_equals_real:' + name, key=key)
      if zero_pad == 'structural':   # clip: row 1, padded rows / columns and the clipped top wavenumber
        rec.zero(yf[..., 1, :], site='fast_row1_zero:' + name, key=key)
        rec.zero(yf[..., 2 * M:, :], site='fast_padding_zero:' + name, key=key)
        rec.zero(yf[..., :, L - 1:], site='fast_padding_zero:' + name, key=key)
      elif zero_pad:
        rec.zero(yf[..., ~gmask], site='fast_masked_and_padded_entries_zero:' + name, key=key)
      else:
        rec.finite(yf, site='fast_padding_finite:' + name, key=key)

    key = ('op', stag, sp, tag, 'to_nodal')
    if rec.want(key):
      yf = np.asarray(g.to_nodal(xf))
      rec.case(key, transitions=n, outcome=real_res['to_nodal'].tobytes())
      rec.close(yf[:, :nlon, :nlat], real_res['to_nodal'], scale=max(1.0, float(np.abs(real_res['to_nodal']).max())), site='fast_equals_real:to_nodal', key=key)
      rec.zero(yf[:, nlon:], site='fast_nodal_padding_zero', key=key); rec.zero(yf[:, :, nlat:], site='fast_nodal_padding_zero', key=key)
      integ = np.asarray(g.integrate(jnp.asarray(yf)))
      rec.close(integ, real_res['integrate'], scale=1.7 ** 2 * 4 * np.pi, site='fast_equals_real:integrate', key=key)
    nod_pad = np.zeros((nlon * nlat,) + tuple(g.nodal_shape)); nod_pad[:, :nlon, :nlat] = nod_eye
    cmp_modal('to_modal(nodal one-hot)', g.to_modal(jnp.asarray(nod_pad)), real_res['to_modal'], True)
    for name in OPS:
      cmp_modal(name, _op(g, name)(xf), real_res[name], 'structural' if name == 'clip' else name == 'roundtrip')
    for clip in (True, False):
      gu, gv = g.cos_lat_grad(xf, clip=clip)
      cmp_modal('cos_lat_grad[0](clip=%s)' % clip, gu, real_res['grad', clip][0], False)
      cmp_modal('cos_lat_grad[1](clip=%s)' % clip, gv, real_res['grad', clip][1], False)
      cmp_modal('div_cos_lat(clip=%s)' % clip, g.div_cos_lat((xf, 2 * xf), clip=clip), real_res['div', clip], False)
      cmp_modal('curl_cos_lat(clip=%s)' % clip, g.curl_cos_lat((xf, 2 * xf), clip=clip), real_res['curl', clip], False)

    # ---- operator sequences: leakage from the padded region back into resolved coefficients ------------
    for s in seqs:
      key = ('seq', stag, sp, tag, list(s))
      if not rec.want(key):
        continue
      y = xf
      for name in s:
        y = _op(g, name)(y)
      yr = real_seq[s]
      if not np.all(np.isfinite(yr)):
        rec.note('sequence_not_finite_on_reference_implementation')
        continue
      rec.case(key, transitions=n * len(s), outcome=yr.tobytes(), nontrivial=bool(np.any(yr != 0)))
      sc = max(1.0, float(np.abs(yr).max()))
      rec.close(tor(y), yr, scale=sc, site='fast_equals_real:sequence', key=key, sig={'len': len(s)})
      rec.finite(np.asarray(y), site='fast_padding_finite:sequence', key=key)

  # history independence: a second Real grid built after all Fast grids gives bit-identical results
  key = ('rebuild', stag, sp)
  real2 = harness.make_grid(shape, sp, 'real', radius=1.7, offset=0.3)
  rec.case(key, transitions=n, outcome=None)
  rec.exact(np.asarray(real2.to_nodal(xr)), real_res['to_nodal'], site='history_independence', key=key)


# -- model level ---------------------------------------------------------------------------------

def _model_unit(unit, rec):
  import jax, jax.numpy as jnp
  from dinosaur import time_integration as ti
  from dinosaur import shallow_water as sw
  from dinosaur import scales
  cls = unit['cls']; impl = tuple(unit['impl']); pal = unit['palette']
  shape = tuple(harness.with_wavenumbers_shape(5, 'cubic'))
  M, L = shape[0], shape[1]
  K = 3
  bnds = [0.0, 0.2, 0.55, 1.0]
  tag = 'fast:%d:%d:%d' % impl[1:]
  res = {}
  if cls == 'ShallowWater':
    alphabet = [(f, k, i, l) for f, zm in (('vorticity', True), ('divergence', True), ('potential', False)) for k in range(2)
                for (i, l) in harness.low_modes(1, M, zm)]
  else:
    alphabet = harness.pe_alphabet(K, 1, M)
  msets = harness.multisets(len(alphabet), 2)
  B = len(msets)
  for which in ('real', impl):
    if cls == 'ShallowWater':
      specs = sw.ShallowWaterSpecs.from_si(densities=np.array([0.9, 1.0]) * scales.WATER_DENSITY)
      coords = harness.make_coords(shape, None, impl=which, radius=specs.radius, layers=2)
      g = coords.horizontal
      st = {f: np.zeros((B, 2, 2 * M - 1, L)) for f in ('vorticity', 'divergence', 'potential')}
      for b, ms in enumerate(msets):
        for e in ms:
          f, k, i, l = alphabet[e]
          st[f][b, k, i, l] += harness.UNIT_AMPLITUDE[f] * pal[e % len(pal)]
      conv = lambda x: jnp.asarray(harness.from_real_layout(x, g, which))
      state = sw.State(conv(st['vorticity']), conv(st['divergence']), conv(st['potential']))
      orog = conv(np.pad(np.array([[0.0, 0.02]]), ((0, 2 * M - 2), (0, L - 2))))
      eq = sw.ShallowWaterEquations(coords, specs, orog, np.array([0.8, 1.5]))
      dt = 0.01
      step = ti.step_with_filters(ti.semi_implicit_leapfrog(eq, dt), sw.default_filters(g, dt))
      tend = jax.vmap(harness.total_tendency_fn(eq))(state)
      first = jax.vmap(ti.backward_forward_euler(eq, dt))(state)
      traj = (state, first)
      for _ in range(3):
        traj = jax.vmap(step)(traj)
      out = dict(tend=[harness.to_real_layout(x, shape, which) for x in (tend.vorticity, tend.divergence, tend.potential)],
                 traj=[harness.to_real_layout(x, shape, which) for x in (traj[1].vorticity, traj[1].divergence, traj[1].potential)])
    else:
      specs = harness.pe_specs()
      coords = harness.make_coords(shape, bnds, impl=which, radius=specs.radius)
      g = coords.horizontal
      tref = np.array([210.0, 250.0, 290.0]); tabs = np.array([220.0, 255.0, 285.0])
      orog = np.zeros((2 * M - 1, L)); orog[0, 1] = 2e-4; orog[1, 1] = 1.4e-4; orog[2, 2] = -0.6e-4
      eq = harness.make_pe(cls, coords, tref, orog, specs, impl=which)
      st = harness.states_from_multisets(alphabet, msets, K, M, L, pal)
      temp = st['temperature'].copy(); temp[:, :, 0, 0] += harness.SQRT4PI * (tabs - tref)
      tracers = None
      if cls.startswith('Moist'):
        q = np.zeros((B, K, 2 * M - 1, L)); q[:, :, 0, 0] = 0.01 * harness.SQRT4PI; q[:, 1, 1, 1] = 2e-3
        tracers = {'specific_humidity': q}
      state = harness.pe_state(cls, coords, which, st['vorticity'], st['divergence'], temp, st['lnps'], tracers=tracers,
                               sim_time=np.zeros(B) if cls != 'PrimitiveEquations' else 0.0)
      dt = 0.01
      filters = [ti.exponential_step_filter(g, dt), ti.horizontal_diffusion_step_filter(g, dt, tau=0.05, order=2)]
      step = ti.step_with_filters(ti.imex_rk_sil3(eq, dt), filters)
      tend = harness.pe_tendency_to_real(jax.vmap(harness.total_tendency_fn(eq))(state), shape, which)
      s3 = state
      for _ in range(3):
        s3 = jax.vmap(step)(s3)
      s3 = harness.pe_tendency_to_real(s3, shape, which)
      fl = lambda d: [d['vorticity'], d['divergence'], d['temperature'], d['lnps']] + [d['tracers'][k] for k in sorted(d['tracers'])]
      out = dict(tend=fl(tend), traj=fl(s3))
    res['real' if which == 'real' else 'fast'] = out
  for b, ms in enumerate(msets):
    rec.case(('model', cls, tag, list(ms), pal), transitions=8, outcome=res['real']['traj'][1][b].tobytes(),
             sample={'class': cls, 'fast_options': tag, 'excitations': [list(alphabet[e]) for e in ms], 'steps': 3} if b in (1, B - 1) else None)
  key = ('model_batch', cls, tag, pal)
  for kind in ('tend', 'traj'):
    for j, (a, b_) in enumerate(zip(res['fast'][kind], res['real'][kind])):
      sc = max(1.0, float(np.abs(b_).max()))
      rec.close(a, b_, scale=sc, C=1e5, site='fast_equals_real:model_%s' % ('tendency' if kind == 'tend' else 'trajectory'), key=key, extra={'field': j})


def work(unit, rec):
  if unit['kind'] == 'grid':
    _grid_unit(unit, rec)
  else:
    _model_unit(unit, rec)
