"""C13: vertical (sigma) calculus is consistent, conservative and exact on affine data.

Bounded-exhaustive enumeration on the real code: every level set on the tenths lattice (bound on
layer count per tier) x every option combination (axis, direction, cumulative-sum method) x every
basis column (bilinear: every (w, x) basis pair) is pushed through the real functions and compared
entry by entry with mc.ref.sigma and with the algebraic identities of the property.  The maps are
(bi)linear, so agreement on the basis is agreement on all data for that level set (linearity itself is
checked on all pairwise superpositions with the amplitude palette).

Extensions after the seeded-breakage rounds (DESIGN.md 8.5): Long columns (65 ... 640, thorough 1025 geometric layers) cover cumulative-sum strategies that depend on the length of the axis.
"""
import itertools
import numpy as np

from mc import core
from mc.ref import sigma as rs

ID = 'C13'
TECHNIQUE = 'bounded-exhaustive enumeration (explicit-state) of level sets x options x basis columns against a reference model'
ASSUMPTIONS = [
    'numpy float64 arithmetic of the reference model (mc/ref/sigma.py)',
    'linearity + complete basis: agreement on every basis column implies agreement on all data for the enumerated level set',
    'level sets beyond the enumerated lattice (boundaries on tenths, two irregular sets) are not covered',
]
RULE = ('case = (level set, operation, axis/direction/method, basis index or basis pair or boundary sequence); '
        'distinct = distinct canonical key; non-trivial = the implementation output is not identically zero; '
        'distinct_nontrivial counts distinct output byte patterns')

R_GAS = 287.0
PATTERN = np.array([[1.0, -2.0, 0.5], [3.0, 0.25, -1.5]])  # trailing (m, l)-like axes, distinct values


def bounds(tier):
  return dict(level_sets='tenths lattice, K<=%d, + 2 irregular' % (4 if tier == 'quick' else 10),
              axes=[0, -3, -1], directions=['down', 'up'], cumsum_methods=['dot', 'jax'],
              long_columns='K in %s geometric layers (cumulative integrals, log integrals, identities, sparse == dense geopotential) on every 31st unit column + ones' % str((65, 257, 513, 640) if tier == 'quick' else (65, 129, 257, 511, 512, 513, 640, 1025)), boundary_sequences='all sequences of length 0..5 over {0,.25,.5,.75,1}',
              reference_profiles=3)


def units(tier, seed):
  pal = core.palette(seed, tier)
  sets = rs.tenths_level_sets(4 if tier == 'quick' else None) + [list(b) for b in rs.IRREGULAR]
  us = [dict(kind='levels', b=b, palettes=pal) for b in sets]
  # constructor validation: all boundary sequences of length <= 5 over the quarter lattice
  vals = [0.0, 0.25, 0.5, 0.75, 1.0]
  for n in range(0, 6):
    us.append(dict(kind='ctor', n=n, vals=vals))
  # long columns: the cumulative-sum strategies may switch algorithm with the length of the axis
  for K in ((65, 257, 513, 640) if tier == 'quick' else (65, 129, 257, 511, 512, 513, 640, 1025)):
    us.append(dict(kind='long', K=K))
  return us


def _place(eye, axis, K):
  """basis batch on a new leading axis; layer axis at `axis` of a (.., K, 2, 3)-like array."""
  nb = eye.shape[0]
  if axis == -3:
    return eye[:, :, None, None] * PATTERN[None, None], 1  # (nb, K, 2, 3) -> layer axis index 1 == -3
  if axis == 0:
    x = eye.T[:, :, None] * PATTERN[0][None, None, :]      # (K, nb, 3): layer axis 0
    return x, 0
  if axis == -1:
    x = eye[:, None, :] * PATTERN[:, 0][None, :, None]     # (nb, 2, K): layer axis -1
    return x, x.ndim - 1
  raise ValueError(axis)


def work(unit, rec):
  from dinosaur import sigma_coordinates as sc
  from dinosaur import primitive_equations as pe
  import jax.numpy as jnp

  if unit['kind'] == 'ctor':
    n = unit['n']
    for seq in itertools.product(unit['vals'], repeat=n):
      key = ('ctor', list(seq))
      if not rec.want(key):
        continue
      want = rs.valid_boundaries(seq)
      try:
        c = sc.SigmaCoordinates(list(seq))
        got = True
      except Exception as e:  # any exception is a rejection
        got = False
      rec.case(key, outcome=(got,), nontrivial=True, sample={'boundaries': list(seq), 'accepted': got})
      rec.check(got == want, 'constructor_accepts_iff_valid', key, {'accepted': got, 'valid': want})
      if got and want:
        r = rs.Sigma(seq)
        rec.close(c.centers, r.c, scale=1, site='ctor_centers', key=key)
        rec.close(c.layer_thickness, r.ds, scale=1, site='ctor_thickness', key=key)
        rec.close(c.center_to_center, r.dc, scale=1, site='ctor_center_to_center', key=key)
        rec.check(c.layers == r.K, 'ctor_layers', key, {'layers': c.layers})
    return

  if unit['kind'] == 'long':
    # a long column (geometric layer thicknesses): every 31st unit column + the all-ones column instead of the full basis
    K = unit['K']
    w = 1.01 ** np.arange(K); b = np.concatenate([[0.0], np.cumsum(w)]) / w.sum(); b[-1] = 1.0
    r = rs.Sigma(list(b)); c = sc.SigmaCoordinates(b)
    cols = list(range(0, K, 31)) + [K - 1]
    x = np.zeros((K, len(cols) + 1)); x[:, -1] = 1.0
    for j, k in enumerate(cols):
      x[k, j] = 1.0 + 0.5 * j
    tot = np.asarray(sc.sigma_integral(jnp.asarray(x), c, axis=0, keepdims=True))
    res = {}
    for down in (True, False):
      for method in ('dot', 'jax'):
        key = ('long_cumint', K, down, method)
        got = np.asarray(sc.cumulative_sigma_integral(jnp.asarray(x), c, axis=0, downward=down, cumsum_method=method))
        res[(down, method)] = got
        rec.case(key, transitions=x.shape[1], outcome=got.tobytes(), sample={'op': 'cumulative_sigma_integral', 'layers': K, 'downward': down, 'method': method, 'columns': x.shape[1]})
        rec.close(got, r.cumulative_integral(x, 0, down), scale=3.0, C=1e4 * np.sqrt(K), site='cumint_vs_ref', key=key)
        rec.close(np.take(got, [K - 1] if down else [0], axis=0), tot, scale=3.0, C=1e4 * np.sqrt(K), site='cumint_ends_at_total', key=key)
        lg = np.asarray(sc.cumulative_log_sigma_integral(jnp.asarray(x), c, axis=0, downward=down, cumsum_method=method))
        rec.close(lg, r.cumulative_log_integral(x, 0, down), scale=3 * (1 + abs(np.log(r.c)).max()), C=1e4 * np.sqrt(K), site='logint_vs_ref', key=key)
    key = ('long_identities', K)
    rec.case(key, transitions=4, outcome=None)
    for method in ('dot', 'jax'):
      rec.close(res[(True, method)] + res[(False, method)] - tot, x * r.ds[:, None], scale=3.0, C=1e4 * np.sqrt(K), site='down_plus_up_minus_total_is_local', key=key)
    for down in (True, False):
      rec.close(res[(down, 'dot')], res[(down, 'jax')], scale=3.0, C=1e4 * np.sqrt(K), site='cumsum_methods_agree', key=key)
    T = np.cos(np.arange(K))[:, None, None] * np.ones((K, 1, 2))
    gd = np.asarray(pe.get_geopotential_diff(jnp.asarray(T), c, 287.0, 'dense'))
    gs = np.asarray(pe.get_geopotential_diff(jnp.asarray(T), c, 287.0, 'sparse'))
    rec.close(gs, gd, scale=287.0 * (1 + abs(np.log(r.c)).max()), C=1e4 * np.sqrt(K), site='geopotential_sparse_equals_dense', key=key)
    return

  b = unit['b']
  r = rs.Sigma(b)
  K = r.K
  c = sc.SigmaCoordinates(np.asarray(b))
  btag = [round(v, 3) for v in b]
  eye = np.eye(K)

  for pal in unit['palettes']:
    amp = pal[0]
    # ---- cumulative / total sigma integrals, all axes, directions, methods ----------------
    for axis in (0, -3, -1):
      x, ax = _place(amp * eye, axis, K)
      tot_ref = r.integral(x, ax, keepdims=True)
      tot = np.asarray(sc.sigma_integral(jnp.asarray(x), c, axis=axis, keepdims=True))
      tot_nk = np.asarray(sc.sigma_integral(jnp.asarray(x), c, axis=axis, keepdims=False))
      key = ('sigma_integral', btag, axis, amp)
      rec.case(key, transitions=K, outcome=tot.tobytes(), sample={'op': 'sigma_integral', 'boundaries': btag, 'axis': axis})
      rec.close(tot, tot_ref, scale=abs(amp) * 3, site='sigma_integral', key=key)
      rec.close(tot_nk, np.squeeze(tot_ref, axis=ax), scale=abs(amp) * 3, site='sigma_integral_keepdims', key=key)
      res = {}
      for down in (True, False):
        for method in ('dot', 'jax'):
          key = ('cumint', btag, axis, down, method, amp)
          if not rec.want(key):
            continue
          got = np.asarray(sc.cumulative_sigma_integral(jnp.asarray(x), c, axis=axis, downward=down,
                                                        cumsum_method=method))
          res[(down, method)] = got
          rec.case(key, transitions=K, outcome=got.tobytes(),
                   sample={'op': 'cumulative_sigma_integral', 'boundaries': btag, 'axis': axis, 'downward': down,
                           'method': method, 'basis_vectors': K})
          rec.close(got, r.cumulative_integral(x, ax, down), scale=abs(amp) * 3, site='cumint_vs_ref', key=key)
          last = np.take(got, [K - 1] if down else [0], axis=ax)
          rec.close(last, tot, scale=abs(amp) * 3, site='cumint_ends_at_total', key=key)
          lg = np.asarray(sc.cumulative_log_sigma_integral(jnp.asarray(x), c, axis=axis, downward=down,
                                                           cumsum_method=method))
          rec.close(lg, r.cumulative_log_integral(x, ax, down), scale=abs(amp) * 3 * (1 + abs(np.log(r.c)).max()),
                    site='logint_vs_ref', key=key)
      if len(res) == 4:
        key = ('cumint_identities', btag, axis, amp)
        rec.case(key, transitions=4, outcome=None)
        for method in ('dot', 'jax'):
          local = x * r.ds.reshape([-1 if i == ax else 1 for i in range(x.ndim)])
          rec.close(res[(True, method)] + res[(False, method)] - tot, local, scale=abs(amp) * 3,
                    site='down_plus_up_minus_total_is_local', key=key)
        rec.close(res[(True, 'dot')], res[(True, 'jax')], scale=abs(amp) * 3, site='cumsum_methods_agree', key=key)
        rec.close(res[(False, 'dot')], res[(False, 'jax')], scale=abs(amp) * 3, site='cumsum_methods_agree', key=key)

    # ---- linearity of the cumulative integral on all pairwise superpositions ----------------
    if K >= 2:
      pairs = list(itertools.combinations(range(K), 2))
      a1, a2 = pal[0], pal[-1] if len(pal) > 1 else -0.5
      xs = np.stack([a1 * eye[i] + a2 * eye[j] for i, j in pairs])          # (np, K)
      x, ax = _place(xs, -3, K)
      got = np.asarray(sc.cumulative_sigma_integral(jnp.asarray(x), c, axis=-3))
      e, _ = _place(eye, -3, K)
      img = np.asarray(sc.cumulative_sigma_integral(jnp.asarray(e), c, axis=-3))
      want = np.stack([a1 * img[i] + a2 * img[j] for i, j in pairs])
      key = ('cumint_linearity', btag, a1, a2)
      rec.case(key, transitions=len(pairs), outcome=got.tobytes())
      rec.close(got, want, scale=3 * (abs(a1) + abs(a2)), site='cumint_linearity', key=key)

    # ---- centred difference: matrix + exact on affine data -------------------------------------
    if K >= 2:
      for axis in (0, -3, -1):
        x, ax = _place(amp * eye, axis, K)
        key = ('centered_difference', btag, axis, amp)
        if rec.want(key):
          got = np.asarray(sc.centered_difference(jnp.asarray(x), c, axis=axis))
          rec.case(key, transitions=K, outcome=got.tobytes())
          rec.close(got, r.centered_difference(x, ax), scale=abs(amp) * 3 / r.dc.min(), site='centered_difference_vs_ref', key=key)
        for (a0, a1_) in ((2.0, 0.0), (0.0, 1.0), (-1.5, 3.0)):
          prof = a0 + a1_ * r.c
          xa, ax = _place(prof[None, :], axis, K)
          key = ('centered_difference_affine', btag, axis, a0, a1_)
          if not rec.want(key):
            continue
          got = np.asarray(sc.centered_difference(jnp.asarray(xa), c, axis=axis))
          pat = xa.take([0], axis=ax) / prof[0] if prof[0] != 0 else None
          slope_field = np.asarray(r.centered_difference(xa, ax))
          # exactness: derivative of a0 + a1*sigma is a1 times the horizontal pattern, at every interface
          unit_pattern, _ = _place(np.ones((1, K)), axis, K)
          want = a1_ * unit_pattern.take(range(K - 1), axis=ax)
          rec.case(key, outcome=got.tobytes(), nontrivial=a1_ != 0)
          rec.close(got, want, scale=(abs(a0) + abs(a1_)) * 3 / r.dc.min(), site='centered_difference_exact_on_affine', key=key)

    # ---- centred vertical advection: every (w basis, x basis) pair; summation by parts --------
    if K >= 2:
      wi = np.eye(K - 1)
      for i in range(K - 1):
        # w = e_i (interface i), x = every basis column at once on the batch axis
        w = np.broadcast_to((amp * wi[i])[None, :, None, None], (K, K - 1, 2, 3)) * np.ones((1, 1, 2, 3))
        x, ax = _place(eye, -3, K)
        key = ('advection', btag, i, amp)
        if not rec.want(key):
          continue
        got = np.asarray(sc.centered_vertical_advection(jnp.asarray(w), jnp.asarray(x), c, axis=-3))
        rec.case(key, transitions=K, outcome=got.tobytes(),
                 sample={'op': 'centered_vertical_advection', 'boundaries': btag, 'w_basis': i, 'x_basis': 'all %d' % K})
        want = r.centered_advection(w, x, 1)
        sc_ = abs(amp) * 3 / r.dc.min()
        rec.close(got, want, scale=sc_, site='advection_vs_ref', key=key)
        # summation by parts: sum_k ds_k adv_k - sum_k x_k (w_{k+1/2} - w_{k-1/2}) == 0  (zero boundary velocity)
        wpad = np.concatenate([np.zeros((K, 1, 2, 3)), w, np.zeros((K, 1, 2, 3))], axis=1)
        conv = (x * (wpad[:, 1:] - wpad[:, :-1])).sum(axis=1)
        mass = (got * r.ds[None, :, None, None]).sum(axis=1)
        rec.close(mass - conv, np.zeros_like(mass), scale=sc_, site='advection_summation_by_parts', key=key)
      # affine x => advection equals -(average of adjacent w) * slope
      prof = 1.0 + 2.0 * r.c
      x, ax = _place(prof[None, :], -3, K)
      wv = np.arange(1, K)[None, :, None, None] * np.ones((1, 1, 2, 3)) * amp
      key = ('advection_affine', btag, amp)
      if rec.want(key):
        got = np.asarray(sc.centered_vertical_advection(jnp.asarray(wv), jnp.asarray(x), c, axis=-3))
        wp = np.concatenate([np.zeros((1, 1, 2, 3)), wv, np.zeros((1, 1, 2, 3))], axis=1)
        want = -0.5 * (wp[:, 1:] + wp[:, :-1]) * 2.0 * PATTERN[None, None]
        rec.case(key, outcome=got.tobytes())
        rec.close(got, want, scale=abs(amp) * K * 3 * 3 / r.dc.min(), site='advection_exact_on_affine', key=key)

    # ---- geopotential operator: dense, sparse, matrix == R * trapezoid in log sigma ------------
    T = amp * eye[:, :, None, None] * PATTERN[None, None]          # (basis, K, 2, 3)
    want = np.stack([r.geopotential_diff(T[i], R_GAS) for i in range(K)])
    gscale = abs(amp) * 3 * R_GAS * (1 + abs(np.log(r.c)).max()) * K
    for method in ('dense', 'sparse'):
      key = ('geopotential_diff', btag, method, amp)
      if not rec.want(key):
        continue
      got = np.stack([np.asarray(pe.get_geopotential_diff(jnp.asarray(T[i]), c, R_GAS, method=method)) for i in range(K)])
      rec.case(key, transitions=K, outcome=got.tobytes(),
               sample={'op': 'get_geopotential_diff', 'boundaries': btag, 'method': method})
      rec.close(got, want, scale=gscale, site='geopotential_is_R_trapezoid_log_sigma', key=key)
    key = ('geopotential_weights', btag)
    if rec.want(key):
      gw = pe.get_geopotential_weights(c, R_GAS)
      rec.case(key, outcome=gw.tobytes())
      rec.close(gw, r.G(R_GAS), scale=gscale, site='geopotential_weights_vs_ref', key=key)
      rec.close(np.einsum('gh,bhml->bgml', gw, T / amp) * amp, want, scale=gscale, site='geopotential_weights_are_the_trapezoid', key=key)
    # ---- temperature-implicit operator: dense == sparse == documented terms ------------------
    D = amp * eye[:, :, None, None] * PATTERN[None, None]
    profiles = (np.full(K, 250.0), 300.0 - 60.0 * (1 - r.c), 250.0 + 20.0 * (-1.0) ** np.arange(K))
    for pi, tref in enumerate(profiles):
      Href = r.H(tref, 0.28)
      want = np.stack([np.einsum('gh,hml->gml', -Href, D[i]) for i in range(K)])
      hscale = abs(amp) * 3 * (np.abs(Href).max() + 1.0) * K
      for method in ('dense', 'sparse'):
        key = ('temperature_implicit', btag, pi, method, amp)
        if not rec.want(key):
          continue
        got = np.stack([np.asarray(pe.get_temperature_implicit(jnp.asarray(D[i]), c, tref, 0.28, method=method)) for i in range(K)])
        rec.case(key, transitions=K, outcome=got.tobytes())
        rec.close(got, want, scale=hscale, site='temperature_implicit_vs_documented_terms', key=key,
                  sig={'method': method})
