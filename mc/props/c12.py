"""C12: physical results do not depend on the non-dimensionalisation scale.

The same physical problems, specified in SI units -- every multiset of <= 2 unit excitations of a
primitive-equation / shallow-water state (plus the shipped initial conditions), the same orography,
reference temperatures, constants and time step -- are set up under five different unit scales on the real
code.  Tendencies (dry, moist, Held-Suarez forcing, shallow water) and multi-step trajectories (SIL3 with
filters, semi-implicit leapfrog) are converted back to SI and compared between ALL pairs of scales
(ln ps after removing the ln(pressure unit) shift).

Extensions after the seeded-breakage rounds (DESIGN.md 8.5): The shallow-water tendency is evaluated a second time through a second equation object on the same Grid and must be identical (nothing cached may be rescaled in place).
"""
import itertools
import numpy as np

from mc import core, harness

ID = 'C12'
TECHNIQUE = 'bounded-exhaustive enumeration of scale pairs x equation classes x excitation lattice (in SI); metamorphic equality of re-dimensionalised tendencies and trajectories'
ASSUMPTIONS = [
    'lattice statement: five scales (all 10 pairs), states = multisets of <= 2 unit excitations with l <= 1, and the shipped initial conditions',
    'shipped shallow-water initial states are excluded (they hard-code 2*Omega = 1, observation O1 of DESIGN.md); balanced shallow-water roots are built from excitations instead',
    'pint for unit conversion of the inputs (the object under test for C18)',
]
RULE = ('case = (class, function, state multiset) evaluated under 5 scales (transitions) and compared on all 10 pairs; '
        'non-trivial = SI output not identically zero')

BOUNDS3 = [0.0, 0.2, 0.55, 1.0]
SI_AMP = dict(vorticity=1e-5, divergence=5e-6, temperature=5.0, lnps=0.02, potential=50.0)


def _scales():
  from dinosaur import scales
  u = scales.units
  return [('DEFAULT', scales.DEFAULT_SCALE), ('ATMOSPHERIC', scales.ATMOSPHERIC_SCALE),
          ('SI', scales.Scale(1 * u.m, 1 * u.s, 1 * u.kg, 1 * u.degK)),
          ('odd', scales.Scale(1234.5 * u.km, 0.7 * u.hour, 3.3 * u.kg, 7.5 * u.degK)),
          ('gram', scales.Scale(1 * u.m, 1 * u.s, 1 * u.g, 100 * u.degK))]


def bounds(tier):
  return dict(scales=['DEFAULT', 'ATMOSPHERIC', '(1 m,1 s,1 kg,1 K)', '(1234.5 km,0.7 h,3.3 kg,7.5 K)', '(1 m,1 s,1 g,100 K)'], pairs=10,
              classes=['PrimitiveEquations', 'MoistPrimitiveEquations', 'HeldSuarez', 'ShallowWater', 'initial_states'],
              grids=['(5,6,21,11) real', '(4,5,13,7) fast padded'] if tier == 'thorough' else ['(5,6,21,11) real'],
              functions=['total tendency', '3 steps'], states='multisets of <= 2 SI excitations, K=3, lmax=1')


def units(tier, seed):
  pal = core.palette(seed, tier)
  grids = [([5, 6, 21, 11], 'real')] + ([([4, 5, 13, 7], ['fast', 4, True, False])] if tier == 'thorough' else [])
  us = []
  for shape, impl in grids:
    for cls in ('PrimitiveEquations', 'MoistPrimitiveEquations', 'HeldSuarez', 'ShallowWater', 'initial_states'):
      for fn in (('tendency', 'steps') if cls != 'initial_states' else ('states',)):
        us.append(dict(cls=cls, fn=fn, shape=shape, impl=impl, palette=pal[0]))
  return us


def work(unit, rec):
  import jax, jax.numpy as jnp
  from dinosaur import scales, time_integration as ti, held_suarez as hs
  from dinosaur import shallow_water as sw, primitive_equations as pe
  from dinosaur import primitive_equations_states as pes
  u = scales.units
  cls = unit['cls']; fn = unit['fn']; pal = unit['palette']
  shape = tuple(unit['shape']); impl = unit['impl'] if isinstance(unit['impl'], str) else tuple(unit['impl'])
  M, L = shape[0], shape[1]
  K = 3
  is_sw = cls == 'ShallowWater'
  ctag = [cls, fn, list(shape), str(unit['impl'])]
  dt_si = 300.0
  outs = {}
  if is_sw:
    K = 2
    alphabet = [(f, k, i, l) for f, zm in (('vorticity', True), ('divergence', True), ('potential', False)) for k in range(K)
                for (i, l) in harness.low_modes(1, M, zm)]
    fields = ('vorticity', 'divergence', 'potential')
  else:
    alphabet = harness.pe_alphabet(K, 1, M)
    fields = ('vorticity', 'divergence', 'temperature', 'lnps')
  msets = harness.multisets(len(alphabet), 2 if fn == 'tendency' else 1)
  B = len(msets)
  st = {f: np.zeros((B, 1 if f == 'lnps' else K, 2 * M - 1, L)) for f in fields}
  for b, ms in enumerate(msets):
    for e in ms:
      f, k, i, l = alphabet[e]
      st[f][b, k, i, l] += SI_AMP[f] * pal[e % len(pal)]
  orog_m = np.zeros((2 * M - 1, L)); orog_m[0, 1] = 900.0; orog_m[1, 1] = 500.0; orog_m[2, 2] = -300.0
  tref_si = np.array([210.0, 250.0, 290.0]); tabs_si = np.array([220.0, 255.0, 285.0])

  for sname, scale in _scales():
    nd = scale.nondimensionalize
    if cls == 'initial_states':
      specs = pe.PrimitiveEquationsSpecs.from_si(scale=scale)
      coords = harness.make_coords(shape, BOUNDS3, impl=impl, radius=specs.radius)
      g = coords.horizontal
      res = {}
      fn1, aux1 = pes.steady_state_jw(coords, specs)
      s1 = fn1()
      pert = pes.baroclinic_perturbation_jw(coords, specs)
      lon, sinlat = g.nodal_mesh
      height = 1500.0 * np.cos(np.arcsin(sinlat)) ** 2 * (1 + 0.3 * np.cos(2 * lon)) * u.m
      fn2, aux2 = pes.isothermal_rest_atmosphere(coords, specs, p0=1e5 * u.pascal, p1=5e3 * u.pascal, surface_height=height)
      s2 = fn2(jax.random.PRNGKey(0))
      dim = lambda x, unit: np.asarray(scale.dimensionalize(np.asarray(x), unit).m)
      r = lambda x: harness.to_real_layout(np.asarray(x), shape, impl)
      shift = np.log(nd(1 * u.pascal)) * harness.SQRT4PI
      for tag, s in (('jw', s1), ('jw_perturbation', pert), ('isothermal_rest', s2)):
        lp = r(s.log_surface_pressure).copy()
        if tag != 'jw_perturbation':
          lp[..., 0, 0] -= shift
        res[tag] = dict(vorticity=dim(r(s.vorticity), 1 / u.s), divergence=dim(r(s.divergence), 1 / u.s),
                        temperature=dim(r(s.temperature_variation), u.degK), lnps=lp)
      res['aux'] = dict(jw_orography=dim(np.asarray(aux1['orography']), u.m), jw_tref=dim(np.asarray(aux1['ref_temperatures']), u.degK),
                        rest_orography=dim(np.asarray(aux2['orography']), u.m), rest_tref=dim(np.asarray(aux2['ref_temperatures']), u.degK))
      outs[sname] = res
      continue
    if is_sw:
      specs = sw.ShallowWaterSpecs.from_si(densities=np.array([0.9, 1.0]) * scales.WATER_DENSITY, scale=scale)
      coords = harness.make_coords(shape, None, impl=impl, radius=specs.radius, layers=K)
      g = coords.horizontal
      conv = lambda x: jnp.asarray(harness.from_real_layout(np.asarray(x), g, impl))
      state = sw.State(conv(nd(st['vorticity'] / u.s)), conv(nd(st['divergence'] / u.s)), conv(nd(st['potential'] * u.m ** 2 / u.s ** 2)))
      eq = sw.ShallowWaterEquations(coords, specs, conv(nd(orog_m * 9.8 * u.m ** 2 / u.s ** 2)), np.asarray(nd(np.array([3.0e4, 5.0e4]) * u.m ** 2 / u.s ** 2)))
      dim = lambda x, unit: np.asarray(scale.dimensionalize(harness.to_real_layout(np.asarray(x), shape, impl), unit).m)
      if fn == 'tendency':
        t = jax.vmap(harness.total_tendency_fn(eq))(state)
        # evaluated again on the same Grid through a second equation object: nothing may have been rescaled in place
        eq_b = sw.ShallowWaterEquations(coords, specs, eq.orography, eq.reference_potential)
        t_b = jax.vmap(harness.total_tendency_fn(eq_b))(state)
        for fld in ('vorticity', 'divergence', 'potential'):
          rec.exact(np.asarray(getattr(t_b, fld)), np.asarray(getattr(t, fld)), site='second_evaluation_on_the_same_grid_is_identical', key=('repeat', ctag, sname), sig={'field': fld})
        outs[sname] = dict(vorticity=dim(t.vorticity, u.s ** -2), divergence=dim(t.divergence, u.s ** -2), potential=dim(t.potential, u.m ** 2 / u.s ** 3))
      else:
        dt = float(nd(dt_si * u.s))
        tau = float(nd(3600.0 * u.s))
        filters = (ti.exponential_leapfrog_step_filter(g, dt, tau=tau, order=3), ti.robert_asselin_leapfrog_filter(0.05))
        step = jax.jit(jax.vmap(ti.step_with_filters(ti.semi_implicit_leapfrog(eq, dt), filters)))
        pair = (state, jax.vmap(ti.backward_forward_euler(eq, dt))(state))
        for _ in range(3):
          pair = step(pair)
        s = pair[1]
        outs[sname] = dict(vorticity=dim(s.vorticity, u.s ** -1), divergence=dim(s.divergence, u.s ** -1), potential=dim(s.potential, u.m ** 2 / u.s ** 2))
      continue
    specs = pe.PrimitiveEquationsSpecs.from_si(scale=scale)
    coords = harness.make_coords(shape, BOUNDS3, impl=impl, radius=specs.radius)
    g = coords.horizontal
    tref = np.asarray(nd(tref_si * u.degK))
    temp = st['temperature'].copy(); temp[:, :, 0, 0] += harness.SQRT4PI * (tabs_si - tref_si)
    shift = float(np.log(nd(1e5 * u.pascal))) * harness.SQRT4PI      # ps = 1e5 Pa * exp(lnps_SI)
    lnps = st['lnps'].copy(); lnps[:, :, 0, 0] += shift
    pcls = 'MoistPrimitiveEquations' if cls == 'MoistPrimitiveEquations' else 'PrimitiveEquations'
    tracers = None
    if pcls.startswith('Moist'):
      q = np.zeros((B, K, 2 * M - 1, L)); q[:, :, 0, 0] = 0.01 * harness.SQRT4PI; q[:, 1, 1, 1] = 2e-3
      tracers = {'specific_humidity': q}
    t0 = float(nd(3600.0 * u.s))
    state = harness.pe_state(pcls, coords, impl, nd(st['vorticity'] / u.s), nd(st['divergence'] / u.s), nd(temp * u.degK), lnps, tracers=tracers,
                             sim_time=np.full(B, t0))
    eq = harness.make_pe(pcls, coords, tref, np.asarray(nd(orog_m * u.m)), specs, impl=impl)
    dim = lambda x, unit: np.asarray(scale.dimensionalize(harness.to_real_layout(np.asarray(x), shape, impl), unit).m)
    if cls == 'HeldSuarez':
      forcing = hs.HeldSuarezForcing(coords, specs, tref)
      if fn == 'tendency':
        f = jax.vmap(forcing.explicit_terms)(state)
        outs[sname] = dict(vorticity=dim(f.vorticity, u.s ** -2), divergence=dim(f.divergence, u.s ** -2), temperature=dim(f.temperature_variation, u.degK / u.s),
                           lnps=dim(f.log_surface_pressure, 1 / u.s))
        continue
      eq = ti.compose_equations([eq, forcing])
    if fn == 'tendency':
      t = jax.vmap(harness.total_tendency_fn(eq))(state)
      out = dict(vorticity=dim(t.vorticity, u.s ** -2), divergence=dim(t.divergence, u.s ** -2), temperature=dim(t.temperature_variation, u.degK / u.s),
                 lnps=dim(t.log_surface_pressure, 1 / u.s))
      for k_, v in t.tracers.items():
        out['tracer:' + k_] = dim(v, 1 / u.s)
      outs[sname] = out
    else:
      dt = float(nd(dt_si * u.s))
      filters = [ti.exponential_step_filter(g, dt, tau=float(nd(3600.0 * u.s)), order=3),
                 ti.horizontal_diffusion_step_filter(g, dt, tau=float(nd(7200.0 * u.s)), order=2)]
      step = jax.jit(jax.vmap(ti.step_with_filters(ti.imex_rk_sil3(eq, dt), filters)))
      s = state
      for _ in range(3):
        s = step(s)
      lp = harness.to_real_layout(np.asarray(s.log_surface_pressure), shape, impl).copy(); lp[..., 0, 0] -= shift
      out = dict(vorticity=dim(s.vorticity, u.s ** -1), divergence=dim(s.divergence, u.s ** -1), temperature=dim(s.temperature_variation, u.degK), lnps=lp)
      if hasattr(s, 'sim_time'):
        out['sim_time'] = np.asarray(scale.dimensionalize(np.asarray(s.sim_time), u.s).m)
      for k_, v in s.tracers.items():
        out['tracer:' + k_] = harness.to_real_layout(np.asarray(v), shape, impl)
      outs[sname] = out

  names = list(outs)
  if cls == 'initial_states':
    for tag in ('jw', 'jw_perturbation', 'isothermal_rest', 'aux'):
      key = ('initial_state', ctag, tag)
      rec.case(key, transitions=len(names), outcome=np.concatenate([np.ravel(v) for v in outs[names[0]][tag].values()]).tobytes(),
               sample={'shipped_state': tag, 'scales': names})
      for a, b in itertools.combinations(names, 2):
        for f in outs[a][tag]:
          x, y = outs[a][tag][f], outs[b][tag][f]
          sc = max(float(np.abs(x).max()), 1e-300) * (40.0 if f == 'lnps' else 1.0)
          rec.close(x, y, scale=sc, C=1e5, site='scale_independence:initial_state', key=key, sig={'pair': a + '/' + b}, extra={'field': f})
    return
  for b, ms in enumerate(msets):
    rec.case(('state', ctag, list(ms), pal), transitions=len(names), outcome=outs[names[0]]['divergence'][b].tobytes(),
             sample={'class': cls, 'function': fn, 'excitations_SI': [list(alphabet[e]) for e in ms], 'scales': names} if b in (1, B - 1) else None)
  key = ('batch', ctag, pal)
  for a, b in itertools.combinations(names, 2):
    for f in outs[a]:
      x, y = outs[a][f], outs[b][f]
      sc = max(float(np.abs(x).max()), float(np.abs(y).max()), 1e-300)
      if f == 'lnps' and fn == 'steps':
        sc = max(sc, 40.0)   # the ln(pressure unit) shift (up to ~35) is removed after the run: cancellation
      rec.close(x, y, scale=sc, C=1e5, site='scale_independence:' + fn, key=key, sig={'pair': a + '/' + b}, extra={'field': f})
