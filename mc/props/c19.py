"""C19: persistence and restructuring round trips lose nothing.

Bounded-exhaustive enumeration on the real code of five finite lattices, each compared with the identity the
property states and with an independent model (mc/ref/roundtrip.py, mc/ref/sigma.py):

  coords    every coordinate system of the grid lattice x spacing x offset x radius x layout x vertical lattice
            -> CoordinateSystem.asdict -> attrs of a real in-memory xarray.Dataset -> coordinate_system_from_attrs;
            "same discretisation" = wavenumber and node counts, spacing, offset, radius, vertical class with its
            boundaries / centres / layer count (transform implementation and mesh are dropped by the code on purpose
            and are not compared).
  states    dry / with-time / moist / shallow-water states x every tracer subset (0..3 names) x sample axis
            (none, 1..3) x time axis (none, 1..3) x modal | nodal x float64 | float32
            -> data_to_xarray -> xarray_to_*: documented dimension names, coordinate labels, bit-identical leaves;
            maybe_to_nodal / maybe_to_modal leave matching leaves and scalars untouched.
  spectral  every ordered pair of the grid list, both layouts, every coefficient basis vector:
            up-sampling puts each (m, kind, l) coefficient at the same label of the finer array (exact), is the same
            function on the finer grid (reference harmonics at the finer grid's nodes), down(up(x)) == x bit for bit,
            down-sampling is label-wise truncation, documented rejections are raised.
  dicts     every nested dictionary of the lattice (key alphabets {a, ab, ac, b}, {'', a, b}, keys with separators):
            unflatten(flatten(d)) == d, flat form == joined paths, keys containing the separator rejected;
            replace_with_matching_or_default against a path model.  (An empty-string key holding a non-empty
            dictionary is known finding F10: those dictionaries carry sig empty_string_key.)
  pytrees   every container structure with <= 3 leaves x shape alphabet x axis for pack/unpack, stack/unstack,
            split/concat along an axis, split_axis.
"""
import dataclasses
import itertools

import numpy as np

from mc import core
from mc.ref import roundtrip as rt
from mc.ref import sigma as rs

ID = 'C19'
TECHNIQUE = ('bounded-exhaustive enumeration (explicit-state) of coordinate systems, labelled states, grid pairs x basis '
             'vectors, nested dictionaries and pytree structures against identities and a reference model')
ASSUMPTIONS = [
    'python/numpy/scipy reference model mc/ref/roundtrip.py (path model of nested dictionaries, layout labels, '
    'scipy.special.assoc_legendre_p_all harmonics) and mc/ref/sigma.py',
    'xarray in-memory Dataset semantics (attrs stored as given; no NetCDF/Zarr backend is exercised)',
    'dimension names are asserted only where the code documents shape based inference to be unambiguous: coordinate '
    'systems whose modal, nodal and level shapes are pairwise distinct; single-layer nodal states are counted only',
    'up/down-sampling is linear: agreement on every basis vector of a grid pair is agreement on all coefficient arrays '
    'of that pair; grid pairs, dictionaries, structures, tracer sets and axis sizes beyond the lattice are not covered',
    'separators are single characters (default "&", "/"); multi-character separators are not covered',
]
RULE = ('case = (lattice, configuration, operation, options) with a canonical key; one case per distinct coordinate system / '
        'state layout / ordered grid pair / dictionary / (structure, shapes, axis); non-trivial = the implementation '
        'returned a value (not a documented rejection); distinct_nontrivial counts distinct returned byte patterns / '
        'flat forms')

SPACINGS = ('gauss', 'equiangular', 'equiangular_with_poles')
OFFSETS = (0.0, 0.3)
RADII = (None, 2.5, 6.37122e6)
LAYOUTS = ('real', 'fast')
HAND_GRIDS = ((4, 5, 13, 7), (6, 7, 12, 8), (5, 5, 11, 6), (3, 5, 8, 5))
TRACER_NAMES = ('specific_humidity', 'specific_cloud_liquid_water_content', 'specific_cloud_ice_water_content', 'age_of_air')
PRESSURE_VALUES = (50, 100, 1000 / 3, 500, 850, 1000)


# ---------------------------------------------------------------------------------------------------
# lattices (plain python; no dinosaur)
# ---------------------------------------------------------------------------------------------------

def _grid_specs(tier):
  mmax = 8 if tier == 'quick' else 16
  specs = [('ww', m, d) for m in range(1, mmax + 1) for d in ('linear', 'quadratic', 'cubic')]
  specs += [('construct', k, n) for k in range(1, 7) for n in range(1, 7) if 2 * n >= k + 1]
  specs += [('raw',) + g for g in HAND_GRIDS]
  return specs


def grid_numbers(spec):
  """(M, L, nlon, nlat) from the documented constructor conventions."""
  if spec[0] == 'ww':
    m = spec[1]
    nlon = {'linear': 2, 'quadratic': 3, 'cubic': 4}[spec[2]] * m + 1
    return (m, m + 1, nlon, -(-nlon // 2))
  if spec[0] == 'construct':
    k, n = spec[1], spec[2]
    return (k + 1, k + 2, 4 * n, 2 * n)
  return tuple(spec[1:])


def _vertical_specs(tier):
  sets = rs.tenths_level_sets(3 if tier == 'quick' else None) + [list(b) for b in rs.IRREGULAR]
  out = [('sigma', b) for b in sets]
  # equidistant layers: boundaries k/K are not short decimals
  out += [('sigma', [k / K for k in range(K + 1)]) for K in (3, 6, 7, 9, 11, 12)]
  out += [('layer', k) for k in range(1, 5)]
  for r in range(1, 5):
    out += [('pressure', list(c)) for c in itertools.combinations(PRESSURE_VALUES, r)]
  out += [('pressure', [100, 500, 850])]  # integer valued
  return out


def _state_coords(tier):
  if tier == 'quick':
    grids = [('ww', 2, 'quadratic'), ('ww', 3, 'linear'), ('ww', 5, 'quadratic'), ('raw', 4, 5, 13, 7), ('raw', 3, 5, 8, 5),
             ('raw', 3, 4, 5, 4)]
    verts = [('sigma', [0.0, 1.0]), ('sigma', [0.0, 0.1, 0.5, 1.0]), ('layer', 1), ('layer', 2), ('layer', 3),
             ('pressure', [100, 500, 850, 1000])]
  else:
    grids = [('ww', m, 'quadratic') for m in range(1, 9)] + [('ww', 4, 'linear'), ('ww', 4, 'cubic'), ('construct', 3, 2)]
    grids += [('raw',) + g for g in HAND_GRIDS] + [('raw', 3, 4, 5, 4), ('raw', 2, 4, 4, 4)]
    verts = [('sigma', [0.0, 1.0]), ('sigma', [0.0, 0.5, 1.0]), ('sigma', [0.0, 0.1, 0.5, 1.0]),
             ('sigma', [0.0, 0.07, 0.3, 0.45, 1.0]), ('layer', 1), ('layer', 2), ('layer', 3), ('layer', 4),
             ('pressure', [500.0]), ('pressure', [100, 500, 850, 1000])]
  return grids, verts


def _spectral_grids(tier):
  g = [('ww', m, 'quadratic') for m in range(1, 9)] + [('raw',) + h for h in HAND_GRIDS]
  g += [('construct', 2, 2), ('construct', 3, 2), ('construct', 5, 3)]
  if tier == 'thorough':
    g += [('ww', m, 'linear') for m in range(1, 9)] + [('ww', m, 'quadratic') for m in range(9, 13)]
  return g


DICT_LATTICES = {
    'design': lambda: rt.design_dictionaries(),
    'deeper': lambda: rt.deeper_dictionaries(),
    'emptykey': lambda: rt.design_dictionaries(
        top_keys=('', 'a', 'b'), inner=[rt.LEAF] + rt._one_level(('', 'a'), [rt.LEAF, {}])),
    'sepkeys': lambda: rt.design_dictionaries(
        top_keys=('a', 'a&b', '&', 'b/c'), inner=[rt.LEAF, {}, {'a': rt.LEAF}, {'x&y': rt.LEAF}, {'x/y': {}}]),
}


def _depth1():
  return rt._one_level(('a', 'ab', 'ac', 'b'), [rt.LEAF, {}])[:]  # all subsets (incl. 4 keys); filtered below


def bounds(tier):
  grids = _grid_specs(tier)
  sg, sv = _state_coords(tier)
  return dict(
      coordinate_systems=dict(grids=len(grids), grid_families='with_wavenumbers M<=%d x linear|quadratic|cubic, construct(k<=6,n<=6), 6 hand-picked'
                              % (8 if tier == 'quick' else 16), spacings=list(SPACINGS), longitude_offsets=list(OFFSETS),
                              radii=['None(=1)', 2.5, 6.37122e6], layouts=list(LAYOUTS), verticals=len(_vertical_specs(tier)),
                              vertical_families='sigma tenths lattice K<=%s + 2 irregular + equidistant K in {3,6,7,9,11,12}, LayerCoordinates 1..4, pressure subsets of 6 values size<=4'
                              % ('3' if tier == 'quick' else '10')),
      states=dict(grids=sg, verticals=sv, layouts=list(LAYOUTS), kinds=['primitive', 'primitive_with_time', 'shallow_water', 'data_dict', 'jax_leaves', 'maybe_to_nodal/maybe_to_modal'],
                  tracer_subsets='all subsets of size 0..3 of %d names' % len(TRACER_NAMES), sample_axis=[None, 1, 2, 3],
                  time_axis=[None, 1, 2, 3], representations=['modal', 'nodal'], dtypes=['float64', 'float32']),
      spectral=dict(grids=_spectral_grids(tier), pairs='all ordered pairs', layouts=list(LAYOUTS), offsets=list(OFFSETS),
                    data='every coefficient basis vector + a mixed state pytree'),
      dictionaries=dict(design=2465, empty_string_alphabet=len(DICT_LATTICES['emptykey']()), separator_alphabet=len(DICT_LATTICES['sepkeys']()),
                        deeper=(0 if tier == 'quick' else 27489), separators=['&', '/'],
                        replace_pairs='depth-1 x depth-1 (65x65) x default x check flag' + ('' if tier == 'quick' else ' + design x depth-1 both ways')),
      pytrees=dict(max_leaves=3, structures='tuples/dicts nesting depth<=2 + lists/None/empty containers', pack_sizes=[1, 2, 3],
                   stack_shapes=[[], [2], [2, 3], [1, 2, 3]], split_indices=[0, 1, 2, 3]),
  )


def units(tier, seed):
  amps = sorted({p[0] for p in core.palette(seed, tier)}, reverse=True)  # quick: one amplitude, thorough: 1.0 and 0.75
  us = [dict(kind='extra_coords')]
  # dictionaries
  for lattice, n in (('design', 4), ('emptykey', 2), ('sepkeys', 1)) + ((('deeper', 24),) if tier == 'thorough' else ()):
    for sep in ('&', '/'):
      if lattice == 'deeper' and sep == '/':
        continue
      for c in range(n):
        us.append(dict(kind='dicts', lattice=lattice, sep=sep, chunk=c, nchunks=n))
  nrep = 4 if tier == 'quick' else 32
  for c in range(nrep):
    us.append(dict(kind='replace', tier=tier, chunk=c, nchunks=nrep))
  # pytrees
  for op in ('pack', 'stack', 'split', 'split_axis'):
    for n in (1, 2, 3):
      us.append(dict(kind='pytrees', op=op, n=n))
  # coordinate systems
  verts = _vertical_specs(tier)
  for spec in _grid_specs(tier):
    us.append(dict(kind='coords', grid=list(spec), verticals=verts))
  # states
  sg, sv = _state_coords(tier)
  for g in sg:
    for layout in LAYOUTS:
      for v in sv:
        us.append(dict(kind='states', grid=list(g), layout=layout, vertical=list(v), amps=amps))
  # spectral
  glist = _spectral_grids(tier)
  for i in range(len(glist)):
    for layout in LAYOUTS:
      us.append(dict(kind='spectral', source=i, grids=[list(g) for g in glist], layout=layout, amps=amps))
  return us


# ---------------------------------------------------------------------------------------------------
# builders on the real code
# ---------------------------------------------------------------------------------------------------

def _impl(layout):
  from dinosaur import spherical_harmonic as sh
  return {'real': sh.RealSphericalHarmonics, 'fast': sh.FastSphericalHarmonics}[layout]


def _grid(spec, spacing='gauss', offset=0.0, radius=None, layout='real'):
  from dinosaur import spherical_harmonic as sh
  kw = dict(latitude_spacing=spacing, longitude_offset=offset, radius=radius, spherical_harmonics_impl=_impl(layout))
  spec = tuple(spec)
  if spec[0] == 'ww':
    return sh.Grid.with_wavenumbers(spec[1], dealiasing=spec[2], **kw)
  if spec[0] == 'construct':
    return sh.Grid.construct(spec[1], spec[2], **kw)
  return sh.Grid(longitude_wavenumbers=spec[1], total_wavenumbers=spec[2], longitude_nodes=spec[3], latitude_nodes=spec[4], **kw)


def _vertical(spec):
  from dinosaur import sigma_coordinates as sc, layer_coordinates as lc, vertical_interpolation as vi
  if spec[0] == 'sigma':
    return sc.SigmaCoordinates(np.asarray(spec[1]))
  if spec[0] == 'layer':
    return lc.LayerCoordinates(spec[1])
  return vi.PressureCoordinates(list(spec[1]))


def _same_discretisation(rec, key, c2, numbers, spacing, offset, radius, vspec, vert):
  """Asserts that coordinate system c2 has the discretisation described by the inputs (and by `vert`)."""
  h = c2.horizontal
  got = (h.longitude_wavenumbers, h.total_wavenumbers, h.longitude_nodes, h.latitude_nodes)
  rec.check(tuple(got) == tuple(numbers) and all(isinstance(x, (int, np.integer)) for x in got),
            'attrs_wavenumber_and_node_counts', key, {'got': list(got), 'want': list(numbers)})
  rec.check(h.latitude_spacing == spacing, 'attrs_latitude_spacing', key, {'got': h.latitude_spacing, 'want': spacing})
  rec.check(isinstance(h.longitude_offset, float) and h.longitude_offset == offset, 'attrs_longitude_offset', key,
            {'got': h.longitude_offset, 'want': offset})
  want_r = 1.0 if radius is None else radius
  rec.check(isinstance(h.radius, float) and h.radius == want_r, 'attrs_radius', key, {'got': h.radius, 'want': want_r})
  v2 = c2.vertical
  cls = {'sigma': 'SigmaCoordinates', 'layer': 'LayerCoordinates', 'pressure': 'PressureCoordinates'}[vspec[0]]
  if not rec.check(type(v2).__name__ == cls and type(v2) is type(vert), 'attrs_vertical_class', key,
                   {'got': type(v2).__name__, 'want': cls}):
    return
  nlayers = {'sigma': lambda: len(vspec[1]) - 1, 'layer': lambda: vspec[1], 'pressure': lambda: len(vspec[1])}[vspec[0]]()
  rec.check(v2.layers == nlayers, 'attrs_layer_count', key, {'got': v2.layers, 'want': nlayers})
  if vspec[0] == 'sigma':
    rec.exact(np.asarray(v2.boundaries), np.asarray(vspec[1], dtype=np.float64), site='attrs_sigma_boundaries', key=key)
    rec.exact(np.asarray(v2.centers), np.asarray(vert.centers), site='attrs_sigma_centres_bits', key=key)
    rec.close(v2.centers, rt.sigma_centres(vspec[1]), scale=1.0, site='attrs_sigma_centres_vs_ref', key=key)
  elif vspec[0] == 'pressure':
    rec.exact(np.asarray(v2.centers), np.asarray(vspec[1]), site='attrs_pressure_centres', key=key)
  else:
    rec.exact(np.asarray(v2.centers), np.arange(vspec[1]), site='attrs_layer_centres', key=key)


# ---------------------------------------------------------------------------------------------------
# work
# ---------------------------------------------------------------------------------------------------

def work(unit, rec):
  {'dicts': _work_dicts, 'replace': _work_replace, 'pytrees': _work_pytrees, 'coords': _work_coords,
   'states': _work_states, 'spectral': _work_spectral, 'extra_coords': _work_extra_coords}[unit['kind']](unit, rec)


def _work_extra_coords(unit, rec):
  """data_to_xarray with a caller-supplied additional coordinate: dimension names are inferred from shapes, so a
  coordinate whose length equals the number of levels is ambiguous and is documented to be refused (ValueError); any
  other length must label its own fields and leave the vertical axis of every 3-d field named `level`."""
  from dinosaur import xarray_utils as xu
  from dinosaur import coordinate_systems as cs, sigma_coordinates as sc, spherical_harmonic as sh
  for K in (1, 2, 3, 5):
    grid = sh.Grid.with_wavenumbers(4)
    coords = cs.CoordinateSystem(grid, sc.SigmaCoordinates.equidistant(K))
    ms = grid.modal_shape
    # length 1 is left out: a leading singleton axis is the library's own `surface` convention (shape-based inference)
    for n in sorted(x for x in {K - 1, K, K + 1, K + 3} if x >= 2 or x == K):
      key = ('extra_coords', K, n)
      member = np.arange(n, dtype=np.float64) * 10.0
      data = {'vorticity': np.arange(K * ms[0] * ms[1], dtype=np.float64).reshape((K,) + ms),
              'per_member': np.arange(n * ms[0] * ms[1], dtype=np.float64).reshape((n,) + ms) + 0.5}
      try:
        ds = xu.data_to_xarray(data, coords=coords, times=None, additional_coords={'member': member})
        err = None
      except ValueError as e:
        ds, err = None, str(e)[:160]
      rec.case(key, transitions=1, outcome=(err is None, n == K), sample={'levels': K, 'additional_coordinate_length': n, 'outcome': 'refused: ' + err if err else 'dataset'})
      if n == K:
        # ambiguous by construction: refusal is the documented outcome; a dataset is acceptable only if it is labelled correctly
        if err is not None:
          rec.note('ambiguous_additional_coordinate_refused_as_documented')
          continue
      else:
        if not rec.check(err is None, 'additional_coordinate_accepted', key, {'error': err}):
          continue
      ok = ds['vorticity'].dims[0] == xu.XR_LEVEL_NAME and xu.XR_LEVEL_NAME in ds.coords and \
          bool(np.array_equal(np.asarray(ds.coords[xu.XR_LEVEL_NAME]), np.asarray(coords.vertical.centers)))
      rec.check(ok, 'vertical_axis_keeps_the_level_dimension', key, {'dims': list(ds['vorticity'].dims), 'coords': sorted(map(str, ds.coords))})
      if n != K:
        rec.check(ds['per_member'].dims[0] == 'member', 'additional_coordinate_labels_its_fields', key, {'dims': list(ds['per_member'].dims)})
      rec.exact(np.asarray(ds['vorticity'].values), data['vorticity'], site='values_unchanged_with_additional_coordinate', key=key)


# -- nested dictionaries -----------------------------------------------------------------------------

def _work_dicts(unit, rec):
  from dinosaur import pytree_utils as pu
  sep = unit['sep']
  skels = DICT_LATTICES[unit['lattice']]()[unit['chunk']::unit['nchunks']]
  for skel in skels:
    d = rt.instantiate(skel)
    key = ('flatten', unit['lattice'], sep, repr(skel))
    if not rec.want(key):
      continue
    rejected = rt.key_is_rejected(d, sep)
    weird = rt.has_empty_string_key_with_nonempty_dict(d)
    sig = {'empty_string_key': True} if weird else None
    try:
      flat, empty = pu.flatten_dict(d, sep=sep)
      err = None
    except ValueError as e:
      flat = empty = None
      err = 'ValueError: ' + str(e)[:120]
    except Exception as e:  # any other exception type is never a documented rejection
      flat = empty = None
      err = type(e).__name__ + ': ' + str(e)[:120]
    if rejected:
      rec.case(key, outcome=('rejected', err), nontrivial=False,
               sample={'dictionary': d, 'sep': sep, 'expected': 'rejected: a key contains the separator', 'got': err})
      rec.check(err is not None and err.startswith('ValueError') and 'contains' in err, 'separator_in_key_rejected', key,
                {'dictionary': d, 'sep': sep, 'got': err if err else {'flat': flat, 'empty': list(empty)}})
      continue
    if err is not None:
      rec.case(key, outcome=('raised', err), nontrivial=False)
      rec.fail('flatten_unflatten_identity', key, {'dictionary': d, 'sep': sep, 'raised': err}, sig)
      continue
    try:
      back = pu.unflatten_dict(flat, empty, sep=sep)
    except Exception as e:
      rec.case(key, outcome=('unflatten raised',), nontrivial=False)
      rec.fail('flatten_unflatten_identity', key, {'dictionary': d, 'sep': sep, 'unflatten_raised': type(e).__name__ + ': ' + str(e)[:120]}, sig)
      continue
    rec.case(key, transitions=2, outcome=(tuple(sorted(flat.items())), tuple(sorted(empty))),
             sample={'dictionary': d, 'sep': sep, 'flat': flat, 'empty_keys': list(empty)})
    want_flat, want_empty = rt.flatten_model(d, sep)
    flat_ok = (isinstance(flat, dict) and flat == want_flat and isinstance(empty, tuple) and sorted(empty) == sorted(want_empty)
               and len(empty) == len(want_empty))
    ident_ok = back == d
    detail = {'dictionary': d, 'sep': sep, 'flat': flat, 'empty_keys': list(empty), 'unflattened': back}
    if weird:
      rec.check(flat_ok and ident_ok, 'flatten_unflatten_identity', key, detail, sig)
    else:
      rec.check(ident_ok, 'flatten_unflatten_identity', key, detail)
      rec.check(flat_ok, 'flat_form_is_joined_paths', key, dict(detail, want_flat=want_flat, want_empty=list(want_empty)))
    # the flat form is itself a (flat) dictionary: it must survive its own round trip, empty keys excluded
    if flat_ok and not weird:
      f2, e2 = pu.flatten_dict(back, sep=sep)
      rec.check(f2 == flat and sorted(e2) == sorted(empty), 'flatten_of_unflatten_is_identity', key, {'flat': flat, 'again': f2})


def _replace_pairs(tier):
  d1 = [d for d in _depth1() if len(d) <= 3]
  pairs = [(x, r) for x in d1 for r in d1]
  if tier == 'thorough':
    design = rt.design_dictionaries()
    seen = {(repr(x), repr(r)) for x, r in pairs}
    for x in design:
      for r in d1:
        for p in ((x, r), (r, x)):
          k = (repr(p[0]), repr(p[1]))
          if k not in seen:
            seen.add(k)
            pairs.append(p)
  return pairs


def _work_replace(unit, rec):
  from dinosaur import pytree_utils as pu
  pairs = _replace_pairs(unit['tier'])[unit['chunk']::unit['nchunks']]
  for xs, rskel in pairs:
    x = rt.instantiate(xs, 'x')
    r = rt.instantiate(rskel, 'r')
    for default in (None, 0):
      for check_used in (True, False):
        key = ('replace', repr(xs), repr(rskel), default, check_used)
        if not rec.want(key):
          continue
        try:
          want = rt.replace_model(x, r, default, check_used)
        except rt.Rejected:
          want = 'rejected'
        try:
          got = pu.replace_with_matching_or_default(x, r, default, check_used)
        except ValueError as e:
          got = 'rejected'
        rec.case(key, outcome=repr(got), nontrivial=got != 'rejected',
                 sample={'x': x, 'replace': r, 'default': default, 'check_used_all_replace_keys': check_used, 'result': got})
        rec.check(got == want, 'replace_with_matching_or_default_vs_path_model', key,
                  {'x': x, 'replace': r, 'default': default, 'check_used': check_used, 'got': got, 'want': want})


# -- pytrees -------------------------------------------------------------------------------------------

def _trees(n):
  out = [(repr(s), (lambda leaves, s=s: rt.materialise(s, leaves))) for s in rt.structures(n)]
  out += list(rt.extra_structures()[n])
  return out


def _leaf(shape, j, dtype=np.float64):
  size = int(np.prod(shape)) if len(shape) else 1
  return (100.0 * (j + 1) + np.arange(size, dtype=dtype)).reshape(shape)


def _exact_all(rec, items, site, key, sig=None):
  """ONE oracle evaluation per (site, key): every (label, got, want) pair must be bit-identical (shape, dtype, bytes)."""
  bad = []
  for label, got, want in items:
    a, b = np.asarray(got), np.asarray(want)
    if not (a.shape == b.shape and a.dtype == b.dtype and bool(np.array_equal(a, b, equal_nan=a.dtype.kind in 'fc'))):
      d = {'leaf': label, 'shape_got': list(a.shape), 'shape_want': list(b.shape), 'dtype_got': str(a.dtype), 'dtype_want': str(b.dtype)}
      if a.shape == b.shape and a.size and a.dtype.kind in 'fiu' and b.dtype.kind in 'fiu':
        d['max_abs_diff'] = float(np.nanmax(np.abs(a.astype(np.float64) - b.astype(np.float64))))
      bad.append(d)
  return rec.check(not bad, site, key, {'failed_leaves': len(bad), 'of': len(items), 'labels': [d['leaf'] for d in bad][:8],
                                        'first': bad[0] if bad else None}, sig)


def _compare_tree(rec, got, want, site, key):
  """structure (types, keys, arity) and every leaf bit for bit"""
  if not rec.check(rt.same_structure(got, want), site + ':structure', key, {'got': repr(got)[:300], 'want': repr(want)[:300]}):
    return False
  pairs = list(zip(rt.leaves_in_order(got), rt.leaves_in_order(want)))
  return _exact_all(rec, [(i, a, b) for i, (a, b) in enumerate(pairs)], site, key)


def _tree_bytes(t):
  return b''.join(np.ascontiguousarray(np.asarray(x)).tobytes() for x in rt.leaves_in_order(t))


def _with_axis(size, axis, ndim):
  base = [2, 3, 2, 2][:ndim]
  base[axis] = size
  return tuple(base)


def _work_pytrees(unit, rec):
  import jax
  import jax.numpy as jnp
  from dinosaur import pytree_utils as pu
  n, op = unit['n'], unit['op']
  trees = _trees(n)

  if op == 'pack':
    for name, build in trees:
      for axis, ndim in ((0, 3), (-1, 3), (1, 3), (-3, 4), (-3, 3)):
        for sizes in itertools.product((1, 2, 3), repeat=n):
          key = ('pack', name, axis, ndim, list(sizes))
          if not rec.want(key):
            continue
          leaves = [_leaf(_with_axis(s, axis, ndim), j) for j, s in enumerate(sizes)]
          t = build(leaves)
          packed = pu.pack_pytree(t, axis)
          shapes = pu.shape_structure(t)
          back = pu.unpack_to_pytree(packed, shapes, axis)
          rec.case(key, transitions=2, outcome=np.asarray(packed).tobytes(),
                   sample={'op': 'pack/unpack', 'tree': repr(jax.tree_util.tree_map(lambda a: a.shape, t)), 'axis': axis})
          rec.exact(np.asarray(packed), np.concatenate(leaves, axis), site='pack_is_concatenation_in_leaf_order', key=key)
          _compare_tree(rec, back, t, 'unpack_of_pack_is_identity', key)
    key = ('pack_empty', n)
    rec.case(key, outcome=None, nontrivial=False)
    rec.check(pu.pack_pytree({'a': {}, 'b': ()}) is None and pu.stack_pytree([]) is None, 'empty_tree_packs_to_none', key)
    return

  if op == 'stack':
    for name, build in trees:
      for shape in ((), (2,), (2, 3), (1, 2, 3)):
        nd = len(shape)
        for axis in range(-(nd + 1), nd + 1):
          key = ('stack', name, list(shape), axis)
          if not rec.want(key):
            continue
          leaves = [_leaf(shape, j) for j in range(n)]
          t = build(leaves)
          stacked = pu.stack_pytree(t, axis)
          back = pu.unstack_to_pytree(stacked, pu.shape_structure(t), axis)
          rec.case(key, transitions=2, outcome=np.asarray(stacked).tobytes(),
                   sample={'op': 'stack/unstack', 'tree': name, 'leaf_shape': list(shape), 'axis': axis})
          rec.exact(np.asarray(stacked), np.stack(leaves, axis), site='stack_is_stack_in_leaf_order', key=key)
          _compare_tree(rec, back, t, 'unstack_of_stack_is_identity', key)
    return

  alphabets = {0: ((3,), (3, 2), (3, 1, 2)), 1: ((2, 3), (1, 3, 2), (2, 3, 1))}
  if op == 'split':
    for name, build in trees:
      for axis, alpha in alphabets.items():
        for shapes in itertools.product(alpha, repeat=n):
          leaves = [_leaf(s, j) for j, s in enumerate(shapes)]
          t = build(leaves)
          for idx in range(0, 4):
            key = ('split', name, axis, [list(s) for s in shapes], idx)
            if not rec.want(key):
              continue
            first, second = pu.split_along_axis(t, idx, axis)
            joined = pu.concat_along_axis([first, second], axis)
            rec.case(key, transitions=2, outcome=_tree_bytes(first) + b'|' + _tree_bytes(second),
                     sample={'op': 'split_along_axis/concat_along_axis', 'tree': name, 'shapes': [list(s) for s in shapes],
                             'axis': axis, 'split_idx': idx})
            sl = lambda a, lo, hi: a[(slice(None),) * axis + (slice(lo, hi),)]
            _compare_tree(rec, first, build([sl(a, 0, idx) for a in leaves]), 'split_first_part', key)
            _compare_tree(rec, second, build([sl(a, idx, None) for a in leaves]), 'split_second_part', key)
            _compare_tree(rec, joined, t, 'concat_of_split_is_identity', key)
      # same number of dimensions declared (expect_same_dims=True), positive and negative axis
      for shapes in itertools.product(((2, 3, 2), (1, 3, 2)), repeat=n):
        leaves = [_leaf(s, j) for j, s in enumerate(shapes)]
        t = build(leaves)
        for axis in (1, -2):
          for idx in range(0, 4):
            key = ('split_same_dims', name, axis, [list(s) for s in shapes], idx)
            if not rec.want(key):
              continue
            try:
              first, second = pu.split_along_axis(t, idx, axis, expect_same_dims=True)
            except ValueError:
              if axis >= 0:
                raise
              # slice_along_axis rejects every negative axis (its message names expect_same_dims=False only); a
              # rejection loses nothing, so it is counted and not asserted
              rec.note('negative_axis_rejected_although_expect_same_dims=True(not asserted)')
              continue
            joined = pu.concat_along_axis([first, second], axis)
            rec.case(key, transitions=2, outcome=_tree_bytes(first) + b'|' + _tree_bytes(second))
            _compare_tree(rec, first, build([a[:, :idx] for a in leaves]), 'split_first_part', key)
            _compare_tree(rec, second, build([a[:, idx:] for a in leaves]), 'split_second_part', key)
            _compare_tree(rec, joined, t, 'concat_of_split_is_identity', key)
      # documented rejections
      key = ('split_rejections', name)
      if rec.want(key):
        leaves = [_leaf((3, 2), j) for j in range(n)]
        t = build(leaves)
        try:
          pu.split_along_axis(t, 1, -1)
          raised = False
        except ValueError:
          raised = True
        rec.case(key, outcome=None, nontrivial=False)
        rec.check(raised, 'negative_axis_without_same_dims_rejected', key)
        if n >= 2:
          mixed = build([_leaf((3, 2), 0)] + [_leaf((3,), j) for j in range(1, n)])
          try:
            pu.split_along_axis(mixed, 1, 0, expect_same_dims=True)
            raised = False
          except ValueError:
            raised = True
          rec.check(raised, 'mixed_ndims_with_same_dims_rejected', key)
    return

  if op == 'split_axis':
    for name, build in trees:
      for axis, alpha in list(alphabets.items()) + [(-1, ((2, 3), (1, 3), (2, 1, 3)))]:
        pos = axis
        for shapes in itertools.product(alpha, repeat=n):
          for size in (1, 2, 3):
            shp = [tuple(size if (i == (pos % len(s))) else v for i, v in enumerate(s)) for s in shapes]
            leaves = [_leaf(s, j) for j, s in enumerate(shp)]
            t = build(leaves)
            for keep in (True, False):
              key = ('split_axis', name, axis, [list(s) for s in shp], keep)
              if not rec.want(key):
                continue
              parts = pu.split_axis(t, axis, keep_dims=keep)
              rec.case(key, transitions=size + 1, outcome=b'|'.join(_tree_bytes(p) for p in parts),
                       sample={'op': 'split_axis', 'tree': name, 'shapes': [list(s) for s in shp], 'axis': axis, 'keep_dims': keep})
              if not rec.check(isinstance(parts, tuple) and len(parts) == size, 'split_axis_part_count', key,
                               {'got': len(parts), 'want': size}):
                continue
              wants = [build([np.take(a, [i] if keep else i, axis=axis) for a in leaves]) for i in range(size)]
              _compare_tree(rec, list(parts), wants, 'split_axis_part_is_slice', key)
              if keep:
                joined = pu.concat_along_axis(parts, axis)
              else:
                joined = jax.tree_util.tree_map(lambda *xs: jnp.stack(xs, axis), *parts)
              _compare_tree(rec, joined, t, 'rejoined_split_axis_is_identity', key)
      if n >= 2:
        key = ('split_axis_unequal', name)
        if rec.want(key):
          t = build([_leaf((2, 3), 0)] + [_leaf((3, 3), j) for j in range(1, n)])
          try:
            pu.split_axis(t, 0)
            raised = False
          except ValueError:
            raised = True
          rec.case(key, outcome=None, nontrivial=False)
          rec.check(raised, 'split_axis_unequal_sizes_rejected', key)
    return
  raise ValueError(op)


# -- coordinate systems <-> attrs ---------------------------------------------------------------------------

def _work_coords(unit, rec):
  import xarray
  from dinosaur import coordinate_systems as cs
  from dinosaur import xarray_utils as xu
  spec = tuple(unit['grid'])
  numbers = grid_numbers(spec)
  verts = [(tuple(v), _vertical(v)) for v in unit['verticals']]
  for spacing in SPACINGS:
    for offset in OFFSETS:
      for radius in RADII:
        for layout in LAYOUTS:
          grid = _grid(spec, spacing, offset, radius, layout)
          for vspec, vert in verts:
            key = ('coords', list(spec), spacing, offset, radius, layout, [vspec[0], vspec[1]])
            if not rec.want(key):
              continue
            c = cs.CoordinateSystem(grid, vert)
            ds = xarray.Dataset(attrs=c.asdict())
            c2 = xu.coordinate_system_from_attrs(ds.attrs)
            h = c2.horizontal
            rec.case(key, transitions=2,
                     outcome=(h.longitude_wavenumbers, h.total_wavenumbers, h.longitude_nodes, h.latitude_nodes, h.latitude_spacing,
                              h.longitude_offset, h.radius, type(c2.vertical).__name__, np.asarray(c2.vertical.centers).tobytes()),
                     sample={'grid': list(spec), 'numbers(M,L,nlon,nlat)': list(numbers), 'spacing': spacing, 'offset': offset,
                             'radius': radius, 'layout': layout, 'vertical': [vspec[0], vspec[1]],
                             'attrs': {k: ds.attrs[k] for k in sorted(ds.attrs)}})
            _same_discretisation(rec, key, c2, numbers, spacing, offset, radius, vspec, vert)


# -- states <-> labelled datasets ------------------------------------------------------------------------------

def _work_states(unit, rec):
  import jax.numpy as jnp
  from dinosaur import coordinate_systems as cs
  from dinosaur import xarray_utils as xu
  spec, layout, vspec = tuple(unit['grid']), unit['layout'], tuple(unit['vertical'])
  numbers = grid_numbers(spec)
  offset, radius = 0.3, 2.5
  grid = _grid(spec, 'gauss', offset, radius, layout)
  vert = _vertical(vspec)
  coords = cs.CoordinateSystem(grid, vert)
  K = vert.layers
  modal, nodal = tuple(grid.modal_shape), tuple(grid.nodal_shape)
  M, L = numbers[0], numbers[1]
  rec.check(modal == rt.modal_shape(layout, M, L), 'modal_shape_vs_layout_model', ('states', list(spec), layout), {'got': modal})
  distinct_shapes = modal != nodal
  amp = unit['amps'][0]
  tracer_sets = [ts for r in range(0, 4) for ts in itertools.combinations(TRACER_NAMES, r)]
  axes = [None, 1, 2, 3]
  tag = [list(spec), layout, [vspec[0], vspec[1]]]

  def field(shape, j, dtype):
    size = int(np.prod(shape)) if len(shape) else 1
    x = amp * (1000.0 * (j + 1) + np.arange(size)) / 8.0   # distinct per variable, exactly representable in float32
    return np.asarray(x, dtype=dtype).reshape(shape)

  def run_case(key, kind, data, roles, rep, S, T, reader, sample):
    """data: state dictionary; roles: {name: 'volume'|'surface'|'scalar'} for every leaf (tracers flattened)."""
    times = None if T is None else 0.25 * np.arange(T)
    sample_ids = None if S is None else np.arange(S) + 10
    try:
      ds = xu.data_to_xarray(data, coords=coords, times=times, sample_ids=sample_ids)
    except ValueError as e:
      if K == 1 and rep == 'nodal':
        rec.note('single_layer_nodal_state_rejected_by_shape_inference(not asserted)')
        return
      if not distinct_shapes:
        rec.note('modal_shape_equals_nodal_shape(state rejected, not asserted)')
        return
      rec.case(key, outcome=('raised',), nontrivial=False, sample=sample)
      rec.fail('data_to_xarray_accepts_state', key, {'raised': 'ValueError: ' + str(e)[:200]})
      return
    back = reader(ds)
    flat_in = {k: v for k, v in data.items() if k != 'tracers'}
    flat_in.update(data.get('tracers', {}))
    dims = {k: tuple(ds[k].dims) for k in flat_in}
    rec.case(key, transitions=2,
             outcome=b''.join(np.ascontiguousarray(ds[k].values).tobytes() for k in sorted(flat_in)) + repr(sorted(dims.items())).encode(),
             sample=dict(sample, dims=dims, sizes=dict(ds.sizes)))
    # names of the dimensions
    wrong = {}
    for name, role in roles.items():
      if not distinct_shapes and role != 'scalar':
        rec.note('modal_shape_equals_nodal_shape(dimension names not asserted)')
        continue
      if K == 1 and role == 'surface':
        rec.note('surface_field_in_single_layer_system(dimension name not asserted)')
        continue
      want = rt.expected_dims(role, rep, S is not None, T is not None)
      if dims[name] != want:
        wrong[name] = {'got': list(dims[name]), 'want': list(want)}
    rec.check(not wrong, 'dimension_names', key, {'variables': sorted(wrong), 'first': wrong[sorted(wrong)[0]] if wrong else None})
    # coordinate labels of the dimensions in use
    sizes = dict(ds.sizes)
    want_sizes = {}
    if S is not None:
      want_sizes['sample'] = S
    if T is not None:
      want_sizes['time'] = T
    rec.check(all(sizes.get(k) == v for k, v in want_sizes.items()), 'axis_sizes', key, {'got': sizes, 'want': want_sizes})
    if S is not None and 'sample' in ds.coords:
      rec.exact(ds['sample'].values, sample_ids, site='sample_labels', key=key)
    if T is not None and 'time' in ds.coords:
      rec.exact(ds['time'].values, times, site='time_labels', key=key)
    if 'level' in ds.coords and distinct_shapes:
      rec.exact(ds['level'].values, np.asarray(vert.centers), site='level_labels', key=key)
    if 'longitudinal_mode' in ds.coords and distinct_shapes:
      rec.exact(ds['longitudinal_mode'].values.astype(np.int64), np.asarray(rt.signed_wavenumbers(layout, M), dtype=np.int64),
                site='longitudinal_mode_labels', key=key)
      rec.exact(ds['total_wavenumber'].values.astype(np.int64), np.arange(L, dtype=np.int64), site='total_wavenumber_labels', key=key)
    if 'lon' in ds.coords and distinct_shapes:
      rec.close(ds['lon'].values, (offset + 2 * np.pi * np.arange(numbers[2]) / numbers[2]) * 180 / np.pi, scale=360.0,
                site='longitude_labels', key=key)
      rec.check(ds['lat'].values.shape == (numbers[3],) and bool(np.all(np.diff(ds['lat'].values) > 0)) and
                bool(np.all(np.abs(ds['lat'].values) < 90)), 'latitude_labels_increasing_in_range', key)
    # bit-identical read back, same dictionary structure
    want_keys = sorted(data)
    if not rec.check(isinstance(back, dict) and sorted(back) == want_keys, 'read_back_keys', key,
                     {'got': sorted(back) if isinstance(back, dict) else repr(type(back)), 'want': want_keys}):
      return
    items = []
    for k in want_keys:
      if k == 'tracers':
        if rec.check(sorted(back[k]) == sorted(data[k]), 'read_back_tracer_names', key, {'got': sorted(back[k]), 'want': sorted(data[k])}):
          items += [('tracers/' + tname, back[k][tname], data[k][tname]) for tname in data[k]]
      else:
        items.append((k, back[k], data[k]))
    _exact_all(rec, items, 'read_back_bit_identical', key)
    # the dataset carries the coordinate system
    c2 = xu.coordinate_system_from_attrs(ds.attrs)
    _same_discretisation(rec, key, c2, numbers, 'gauss', offset, radius, vspec, vert)

  for rep in ('modal', 'nodal'):
    hor = modal if rep == 'modal' else nodal
    for dtype in (np.float64, np.float32):
      dname = np.dtype(dtype).name
      for S in axes:
        for T in axes:
          lead = (() if S is None else (S,)) + (() if T is None else (T,))
          # primitive-equation states, with and without sim_time, every tracer subset
          for with_time in (False, True):
            for ts in tracer_sets:
              kind = 'primitive_with_time' if with_time else 'primitive'
              key = ('state', tag, kind, list(ts), S, T, rep, dname)
              if not rec.want(key):
                continue
              data, roles = {}, {}
              for j, name in enumerate(('vorticity', 'divergence', 'temperature_variation')):
                data[name] = field(lead + (K,) + hor, j, dtype)
                roles[name] = 'volume'
              data['log_surface_pressure'] = field(lead + (1,) + hor, 3, dtype)
              roles['log_surface_pressure'] = 'surface'
              if with_time:
                data['sim_time'] = field(lead, 4, dtype)
                roles['sim_time'] = 'scalar'
              data['tracers'] = {}
              for j, name in enumerate(ts):
                data['tracers'][name] = field(lead + (K,) + hor, 5 + TRACER_NAMES.index(name), dtype)
                roles[name] = 'volume'
              fn = xu.xarray_to_primitive_equations_with_time_data if with_time else xu.xarray_to_primitive_eq_data
              run_case(key, kind, data, roles, rep, S, T, lambda ds, fn=fn, ts=ts: fn(ds, tracers_to_include=ts),
                       {'kind': kind, 'grid': list(spec), 'layout': layout, 'vertical': [vspec[0], vspec[1]], 'tracers': list(ts),
                        'sample_axis': S, 'time_axis': T, 'representation': rep, 'dtype': dname})
          # shallow water
          key = ('state', tag, 'shallow_water', [], S, T, rep, dname)
          if rec.want(key):
            data = {name: field(lead + (K,) + hor, j, dtype) for j, name in enumerate(('vorticity', 'divergence', 'potential'))}
            run_case(key, 'shallow_water', data, {k: 'volume' for k in data}, rep, S, T, xu.xarray_to_shallow_water_eq_data,
                     {'kind': 'shallow_water', 'grid': list(spec), 'layout': layout, 'vertical': [vspec[0], vspec[1]],
                      'sample_axis': S, 'time_axis': T, 'representation': rep, 'dtype': dname})

      # generic nodal data dictionary (time, level, lon, lat): 3-d fields identical, 2-d fields gain the level axis
      if rep == 'nodal':
        for T in axes:
          key = ('data_dict', tag, T, dname)
          if not rec.want(key):
            continue
          if K == 1:
            rec.note('single_layer_nodal_state_rejected_by_shape_inference(not asserted)')
            continue
          if not distinct_shapes:
            rec.note('modal_shape_equals_nodal_shape(dimension names not asserted)')
            continue
          lead = () if T is None else (T,)
          data = {'u': field(lead + (K,) + nodal, 0, dtype), 'v': field(lead + (K,) + nodal, 1, dtype),
                  'sp': field(lead + nodal, 2, dtype)}
          times = None if T is None else 0.25 * np.arange(T)
          ds = xu.data_to_xarray(data, coords=coords, times=times)
          back = xu.xarray_to_data_dict(ds)
          rec.case(key, transitions=2, outcome=b''.join(np.ascontiguousarray(back[k]).tobytes() for k in sorted(back)),
                   sample={'kind': 'data_dict', 'grid': list(spec), 'time_axis': T, 'dims': {k: list(ds[k].dims) for k in data}})
          if rec.check(sorted(back) == sorted(data), 'read_back_keys', key, {'got': sorted(back)}):
            _exact_all(rec, [('u', back['u'], data['u']), ('v', back['v'], data['v'])], 'read_back_bit_identical', key)
            rec.exact(back['sp'], np.expand_dims(data['sp'], -3), site='surface_field_gains_level_axis', key=key)
          if distinct_shapes:
            tl = ('time',) if T is not None else ()
            rec.check(tuple(ds['u'].dims) == tl + ('level', 'lon', 'lat') and tuple(ds['sp'].dims) == tl + ('lon', 'lat'),
                      'dimension_names', key, {'u': list(ds['u'].dims), 'sp': list(ds['sp'].dims)})

  # documented rejection: a tracer named like a prognostic variable
  key = ('tracer_collision', tag)
  if rec.want(key):
    data = {name: field((K,) + modal, j, np.float64) for j, name in enumerate(('vorticity', 'divergence', 'temperature_variation'))}
    data['log_surface_pressure'] = field((1,) + modal, 3, np.float64)
    data['tracers'] = {'vorticity': field((K,) + modal, 4, np.float64)}
    try:
      xu.data_to_xarray(data, coords=coords, times=None)
      raised = False
    except ValueError:
      raised = True
    rec.case(key, outcome=None, nontrivial=False)
    rec.check(raised, 'tracer_name_collision_rejected', key)
  # jax arrays as leaves (the usual producer is a jax computation)
  key = ('jax_leaves', tag)
  if rec.want(key) and distinct_shapes:
    data = {name: field((2, K) + modal, j, np.float64) for j, name in enumerate(('vorticity', 'divergence', 'potential'))}
    jdata = {k: jnp.asarray(v) for k, v in data.items()}
    ds = xu.data_to_xarray(jdata, coords=coords, times=0.25 * np.arange(2))
    back = xu.xarray_to_shallow_water_eq_data(ds)
    rec.case(key, transitions=2, outcome=b''.join(np.asarray(back[k]).tobytes() for k in sorted(back)))
    _exact_all(rec, [(k, back[k], data[k]) for k in data], 'read_back_bit_identical', key)
    rec.check(all(tuple(ds[k].dims) == ('time', 'level') + rt.MODAL_DIMS for k in data), 'dimension_names', key,
              {'got': {k: list(ds[k].dims) for k in data}})

  # maybe_to_nodal / maybe_to_modal: leaves already in the requested representation and scalars are returned untouched,
  # the others are transformed (compared with the direct transform, bit for bit)
  key = ('maybe_to', tag)
  if rec.want(key) and distinct_shapes:
    tree = {'nodal': field((K,) + nodal, 0, np.float64), 'modal': field((K,) + modal, 1, np.float64) * np.asarray(grid.mask),
            'sim_time': np.float64(0.75), 'tracers': {'q': field((2, K) + nodal, 2, np.float64)}}
    as_nodal = cs.maybe_to_nodal(tree, coords)
    as_modal = cs.maybe_to_modal(tree, coords)
    rec.case(key, transitions=2, outcome=np.asarray(as_nodal['modal']).tobytes() + np.asarray(as_modal['nodal']).tobytes(),
             sample={'op': 'maybe_to_nodal/maybe_to_modal', 'grid': list(spec), 'layout': layout})
    if rec.check(rt.same_structure(as_nodal, tree) and rt.same_structure(as_modal, tree), 'maybe_to:structure', key):
      _exact_all(rec, [('nodal', as_nodal['nodal'], tree['nodal']), ('tracers/q', as_nodal['tracers']['q'], tree['tracers']['q'])],
                 'maybe_to_nodal_leaves_nodal_untouched', key)
      rec.exact(np.asarray(as_modal['modal']), tree['modal'], site='maybe_to_modal_leaves_modal_untouched', key=key)
      _exact_all(rec, [('to_nodal', as_nodal['sim_time'], tree['sim_time']), ('to_modal', as_modal['sim_time'], tree['sim_time'])],
                 'maybe_to_leaves_scalars_untouched', key)
      rec.exact(np.asarray(as_nodal['modal']), np.asarray(grid.to_nodal(tree['modal'])), site='maybe_to_nodal_is_the_transform', key=key)
      rec.exact(np.asarray(as_modal['nodal']), np.asarray(grid.to_modal(tree['nodal'])), site='maybe_to_modal_is_the_transform', key=key)


# -- spectral up / down sampling ----------------------------------------------------------------------------------

def _work_spectral(unit, rec):
  import jax
  from dinosaur import coordinate_systems as cs
  from dinosaur import sigma_coordinates as sc
  layout = unit['layout']
  specs = [tuple(g) for g in unit['grids']]
  src_spec = specs[unit['source']]
  vert = sc.SigmaCoordinates.equidistant(2)
  other_vert = sc.SigmaCoordinates.equidistant(3)
  Ms, Ls = grid_numbers(src_spec)[:2]

  def system(spec, offset, v=vert):
    return cs.CoordinateSystem(_grid(spec, 'gauss', offset, None, layout), v)

  def state_tree(shape, amp):
    n = shape[0] * shape[1]
    eye = amp * np.eye(n).reshape((n,) + shape)
    return {'basis': eye,
            'u': amp * (1.0 + np.arange(2 * n, dtype=np.float64)).reshape((2,) + shape),
            'log_surface_pressure': amp * (0.5 + np.arange(n, dtype=np.float64)).reshape((1,) + shape),
            'flat': amp * (0.25 + np.arange(n, dtype=np.float64)).reshape(shape),
            'sim_time': np.float64(0.75),
            'tracers': {'q': -amp * (2.0 + np.arange(3 * n, dtype=np.float64)).reshape((3,) + shape)}}

  def compare(got, x, src, dst, site, key):
    """every non-scalar leaf of got equals the label-wise relabelling of x; scalars untouched; same structure"""
    if not rec.check(rt.same_structure(got, x), site + ':structure', key, {'got': repr(jax.tree_util.tree_structure(got))}):
      return False
    ok = rec.exact(np.asarray(got['sim_time']), np.asarray(x['sim_time']), site=site + ':scalar_untouched', key=key)
    items = [(name, got[name], rt.relabel(x[name], layout, src, dst)) for name in ('basis', 'u', 'log_surface_pressure', 'flat')]
    items.append(('tracers/q', got['tracers']['q'], rt.relabel(x['tracers']['q'], layout, src, dst)))
    return _exact_all(rec, items, site, key) and ok

  for ti, dst_spec in enumerate(specs):
    Mt, Lt = grid_numbers(dst_spec)[:2]
    up_ok = Ms <= Mt and Ls <= Lt
    down_ok = Ms >= Mt and Ls >= Lt
    for amp in unit['amps']:
      offset = OFFSETS[(unit['source'] + ti) % 2]
      a, b = system(src_spec, offset), system(dst_spec, offset)
      sa, sb = tuple(a.horizontal.modal_shape), tuple(b.horizontal.modal_shape)
      tag = [list(src_spec), list(dst_spec), layout, amp]
      x = state_tree(sa, amp)

      # ---- up-sampling source -> target, then down-sampling back ---------------------------------
      key = ('up_down', tag)
      if rec.want(key):
        try:
          up = cs.get_spectral_upsample_fn(a, b)
        except ValueError:
          up = None
        if not up_ok:
          rec.case(key, outcome=None, nontrivial=False,
                   sample={'source(M,L)': [Ms, Ls], 'target(M,L)': [Mt, Lt], 'layout': layout, 'expected': 'rejected (target smaller)'})
          rec.check(up is None, 'upsample_to_smaller_grid_rejected', key, {'source': [Ms, Ls], 'target': [Mt, Lt]})
        elif rec.check(up is not None, 'upsample_accepts_larger_grid', key, {'source': [Ms, Ls], 'target': [Mt, Lt]}):
          rec.check(sa == rt.modal_shape(layout, Ms, Ls) and sb == rt.modal_shape(layout, Mt, Lt), 'modal_shape_vs_layout_model', key,
                    {'got': [list(sa), list(sb)]})
          rec.exact(np.asarray(b.horizontal.modal_axes[0]).astype(np.int64), np.asarray(rt.signed_wavenumbers(layout, Mt), dtype=np.int64),
                    site='modal_axis_labels_vs_layout_model', key=key)
          y = up(x)
          down = cs.get_spectral_downsample_fn(b, a)
          z = down(y)
          rec.case(key, transitions=2 * 6, outcome=np.asarray(y['basis']).tobytes(),
                   sample={'source(M,L)': [Ms, Ls], 'target(M,L)': [Mt, Lt], 'layout': layout, 'modal_shapes': [list(sa), list(sb)],
                           'basis_vectors': int(sa[0] * sa[1])})
          placed = compare(y, x, (Ms, Ls), (Mt, Lt), 'upsample_keeps_every_coefficient_at_its_label', key)
          if rec.check(rt.same_structure(z, x), 'down_of_up_is_identity:structure', key):
            items = [(name, z[name], x[name]) for name in ('basis', 'u', 'log_surface_pressure', 'flat', 'sim_time')]
            _exact_all(rec, items + [('tracers/q', z['tracers']['q'], x['tracers']['q'])], 'down_of_up_is_identity', key)
          if placed:  # the synthesis needs an array of the finer grid's modal shape
            # same function on the finer grid: synthesis of the up-sampled basis vectors at the finer grid's nodes
            lon, mu = b.horizontal.nodal_axes
            Y = rt.harmonics(layout, Ms, Ls, np.asarray(lon) - offset, np.asarray(mu))
            want = amp * Y.reshape((sa[0] * sa[1],) + Y.shape[2:])
            got = np.asarray(b.horizontal.to_nodal(y['basis']))
            fscale = abs(amp) * max(1.0, float(np.abs(Y).max()))
            rec.close(got, want, scale=fscale, site='upsampled_is_same_function_on_finer_grid', key=key)
            # and it is the function the coarse truncation represents on those nodes (coarse wavenumbers, finer nodes)
            coarse_on_fine_nodes = dataclasses.replace(b.horizontal, longitude_wavenumbers=Ms, total_wavenumbers=Ls)
            got_c = np.asarray(coarse_on_fine_nodes.to_nodal(x['basis']))
            rec.close(got, got_c, scale=fscale, site='upsampled_synthesis_equals_coarse_synthesis', key=key)

      # ---- down-sampling source -> target (label-wise truncation) ----------------------------------
      key = ('down', tag)
      if rec.want(key):
        try:
          down = cs.get_spectral_downsample_fn(a, b)
        except ValueError:
          down = None
        if not down_ok:
          rec.case(key, outcome=None, nontrivial=False)
          rec.check(down is None, 'downsample_to_larger_grid_rejected', key, {'source': [Ms, Ls], 'target': [Mt, Lt]})
        elif rec.check(down is not None, 'downsample_accepts_smaller_grid', key, {'source': [Ms, Ls], 'target': [Mt, Lt]}):
          y = down(x)
          rec.case(key, transitions=6, outcome=np.asarray(y['basis']).tobytes(),
                   sample={'op': 'downsample', 'source(M,L)': [Ms, Ls], 'target(M,L)': [Mt, Lt], 'layout': layout})
          compare(y, x, (Ms, Ls), (Mt, Lt), 'downsample_is_labelwise_truncation', key)

      # ---- the dispatching entry point -------------------------------------------------------------------
      key = ('interpolate', tag)
      if rec.want(key):
        try:
          fn = cs.get_spectral_interpolate_fn(a, b)
        except ValueError:
          fn = None
        if fn is None:
          rec.case(key, outcome=None, nontrivial=False)
          if up_ok or down_ok:
            rec.note('get_spectral_interpolate_fn_rejects_comparable_pair(not asserted)')
          else:
            rec.note('incomparable_pair_rejected')
        else:
          rec.check(up_ok or down_ok, 'interpolate_fn_rejects_incomparable_pair', key, {'source': [Ms, Ls], 'target': [Mt, Lt]})
          if up_ok or down_ok:
            y = fn(x)
            rec.case(key, transitions=6, outcome=np.asarray(y['basis']).tobytes())
            compare(y, x, (Ms, Ls), (Mt, Lt), 'interpolate_fn_is_labelwise_relabelling', key)
    # different verticals: documented rejection unless switched off
    key = ('vertical_mismatch', [list(src_spec), list(dst_spec), layout])
    if rec.want(key) and (up_ok or down_ok):
      a, b = system(src_spec, 0.0), system(dst_spec, 0.0, other_vert)
      getter = cs.get_spectral_upsample_fn if up_ok else cs.get_spectral_downsample_fn
      try:
        getter(a, b)
        raised = False
      except ValueError:
        raised = True
      try:
        getter(a, b, expect_same_vertical=False)
        allowed = True
      except ValueError:
        allowed = False
      rec.case(key, outcome=None, nontrivial=False)
      rec.check(raised and allowed, 'vertical_mismatch_rejected_unless_disabled', key, {'raised': raised, 'allowed_when_disabled': allowed})
