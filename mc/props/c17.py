"""C17: vertical interpolation is exact on affine data with the documented extrapolation.

Bounded-exhaustive enumeration on the real code, compared with mc.ref.interp (independent piecewise-linear
interpolants with the three documented extrapolations) and with the closed forms the property states:

  nodes1d    every strictly increasing node set of size 2..4 of the dyadic lattice {0,1/4,1/2,3/4,1,3/2,2}
             x every data vector of {-1,0,2}^k (+ 3 affine profiles) x amplitude x every query of step 1/16 in
             [-1,3] (exact arithmetic: node hits, ties and range ends are well defined) through `interp`
             (scalar and array queries), `_dot_interp` (accelerator path, called directly),
             `vertical_interpolation`, `linear_interp_with_linear_extrap`,
             `_linear_interp_with_safe_extrap(n=0..3)`, `vectorize_vertical_interpolation(fn)` on
             (lead, level, x, y) fields with a different query order in every column, and
             `primitive_equations._vertical_interp` with 1-D / 3-D targets.
  vinterp3d  `_vertical_interp` with per-column node sets (3-D source coordinates).
  psigma     interp_pressure_to_sigma / interp_sigma_to_pressure / their composition on affine columns and on
             every unit column, sigma level sets on the tenths lattice x pressure level sets x surface pressures.
  hybrid     interp_hybrid_to_sigma for small hybrid level sets (and ECMWF137 / UFS127 in the thorough tier).
  surfp      get_surface_pressure on every strictly decreasing geopotential column of a lattice and on affine
             columns, all node sets as pressure levels, orography lattice, three gravity values.
  semilag    semi_lagrangian_vertical_advection_step with dt = 0 (any state) and with dt != 0 on a motionless
             state is the identity, every single-coefficient excitation on top of a fixed background.
  hgrid      BilinearRegridder / NearestRegridder reproduce constants on every grid pair and are the identity
             (every nodal unit field) between equal grids.
"""
import functools
import itertools
import re
from fractions import Fraction

import numpy as np

from mc import core
from mc.ref import interp as ri

ID = 'C17'
TECHNIQUE = ('bounded-exhaustive enumeration (explicit-state) of node sets x data x query lattice x routine against '
             'reference piecewise-linear interpolants and closed forms')
ASSUMPTIONS = [
    'numpy float64 / fractions arithmetic of the reference model (mc/ref/interp.py)',
    'interpolation is linear in the data: {-1,0,2}^k, unit columns and affine profiles span the data space of '
    'every enumerated node set; in the query point the statement covers the enumerated lattice only',
    '`_dot_interp` is called directly on CPU (the platform switch in `interp` itself cannot be taken without a TPU)',
    'range-end membership is asserted only for exact ties (all operands exactly representable) or clear cases; '
    'targets within 64 round-offs of an extrapolation range end are counted, not asserted',
    'node sets / level sets / grids beyond the enumerated lattices are not covered',
]
RULE = ('case = (routine, node or level set, data vector / profile / unit column / grid pair, amplitude); its '
        'transitions are the query points (or columns x levels) evaluated by the real routine; distinct = distinct '
        'canonical key; distinct_nontrivial counts distinct output byte patterns of the implementation')

PS = np.array([[[400.0, 500.0, 600.0, 700.0, 800.0], [900.0, 1000.0, 1013.25, 1050.0, 1100.0]]])
PS_HYBRID = np.array([[[500.0, 600.0, 700.0, 800.0, 900.0], [1000.0, 1013.25, 1050.0, 1100.0, 650.0]]])
PRESSURE_SETS = {
    'A7': [100.0, 200.0, 300.0, 500.0, 700.0, 850.0, 1000.0],
    'B5': [300.0, 400.0, 500.0, 700.0, 850.0],
    'C2': [250.0, 1000.0],
    'D13': [50.0, 100.0, 150.0, 200.0, 250.0, 300.0, 400.0, 500.0, 600.0, 700.0, 850.0, 925.0, 1000.0],
}
HYBRIDS = {
    'h3': ([0.0, 400.0, 300.0, 0.0], [0.0, 0.0, 0.5, 1.0]),
    'h7': ([0.0, 30.0, 75.0, 200.0, 300.0, 300.0, 150.0, 0.0], [0.0, 0.0, 0.0, 0.0, 0.15, 0.4, 0.7, 1.0]),
    'sigma5': ([0.0] * 6, [0.0, 0.1, 0.3, 0.6, 0.8, 1.0]),
    'pressure4': ([0.0, 200.0, 500.0, 800.0, 1000.0], [0.0] * 5),
    # top level well below sigma = 0: the upper target layers lie beyond the one-cell extrapolation range
    'top5': ([200.0, 250.0, 300.0, 200.0, 100.0, 0.0], [0.0, 0.0, 0.0, 0.3, 0.6, 1.0]),
}
PHI_VALUES = (6.0, 4.0, 3.0, 2.0, 1.0, 0.0, -1.0, -3.0)
GZ = np.array([-4.0 + 0.5 * i for i in range(23)])
GRAVITY = (1.0, 8.0, 9.80665)
AFFINE_PHI = tuple((c0, s) for c0 in (2.0, 5.0) for s in (0.5, 1.0, 3.0))
GRID_SIZES = ((4, 2), (5, 3), (6, 3), (8, 4), (7, 5), (12, 6), (16, 8))
SPACINGS = ('gauss', 'equiangular', 'equiangular_with_poles')
OFFSETS = (0.0, 0.1, float(np.pi / 5), 1.0, 3.0, 6.0)
SAFE_N = (0, 1, 2, 3)
C = 1e4


def _amps(seed, tier):
  out = []
  for pal in core.palette(seed, tier):
    for a in pal:
      if a not in out:
        out.append(a)
  return out


def _tenths_sets(kmin, kmax):
  out = []
  for k in range(kmin, kmax + 1):
    for sub in itertools.combinations(range(1, 10), k - 1):
      out.append([0] + list(sub) + [10])
  return out


def _chunks(xs, n):
  return [xs[i:i + n] for i in range(0, len(xs), n)]


def bounds(tier):
  q = tier == 'quick'
  return dict(
      node_sets='all strictly increasing subsets of size 2..4 of {0,1/4,1/2,3/4,1,3/2,2} (91)',
      data='{-1,0,2}^k + affine (2,0),(0,1),(-1.5,3), times the amplitude palette',
      queries='step 1/16 in [-1,3] (65)', safe_extrapolation_cells=list(SAFE_N),
      sigma_sets='tenths lattice, layers 1..%d' % (3 if q else 10),
      pressure_sets=['A7', 'B5', 'C2'] if q else sorted(PRESSURE_SETS),
      surface_pressures=PS.ravel().tolist(),
      hybrid_sets=sorted(HYBRIDS) + ([] if q else ['ECMWF137', 'UFS127']),
      hybrid_target_layers='1..%d' % (2 if q else 4),
      geopotential='strictly decreasing k-subsets of %s; gz = -4..7 step 1/2; g in %s' % (list(PHI_VALUES), list(GRAVITY)),
      semi_lagrangian='sigma sets with 2..4 layers on the %s lattice; Grid(4,5,12x6); dt in {0} U {0.5,-1} (motionless)' % ('fifths' if q else 'tenths'),
      horizontal_grids=dict(sizes=[list(s) for s in (GRID_SIZES[:3] if q else GRID_SIZES)], spacings=list(SPACINGS),
                            offset_pairs='{0,.1}^2 + (0,1),(1,1),(1,0)' if q else '{0,.1,pi/5}^2 + equal pairs of {1,3,6}'))


def units(tier, seed):
  q = tier == 'quick'
  amps = _amps(seed, tier)
  us = []
  for k in (2, 3, 4):   # one compiled shape per unit: node sets grouped by size
    for ch in _chunks([list(x) for x in ri.node_sets((k,))], 12):
      us.append(dict(kind='nodes1d', sets=ch, amps=amps))
  for k in (2, 3, 4):
    us.append(dict(kind='vinterp3d', k=k, amps=amps))
  psets = ['A7', 'B5', 'C2'] if q else ['A7', 'B5', 'C2', 'D13']
  for ch in _chunks(_tenths_sets(1, 3 if q else 10), 4):
    us.append(dict(kind='psigma', sets=ch, psets=psets, amps=amps))
  hy = sorted(HYBRIDS) + ([] if q else ['ECMWF137', 'UFS127'])
  for name in hy:
    for ch in _chunks(_tenths_sets(1, 2 if q else 4), 10):
      us.append(dict(kind='hybrid', hybrid=name, sets=ch, amps=amps))
  for ch in _chunks([list(x) for x in ri.node_sets()], 7):
    us.append(dict(kind='surfp', levels=ch))
  sl = ([s_ for s_ in _tenths_sets(2, 4) if all(v % 2 == 0 for v in s_)] if q else _tenths_sets(2, 4))
  for ch in _chunks(sl, 3):
    us.append(dict(kind='semilag', sets=ch, amps=amps))
  sizes = GRID_SIZES[:3] if q else GRID_SIZES
  # offset pairs: quick = {0,.1}^2; thorough = {0,.1,pi/5}^2 plus every equal-offset pair
  if q:
    opairs = [[x, y] for x in OFFSETS[:2] for y in OFFSETS[:2]] + [[0.0, 1.0], [1.0, 1.0], [1.0, 0.0]]   # 1 rad > half a cell
  else:
    opairs = [[x, y] for x in OFFSETS[:3] for y in OFFSETS[:3]] + [[x, x] for x in OFFSETS[3:]]
  for a in sizes:
    for sa in SPACINGS:
      for b in sizes:
        for sb in SPACINGS:
          us.append(dict(kind='hgrid', src=list(a), src_spacing=sa, tgt=list(b), tgt_spacing=sb, offset_pairs=opairs,
                         amps=amps))
  return us


# -- helpers -------------------------------------------------------------------------------------------------

def _want(rec, key):
  """group-level filter for replays: the recorded key is the group key or extends it."""
  # always True: a replay re-executes the whole unit (cases of one unit can depend on each other through state
  # cached inside the library); run.py filters the violations by key
  return True


def _nanfill(a):
  return np.where(np.isnan(a), 0.0, a)


def _worst(got, want):
  d = np.abs(_nanfill(np.asarray(got)) - _nanfill(np.asarray(want)))
  d = np.where(np.isnan(got) != np.isnan(want), np.inf, d)
  return [int(i) for i in np.unravel_index(int(np.argmax(d)), d.shape)]


def _compare(rec, got, want, *, scale, site, key, skip=None, decode=None):
  """NaN pattern must match exactly (documented missing values), finite values to C*eps*scale.
  `skip` marks entries that are counted, not asserted."""
  got = np.asarray(got, dtype=np.float64); want = np.asarray(want, dtype=np.float64)
  if got.shape != want.shape:
    rec.fail(site, key, {'shape_got': list(got.shape), 'shape_want': list(want.shape)})
    return False
  if skip is not None:
    skip = np.broadcast_to(skip, got.shape)
    got = np.where(skip, 0.0, got); want = np.where(skip, 0.0, want)
  extra = None
  ok = True
  if not np.array_equal(np.isnan(got), np.isnan(want)):
    idx = _worst(got, want)
    det = {'index': idx, 'got': float(got[tuple(idx)]), 'want': float(want[tuple(idx)]),
           'nan_got': int(np.isnan(got).sum()), 'nan_want': int(np.isnan(want).sum())}
    if decode:
      det.update(decode(idx))
    rec.fail(site + ':missing_iff_beyond_documented_range', key, det)
    ok = False
  both = ~(np.isnan(got) | np.isnan(want))
  g = np.where(both, got, 0.0); w = np.where(both, want, 0.0)
  if decode and g.size:
    d = np.abs(g - w)
    d = np.where(np.isfinite(d), d, np.inf)
    extra = decode([int(i) for i in np.unravel_index(int(np.argmax(d)), d.shape)])
  return rec.close(g, w, scale=scale, site=site, key=key, C=C, extra=extra) and ok


def _tag(xs):
  return [round(float(v), 6) for v in xs]


@functools.lru_cache(maxsize=None)
def _jitted(name):
  """jit-wrapped callers of the real routines; cached per worker so shapes compile once."""
  import jax
  import jax.numpy as jnp
  from dinosaur import vertical_interpolation as vi
  from dinosaur import primitive_equations as pe

  def scalar(f):   # f(x scalar, xp, fp(k,)) -> over queries and data vectors: (N, Q)
    return jax.jit(jax.vmap(jax.vmap(f, (0, None, None)), (None, None, 0)))

  if name == 'interp':
    return scalar(vi.interp)
  if name == 'interp[array x]':
    return jax.jit(jax.vmap(vi.interp, (None, None, 0)))
  if name == '_dot_interp':
    return scalar(vi._dot_interp)
  if name == 'vertical_interpolation':
    return lambda x, xp, F: jax.vmap(lambda f: vi.vertical_interpolation(x, np.asarray(xp), f))(F)
  if name == 'linear_interp_with_linear_extrap':
    return scalar(vi.linear_interp_with_linear_extrap)
  if name.startswith('_linear_interp_with_safe_extrap'):
    n = int(re.search(r'n=(\d)', name).group(1))
    if name.endswith('[default]'):
      return scalar(vi._linear_interp_with_safe_extrap)
    return scalar(functools.partial(vi._linear_interp_with_safe_extrap, n=n))
  if name.startswith('vectorize:'):
    inner = {
        'safe1': vi._linear_interp_with_safe_extrap,
        'safe2': functools.partial(vi._linear_interp_with_safe_extrap, n=2),
        'linear': vi.linear_interp_with_linear_extrap,
        'interp': vi.interp,
        'dot': vi._dot_interp,
        'vertical_interpolation': vi.vertical_interpolation,
    }[name.split(':')[1]]
    return jax.jit(vi.vectorize_vertical_interpolation(inner))
  if name == '_vertical_interp':
    return jax.jit(pe._vertical_interp)
  raise KeyError(name)


ROUTINES_1D = (
    # name, mode, n
    ('interp', 'constant', 0),
    ('interp[array x]', 'constant', 0),
    ('_dot_interp', 'constant', 0),
    ('vertical_interpolation', 'constant', 0),
    ('linear_interp_with_linear_extrap', 'linear', 0),
    ('_linear_interp_with_safe_extrap(n=1)[default]', 'safe', 1),
    ('_linear_interp_with_safe_extrap(n=0)', 'safe', 0),
    ('_linear_interp_with_safe_extrap(n=2)', 'safe', 2),
    ('_linear_interp_with_safe_extrap(n=3)', 'safe', 3),
)
WRAPPED = (('safe1', 'safe', 1), ('safe2', 'safe', 2), ('linear', 'linear', 0), ('interp', 'constant', 0),
           ('dot', 'constant', 0), ('vertical_interpolation', 'constant', 0))
GRID_XY = {12: (3, 4), 30: (5, 6), 84: (7, 12)}


def _affine_expected(Q, xp, amp, mode, n):
  """closed form amp*(a + b*x) with the documented behaviour outside the nodes; (3, Q)."""
  x = np.asarray(Q, dtype=np.float64)
  if mode == 'constant':
    x = np.clip(x, xp[0], xp[-1])
  out = np.stack([amp * (a + b * x) for a, b in ri.AFFINE])
  if mode == 'safe':
    lo, hi = ri.safe_range(np.asarray(xp), n)
    out = np.where((Q < lo) | (Q > hi), np.nan, out)
  return out


def _data(xp):
  k = len(xp)
  base = np.array(ri.data_vectors(k))
  aff = np.array([[a + b * x for x in xp] for a, b in ri.AFFINE])
  return np.concatenate([base, aff]), len(base)


# -- nodes1d ----------------------------------------------------------------------------------------------------

def _work_nodes1d(unit, rec):
  for xp in unit['sets']:
    _work_nodes1d_set(np.array(xp), unit, rec)


def _work_nodes1d_set(xp, unit, rec):
  k = len(xp)
  Q = ri.queries()
  nq = len(Q)
  data, nbase = _data(xp)
  N = len(data)
  xtag = _tag(xp)
  node_idx = [int(np.where(Q == v)[0][0]) for v in xp]
  wmax = ri.max_weight(Q, xp)
  results = {}

  for amp in unit['amps']:
    F = amp * data
    lo, hi, inside = ri.neighbour_bounds(Q, xp, F)
    for name, mode, n in ROUTINES_1D:
      key = (name, xtag, amp)
      if not _want(rec, key):
        continue
      got = np.asarray(_jitted(name)(Q, xp, F))
      results[(name, amp)] = got
      want = ri.evaluate(Q, xp, F, mode, n)
      scale = abs(amp) * 2 * (1 + 2 * (wmax if mode != 'constant' else 1.0))
      for d in range(N):
        rec.case(key + (d,), transitions=nq, outcome=got[d].tobytes(),
                 nontrivial=bool(np.any(F[d] != 0)),
                 sample={'routine': name, 'nodes': xtag, 'data': _tag(F[d]), 'queries': '65 points, step 1/16 in [-1,3]',
                         'first_outputs': _tag(np.nan_to_num(got[d][:6], nan=-999.0))})
      dec = lambda idx: {'data': _tag(F[idx[0]]), 'query': float(Q[idx[1]])}
      _compare(rec, got, want, scale=scale, site=name + ':vs_reference', key=key, decode=dec)
      # value at the source coordinates
      rec.close(got[:, node_idx], F, scale=abs(amp) * 2, site=name + ':source_value_at_nodes', key=key, C=C)
      # exact on affine data, documented extrapolation
      _compare(rec, got[nbase:], _affine_expected(Q, xp, amp, mode, n), scale=scale,
               site=name + ':exact_on_affine', key=key,
               decode=lambda idx: {'affine(a,b)': list(ri.AFFINE[idx[0]]), 'query': float(Q[idx[1]])})
      # bounded by the neighbouring values inside the source range
      gi = got[:, inside]
      excess = np.maximum(np.maximum(gi - hi[:, inside], lo[:, inside] - gi), 0.0)
      rec.close(excess, np.zeros_like(excess), scale=abs(amp) * 2, site=name + ':bounded_by_neighbours', key=key, C=C,
                extra={'query_of_worst': float(Q[inside][int(np.argmax(np.nan_to_num(excess, nan=np.inf).max(axis=0)))])})
    # the accelerator path agrees with the default path
    key = ('_dot_interp==interp', xtag, amp)
    if _want(rec, key):
      for nm in ('interp', '_dot_interp'):
        if (nm, amp) not in results:
          results[(nm, amp)] = np.asarray(_jitted(nm)(Q, xp, F))
      rec.case(key, transitions=0, validated=1, outcome=None)
      rec.close(results[('_dot_interp', amp)], results[('interp', amp)], scale=abs(amp) * 4,
                site='_dot_interp:agrees_with_interp', key=key, C=C)

  # ---- vectorised wrapper on (lead, level, x, y) fields; every column sees the queries in a different order --
  amps = list(unit['amps'])
  X, Y = GRID_XY[N]
  F4 = np.stack([(a * data).T.reshape(k, X, Y) for a in amps])                    # (A, k, X, Y); column c <-> data c
  shift = np.arange(N)
  x3 = np.stack([np.roll(Q, c) for c in shift], axis=-1).reshape(nq, X, Y)        # (Q, X, Y)
  qidx = (np.arange(nq)[:, None] - shift[None, :]) % nq                            # x3[q, c] = Q[qidx[q, c]]
  Fall = np.stack([a * data for a in amps])                                        # (A, N, k)
  for wname, mode, n in WRAPPED:
    name = 'vectorize:' + wname
    key = (name, xtag)
    if not _want(rec, key):
      continue
    got = np.asarray(_jitted(name)(x3, xp, F4))                                    # (A, Q, X, Y)
    R = ri.evaluate(Q, xp, Fall, mode, n)                                          # (A, N, Q)
    want = np.stack([R[:, c, qidx[:, c]] for c in range(N)], axis=-1).reshape(len(amps), nq, X, Y)
    for ai, a in enumerate(amps):
      for c in range(N):
        rec.case(key + (a, c), transitions=nq, outcome=got[ai, :, c // Y, c % Y].tobytes(),
                 nontrivial=bool(np.any(data[c] != 0)))
    amax = max(abs(a) for a in amps)
    scale = amax * 2 * (1 + 2 * (wmax if mode != 'constant' else 1.0))
    _compare(rec, got, want, scale=scale, site='vectorize_vertical_interpolation(%s):vs_reference' % wname, key=key,
             decode=lambda idx: {'amp': amps[idx[0]], 'data': _tag(data[idx[2] * Y + idx[3]]),
                                 'query': float(x3[idx[1], idx[2], idx[3]])})
    # no leading axes
    got0 = np.asarray(_jitted(name)(x3, xp, F4[0]))
    rec.case(key + ('no-lead',), transitions=nq * N, outcome=got0.tobytes())
    _compare(rec, got0, want[0], scale=scale, site='vectorize_vertical_interpolation(%s):vs_reference' % wname,
             key=key + ('no-lead',))

  # ---- primitive_equations._vertical_interp: 1-D / 3-D targets, 1-D source ---------------------------------
  for ai, a in enumerate(amps):
    R = ri.evaluate(Q, xp, Fall[ai], 'constant')                                   # (N, Q)
    for xdim, xq in ((1, Q), (3, x3)):
      key = ('_vertical_interp', xtag, a, 'x%dd' % xdim, 'xp1d')
      if not _want(rec, key):
        continue
      got = np.asarray(_jitted('_vertical_interp')(xq, xp, F4[ai]))               # (Q, X, Y)
      if xdim == 1:
        want = R.T.reshape(nq, X, Y)
      else:
        want = np.stack([R[c, qidx[:, c]] for c in range(N)], axis=-1).reshape(nq, X, Y)
      rec.case(key, transitions=nq * N, outcome=got.tobytes(),
               sample={'routine': '_vertical_interp', 'nodes': xtag, 'target_ndim': xdim, 'source_ndim': 1})
      _compare(rec, got, want, scale=abs(a) * 6, site='_vertical_interp:constant_extrapolation_vs_reference', key=key)


# -- vinterp3d -------------------------------------------------------------------------------------------------

def _work_vinterp3d(unit, rec):
  k = unit['k']
  sets = ri.node_sets((k,))
  S = len(sets)
  X, Y = {21: (3, 7), 35: (5, 7)}[S]
  Q = ri.queries(); nq = len(Q)
  xp3 = np.array(sets).T.reshape(k, X, Y)
  x3 = np.stack([np.roll(Q, c) for c in range(S)], axis=-1).reshape(nq, X, Y)
  qidx = (np.arange(nq)[:, None] - np.arange(S)[None, :]) % nq
  for a in unit['amps']:
    tables = []
    for c in range(S):
      data, _ = _data(np.array(sets[c]))
      tables.append((a * data, ri.evaluate(Q, sets[c], a * data, 'constant')))   # (N,k), (N,Q)
    N = len(tables[0][0])
    for d0 in range(N):
      cols = [(d0 + c) % N for c in range(S)]
      fp = np.stack([tables[c][0][cols[c]] for c in range(S)], axis=-1).reshape(k, X, Y)
      for xdim, xq in ((1, Q), (3, x3)):
        key = ('_vertical_interp', k, a, d0, 'x%dd' % xdim, 'xp3d')
        if not _want(rec, key):
          continue
        got = np.asarray(_jitted('_vertical_interp')(xq, xp3, fp))
        if xdim == 1:
          want = np.stack([tables[c][1][cols[c]] for c in range(S)], axis=-1).reshape(nq, X, Y)
        else:
          want = np.stack([tables[c][1][cols[c]][qidx[:, c]] for c in range(S)], axis=-1).reshape(nq, X, Y)
        for c in range(S):
          rec.case(key + (c,), transitions=nq, outcome=got[:, c // Y, c % Y].tobytes(),
                   nontrivial=bool(np.any(tables[c][0][cols[c]] != 0)),
                   sample={'routine': '_vertical_interp', 'nodes': list(sets[c]), 'data': _tag(tables[c][0][cols[c]]),
                           'target_ndim': xdim, 'source_ndim': 3, 'column': [c // Y, c % Y]})
        _compare(rec, got, want, scale=abs(a) * 6, site='_vertical_interp:constant_extrapolation_vs_reference', key=key,
                 decode=lambda idx: {'nodes': list(sets[idx[1] * Y + idx[2]])})


# -- column regridding reference ---------------------------------------------------------------------------------

def _ref_columns(F, tgt, src, tgt_exact=None, src_exact=None, n=1):
  """F (..., L, X, Y); tgt (T, X, Y); src (L,) or (L, X, Y).  -> want (..., T, X, Y), status (T, X, Y) object array."""
  F = np.asarray(F, dtype=np.float64)
  T, X, Y = tgt.shape
  want = np.empty(F.shape[:-3] + (T, X, Y))
  status = np.empty((T, X, Y), dtype=object)
  for i in range(X):
    for j in range(Y):
      xp = src if np.ndim(src) == 1 else src[:, i, j]
      te = None if tgt_exact is None else [tgt_exact[t][i][j] for t in range(T)]
      v, st = ri.safe_column(tgt[:, i, j], xp, F[..., i, j], n, te, src_exact)
      want[..., i, j] = v
      status[:, i, j] = st
  return want, status


def _assert_columns(rec, got, want, status, *, scale, site, key, closed_form=None):
  got = np.asarray(got, dtype=np.float64)
  skip = (status == 'ambiguous') | (status == 'stencil')
  n_skip = int(skip.sum())
  if n_skip:
    rec.note(site + ':points_not_asserted(range end within round-off / missing neighbour)', n_skip)
  rec.note(site + ':points_asserted_finite', int((status == 'in').sum()))
  rec.note(site + ':points_asserted_missing', int((status == 'out').sum()))
  want = np.where(status == 'out', np.nan, want)
  ok = _compare(rec, got, want, scale=scale, site=site, key=key, skip=skip)
  if closed_form is not None:
    cf = np.where(np.broadcast_to(status == 'in', closed_form.shape), closed_form, np.nan)
    ok = _compare(rec, np.where(np.broadcast_to(status == 'in', got.shape), got, np.nan), cf, scale=scale,
                  site=site.split(':')[0] + ':exact_on_affine', key=key, skip=skip) and ok
  return ok


def _profiles(amps):
  return [(amp, a, b) for amp in amps for (a, b) in ri.AFFINE]


# -- psigma ------------------------------------------------------------------------------------------------------

def _work_psigma(unit, rec):
  import jax
  from dinosaur import vertical_interpolation as vi
  from dinosaur import sigma_coordinates as sc

  amps = unit['amps']
  profs = _profiles(amps)
  _, X, Y = PS.shape
  ps_exact = [[Fraction(float(PS[0, i, j])) for j in range(Y)] for i in range(X)]
  for bt in unit['sets']:
    b = [i / 10 for i in bt]
    K = len(b) - 1
    sig = sc.SigmaCoordinates(np.asarray(b))
    cen = ri.sigma_centers(b)
    cen_exact = [(Fraction(bt[i], 10) + Fraction(bt[i + 1], 10)) / 2 for i in range(K)]
    for pname in unit['psets']:
      P = np.array(PRESSURE_SETS[pname]); L = len(P)
      P_exact = [Fraction(float(p)) for p in P]
      pc = vi.PressureCoordinates(P)
      base_key = (bt, pname)

      # ---- pressure -> sigma ----------------------------------------------------------------------------
      tgt = cen[:, None, None] * PS                                             # (K, X, Y)
      tgt_exact = [[[cen_exact[t] * ps_exact[i][j] for j in range(Y)] for i in range(X)] for t in range(K)]
      pcol = P[:, None, None] * np.ones((1, X, Y))
      affB = np.stack([amp * (a + bb * pcol / 1000.0) for amp, a, bb in profs])   # (NP, L, X, Y)
      basis = amps[0] * np.eye(L)[:, :, None, None] * np.ones((1, 1, X, Y))       # (L, L, X, Y)
      NP = len(profs)
      fields = {'lead': np.concatenate([affB, basis]), 'nolead': affB[-1], 'sp': PS.copy(), 'flat': PS[0].copy(),
                'scalar': 2.5}
      key = ('interp_pressure_to_sigma',) + base_key
      out = None
      if _want(rec, key) or rec.only is not None:
        out = jax.tree_util.tree_map(np.asarray, vi.interp_pressure_to_sigma(fields, pc, sig, PS))
      sc_aff = max(abs(amp) * (abs(a) + abs(bb) * 2.5) for amp, a, bb in profs) * 3
      if _want(rec, key):
        site = 'interp_pressure_to_sigma:vs_reference'
        wantB, st = _ref_columns(affB, tgt, P, tgt_exact, P_exact)
        cfB = np.stack([amp * (a + bb * tgt / 1000.0) for amp, a, bb in profs])
        for pi, (amp, a, bb) in enumerate(profs):
          rec.case(key + ('affine', amp, a, bb), transitions=K * X * Y, outcome=out['lead'][pi].tobytes(),
                   sample={'op': 'interp_pressure_to_sigma', 'sigma_boundaries': b, 'pressure_levels': P.tolist(),
                           'profile': 'amp*(a+b*p/1000)', 'amp,a,b': [amp, a, bb], 'surface_pressures': PS.ravel().tolist()})
        _assert_columns(rec, out['lead'][:NP], wantB, st, scale=sc_aff, site=site, key=key, closed_form=cfB)
        _assert_columns(rec, out['nolead'], wantB[-1], st, scale=sc_aff, site=site, key=key + ('no-lead',),
                        closed_form=cfB[-1])
        wantE, st = _ref_columns(basis, tgt, P, tgt_exact, P_exact)
        for l in range(L):
          rec.case(key + ('unit', l), transitions=K * X * Y, outcome=out['lead'][NP + l].tobytes())
        _assert_columns(rec, out['lead'][NP:], wantE, st, scale=abs(amps[0]) * 4, site=site, key=key + ('unit-columns',))
        rec.check(np.array_equal(out['sp'], PS) and np.array_equal(out['flat'], PS[0]) and float(out['scalar']) == 2.5,
                  'interp_pressure_to_sigma:leaves_without_a_level_axis_unchanged', key,
                  {'sp_shape': list(np.shape(out['sp']))})

      # ---- sigma -> pressure, and the round trip ------------------------------------------------------------
      if K < 2:
        rec.note('interp_sigma_to_pressure:single_layer_source_not_enumerated', 1)
        continue
      key = ('interp_sigma_to_pressure',) + base_key
      if not (_want(rec, key) or _want(rec, ('roundtrip',) + base_key)):
        continue
      tgt2 = P[:, None, None] / PS                                              # (L, X, Y)
      tgt2_exact = [[[P_exact[t] / ps_exact[i][j] for j in range(Y)] for i in range(X)] for t in range(L)]
      # the affine-in-pressure columns sampled at the sigma centres (affine in sigma in every column)
      saffB = np.stack([amp * (a + bb * tgt / 1000.0) for amp, a, bb in profs])    # (NP, K, X, Y)
      sbasis = amps[0] * np.eye(K)[:, :, None, None] * np.ones((1, 1, X, Y))
      if out is None:
        out = jax.tree_util.tree_map(np.asarray, vi.interp_pressure_to_sigma(fields, pc, sig, PS))
      fields2 = {'lead': np.concatenate([saffB, sbasis, out['lead'][:NP]]), 'nolead': saffB[-1], 'scalar': 2.5}
      out2 = jax.tree_util.tree_map(np.asarray, vi.interp_sigma_to_pressure(fields2, pc, sig, PS))
      cf2 = affB                                                                 # the original columns
      if _want(rec, key):
        site = 'interp_sigma_to_pressure:vs_reference'
        wantB, st = _ref_columns(saffB, tgt2, cen, tgt2_exact, cen_exact)
        for pi, (amp, a, bb) in enumerate(profs):
          rec.case(key + ('affine', amp, a, bb), transitions=L * X * Y, outcome=out2['lead'][pi].tobytes(),
                   sample={'op': 'interp_sigma_to_pressure', 'sigma_boundaries': b, 'pressure_levels': P.tolist(),
                           'amp,a,b': [amp, a, bb]})
        _assert_columns(rec, out2['lead'][:NP], wantB, st, scale=sc_aff, site=site, key=key, closed_form=cf2)
        _assert_columns(rec, out2['nolead'], wantB[-1], st, scale=sc_aff, site=site, key=key + ('no-lead',),
                        closed_form=cf2[-1])
        wantE, st = _ref_columns(sbasis, tgt2, cen, tgt2_exact, cen_exact)
        for l in range(K):
          rec.case(key + ('unit', l), transitions=L * X * Y, outcome=out2['lead'][NP + l].tobytes())
        _assert_columns(rec, out2['lead'][NP:NP + K], wantE, st, scale=abs(amps[0]) * 4, site=site,
                        key=key + ('unit-columns',))
        rec.check(float(out2['scalar']) == 2.5, 'interp_sigma_to_pressure:scalar_leaf_unchanged', key)
      key = ('roundtrip',) + base_key
      if _want(rec, key):
        # pressure -> sigma -> pressure returns the affine column wherever both conversions are defined
        refS, stS = _ref_columns(affB, tgt, P, tgt_exact, P_exact)
        refS = np.where(stS == 'in', refS, np.nan)
        _, stR = _ref_columns(refS, tgt2, cen, tgt2_exact, cen_exact)
        rt = out2['lead'][NP + K:]
        for pi, (amp, a, bb) in enumerate(profs):
          rec.case(key + (amp, a, bb), transitions=(K + L) * X * Y, outcome=rt[pi].tobytes(),
                   sample={'op': 'pressure->sigma->pressure', 'sigma_boundaries': b, 'pressure_levels': P.tolist(),
                           'amp,a,b': [amp, a, bb], 'points_returned': int((stR == 'in').sum())})
        _assert_columns(rec, rt, cf2, stR, scale=sc_aff, site='roundtrip_pressure_sigma_pressure:affine_column_returned',
                        key=key)


# -- hybrid -------------------------------------------------------------------------------------------------------

def _work_hybrid(unit, rec):
  import jax
  from dinosaur import vertical_interpolation as vi
  from dinosaur import sigma_coordinates as sc

  name = unit['hybrid']
  if name == 'ECMWF137':
    hyb = vi.HybridCoordinates.ECMWF137()
  elif name == 'UFS127':
    hyb = vi.HybridCoordinates.UFS127()
  else:
    a_, b_ = HYBRIDS[name]
    hyb = vi.HybridCoordinates(a_boundaries=np.array(a_), b_boundaries=np.array(b_))
  ha = np.asarray(hyb.a_boundaries, dtype=np.float64); hb = np.asarray(hyb.b_boundaries, dtype=np.float64)
  n = len(ha) - 1
  amps = unit['amps']
  profs = _profiles(amps)
  ps2 = PS_HYBRID[0]
  X, Y = ps2.shape
  src = np.empty((n, X, Y))
  valid = np.zeros((X, Y), dtype=bool)
  for i in range(X):
    for j in range(Y):
      src[:, i, j] = ri.hybrid_sigma_centers(ha, hb, ps2[i, j])
      valid[i, j] = bool(np.all(np.diff(ha + hb * ps2[i, j]) > 0))
  if not valid.all():
    rec.note('interp_hybrid_to_sigma:columns_with_non_increasing_hybrid_levels_not_asserted', int((~valid).sum()))
  srcv = np.where(valid[None], src, np.arange(n)[:, None, None] + 0.0)   # placeholder coordinates for invalid columns
  cond = 1.0 + 1.0 / np.min(np.diff(srcv, axis=0)[:, valid])
  affB = np.stack([amp * (a + bb * src) for amp, a, bb in profs])         # affine in the source sigma, per column
  basis = amps[0] * np.eye(n)[:, :, None, None] * np.ones((1, 1, X, Y))
  fields = {'aff3': affB[-1], 'affB': affB, 'basis': basis, 'scalar': 2.5}
  for bt in unit['sets']:
    b = [i / 10 for i in bt]
    K = len(b) - 1
    key = ('interp_hybrid_to_sigma', name, bt)
    if not _want(rec, key):
      continue
    sig = sc.SigmaCoordinates(np.asarray(b))
    cen = ri.sigma_centers(b)
    out = jax.tree_util.tree_map(np.asarray, vi.interp_hybrid_to_sigma(fields, hyb, sig, ps2))
    tgt = cen[:, None, None] * np.ones((1, X, Y))
    wantB, st = _ref_columns(affB, tgt, srcv)
    wantE, stE = _ref_columns(basis, tgt, srcv)
    st = np.where(valid[None], st, 'ambiguous'); stE = np.where(valid[None], stE, 'ambiguous')
    cfB = np.stack([amp * (a + bb * tgt) for amp, a, bb in profs])
    for pi, (amp, a, bb) in enumerate(profs):
      rec.case(key + ('affine', amp, a, bb), transitions=K * int(valid.sum()), outcome=out['affB'][pi].tobytes(),
               sample={'op': 'interp_hybrid_to_sigma', 'hybrid': name, 'sigma_boundaries': b, 'amp,a,b': [amp, a, bb],
                       'surface_pressures': ps2.ravel().tolist()})
    sc_aff = max(abs(amp) * (abs(a) + abs(bb) * 2) for amp, a, bb in profs) * 3
    site = 'interp_hybrid_to_sigma:vs_reference'
    _assert_columns(rec, out['affB'], wantB, st, scale=sc_aff, site=site, key=key, closed_form=cfB)
    _assert_columns(rec, out['aff3'], wantB[-1], st, scale=sc_aff, site=site, key=key + ('no-lead',), closed_form=cfB[-1])
    for l in range(n):
      rec.case(key + ('unit', l), transitions=K * int(valid.sum()), outcome=out['basis'][l].tobytes(),
               nontrivial=bool(np.any(np.nan_to_num(out['basis'][l]) != 0)))
    _assert_columns(rec, out['basis'], wantE, stE, scale=abs(amps[0]) * 4 * cond,
                    site='interp_hybrid_to_sigma:unit_columns_vs_reference', key=key + ('unit-columns',))
    rec.check(float(out['scalar']) == 2.5, 'interp_hybrid_to_sigma:scalar_leaf_unchanged', key)


# -- surfp --------------------------------------------------------------------------------------------------------

def _work_surfp(unit, rec):
  from dinosaur import vertical_interpolation as vi

  ngz = len(GZ)
  for levels in unit['levels']:
    lv = np.array(levels); k = len(lv)
    ltag = _tag(lv)
    pc = vi.PressureCoordinates(lv)
    cols = [c for c in itertools.combinations(PHI_VALUES, k)]               # strictly decreasing
    aff = [tuple(c0 - s * p for p in lv) for c0, s in AFFINE_PHI]
    allc = cols + aff
    X = len(allc)
    phi = np.array(allc).T[:, :, None] * np.ones((1, 1, ngz))               # (k, X, Y)
    phi2 = np.stack([phi, phi - 0.5])                                       # leading axis
    gz = np.stack([np.roll(GZ, x) for x in range(X)])[None]                 # (1, X, Y)
    want = np.empty((2, 1, X, ngz)); wts = np.empty((2, 1, X, ngz))
    for bi in range(2):
      for x in range(X):
        for y in range(ngz):
          want[bi, 0, x, y], wts[bi, 0, x, y] = ri.surface_pressure_column(lv, phi2[bi, :, x, y], gz[0, x, y])
    for g in GRAVITY:
      key = ('get_surface_pressure', ltag, g)
      if not _want(rec, key):
        continue
      oro = gz / g
      got = np.asarray(vi.get_surface_pressure(pc, phi2, oro, g))
      got1 = np.asarray(vi.get_surface_pressure(pc, phi, oro, g))
      for x in range(X):
        rec.case(key + (x,), transitions=2 * ngz, outcome=got[:, 0, x].tobytes(),
                 sample={'op': 'get_surface_pressure', 'levels': ltag, 'geopotential_column': list(allc[x]),
                         'g*orography': 'every value of -4..7 step 1/2', 'gravity': g,
                         'first_outputs': _tag(got[0, 0, x, :4])})
      scale = np.max(np.abs(lv)) * (1 + 2 * wts.max())
      if got.size == want.size and got1.size == want[0].size:     # the surface axis of length 1 may or may not be kept
        got = got.reshape(want.shape); got1 = got1.reshape(want[0].shape)
      dec = lambda idx: {'geopotential_column': [float(v) for v in phi2[idx[0], :, idx[2], idx[3]]],
                         'g*orography': float(gz[0, idx[2], idx[3]])}
      _compare(rec, got, want, scale=scale, site='get_surface_pressure:level_where_geopotential_meets_orography', key=key,
               decode=dec)
      _compare(rec, got1, want[0], scale=scale, site='get_surface_pressure:level_where_geopotential_meets_orography',
               key=key + ('no-lead',))
      # affine columns: closed form (c0 - gz)/s whatever the level set (unlimited linear extrapolation)
      na = len(aff)
      cf = np.stack([(c0 - gz[0, len(cols) + i]) / s for i, (c0, s) in enumerate(AFFINE_PHI)])   # (na, Y)
      _compare(rec, got[0, 0, len(cols):], cf, scale=scale, site='get_surface_pressure:exact_on_affine_geopotential', key=key)


# -- semilag ------------------------------------------------------------------------------------------------------

def _work_semilag(unit, rec):
  import jax
  import jax.numpy as jnp
  from dinosaur import primitive_equations as pe
  from dinosaur import sigma_coordinates as sc
  from dinosaur import coordinate_systems as cs
  from dinosaur import spherical_harmonic as sh

  grid = sh.Grid(longitude_wavenumbers=4, total_wavenumbers=5, longitude_nodes=12, latitude_nodes=6)
  mask = np.asarray(grid.mask)
  ms = grid.modal_shape
  idx = [(int(m), int(l)) for m, l in zip(*np.nonzero(mask))]
  mm, ll = np.meshgrid(np.arange(ms[0]), np.arange(ms[1]), indexing='ij')
  amps = unit['amps']
  for bt in unit['sets']:
    b = [i / 10 for i in bt]
    K = len(b) - 1
    coords = cs.CoordinateSystem(grid, sc.SigmaCoordinates(np.asarray(b)))
    lev = np.arange(1, K + 1)[:, None, None]
    pat = lambda p, q, r: mask[None] * (0.1 * (((p * mm + q * ll + r * lev) % 7) - 3.0)) / (1.0 + ll[None])
    bg = dict(vorticity=pat(1, 2, 3), divergence=pat(3, 1, 2), temperature_variation=pat(2, 3, 1) * 10,
              q=pat(1, 1, 1) * 0.01)
    lsp = (mask * (0.01 * (((2 * mm + ll) % 5) - 2.0)))[None]
    names = ['vorticity', 'divergence', 'temperature_variation', 'q']

    def make(batch):
      return pe.State(vorticity=batch['vorticity'], divergence=batch['divergence'],
                      temperature_variation=batch['temperature_variation'],
                      log_surface_pressure=np.broadcast_to(lsp, (len(batch['q']),) + lsp.shape),
                      tracers={'q': batch['q']})

    step = jax.jit(jax.vmap(lambda s, dt: pe.semi_lagrangian_vertical_advection_step(s, coords, dt), (0, None)))
    for amp in amps:
      for mode, dts in (('any_state', (0.0,)), ('motionless', (0.5, -1.0))):
        fields = names if mode == 'any_state' else names[2:]
        exc = [(f, kk, m, l) for f in fields for kk in range(K) for (m, l) in idx]
        batch = {f: np.broadcast_to(bg[f] if (mode == 'any_state' or f in fields) else 0.0 * bg[f],
                                    (len(exc), K) + ms).copy() for f in names}
        for e, (f, kk, m, l) in enumerate(exc):
          batch[f][e, kk, m, l] += amp
        state = make(batch)
        for dt in dts:
          key = ('semi_lagrangian_vertical_advection_step', bt, mode, dt, amp)
          if not _want(rec, key):
            continue
          out = step(state, dt)
          for e, (f, kk, m, l) in enumerate(exc):
            got_e = np.asarray(out.tracers['q'][e]) if f == 'q' else np.asarray(getattr(out, f)[e])
            rec.case(key + (f, kk, m, l), transitions=1, outcome=got_e.tobytes(),
                     sample={'op': 'semi_lagrangian_vertical_advection_step', 'sigma_boundaries': b, 'dt': dt, 'state': mode,
                             'excited': [f, kk, m, l], 'amplitude': amp})
          for f in names:
            got = np.asarray(out.tracers['q']) if f == 'q' else np.asarray(getattr(out, f))
            scale = max(np.abs(batch[f]).max(), abs(amp)) * 8
            rec.close(got, batch[f], scale=scale, site='semi_lagrangian_step:identity(%s)' % mode, key=key, C=C,
                      extra={'field': f})
          rec.close(np.asarray(out.log_surface_pressure), np.asarray(state.log_surface_pressure),
                    scale=max(np.abs(lsp).max(), 1e-3) * 8, site='semi_lagrangian_step:surface_field_unchanged', key=key, C=C)


# -- hgrid --------------------------------------------------------------------------------------------------------

def _work_hgrid(unit, rec):
  from dinosaur import horizontal_interpolation as hi
  from dinosaur import spherical_harmonic as sh

  def mk(size, spacing, offset):
    return sh.Grid(longitude_wavenumbers=0, total_wavenumbers=0, longitude_nodes=size[0], latitude_nodes=size[1],
                   latitude_spacing=spacing, longitude_offset=offset)

  amps = unit['amps']
  a, sa, b, sb = tuple(unit['src']), unit['src_spacing'], tuple(unit['tgt']), unit['tgt_spacing']
  for oa, ob in unit['offset_pairs']:
    if True:
      gs, gt = mk(a, sa, oa), mk(b, sb, ob)
      gtag = (list(a), sa, round(oa, 6), list(b), sb, round(ob, 6))
      const = np.stack([amp * np.ones(gs.nodal_shape) for amp in amps])          # (A, lon, lat)
      equal = (a, sa, oa) == (b, sb, ob)
      for rname, cls in (('BilinearRegridder', hi.BilinearRegridder), ('NearestRegridder', hi.NearestRegridder)):
        key = (rname,) + gtag
        if not _want(rec, key):
          continue
        r = cls(gs, gt)
        got = np.asarray(r(const))
        rec.case(key + ('constants',), transitions=len(amps), outcome=got.tobytes(),
                 sample={'regridder': rname, 'source': gtag[:3], 'target': gtag[3:], 'fields': 'constants %s' % amps})
        want = np.stack([amp * np.ones(gt.nodal_shape) for amp in amps])
        _compare(rec, got, want, scale=max(abs(x) for x in amps), site=rname + ':reproduces_constants', key=key)
        if rname == 'NearestRegridder' and (a, sa) == (b, sb):
          # value oracle between grids that differ only in the longitude offset: a field that numbers its nodes must
          # arrive from the nearest source node by great-circle distance (brute force; ties are counted, not asserted)
          def xyz(g):
            lon, sinlat = np.meshgrid(np.asarray(g.nodal_axes[0]), np.asarray(g.nodal_axes[1]), indexing='ij')
            c = np.sqrt(np.clip(1 - sinlat ** 2, 0, 1))
            return np.stack([c * np.cos(lon), c * np.sin(lon), sinlat], -1).reshape(-1, 3)
          d = xyz(gt) @ xyz(gs).T                                   # cosine of the angle, target x source
          order = np.argsort(-d, axis=1)
          best, second = np.take_along_axis(d, order[:, :1], 1)[:, 0], np.take_along_axis(d, order[:, 1:2], 1)[:, 0]
          clear = (best - second) > 1e-9
          rec.note('nearest_neighbour_ties_not_asserted', int((~clear).sum()))
          field = np.arange(1.0, a[0] * a[1] + 1.0).reshape(a)
          gotn = np.asarray(r(field)).reshape(-1)
          wantn = field.reshape(-1)[order[:, 0]]
          rec.case(key + ('numbered_field',), transitions=1, outcome=gotn.tobytes())
          _compare(rec, np.where(clear, gotn, 0.0), np.where(clear, wantn, 0.0), scale=float(field.max()), site=rname + ':takes_the_nearest_source_node', key=key)
        if equal:
          got2 = np.asarray(r(const[0]))
          _compare(rec, got2, want[0], scale=abs(amps[0]), site=rname + ':reproduces_constants', key=key + ('2d',))
          nn = a[0] * a[1]
          E = amps[0] * np.eye(nn).reshape((nn,) + tuple(a))
          gotE = np.asarray(r(E))
          for e in range(nn):
            rec.case(key + ('unit', e), transitions=1, outcome=gotE[e].tobytes())
          _compare(rec, gotE, E, scale=abs(amps[0]), site=rname + ':identity_between_equal_grids', key=key,
                   decode=lambda idx: {'unit_field_at': [idx[0] // a[1], idx[0] % a[1]], 'output_node': idx[1:]})
          gotEE = np.asarray(r(np.stack([E, 2 * E])))
          _compare(rec, gotEE, np.stack([E, 2 * E]), scale=2 * abs(amps[0]),
                   site=rname + ':identity_between_equal_grids', key=key + ('two-leading-axes',))


WORK = dict(nodes1d=_work_nodes1d, vinterp3d=_work_vinterp3d, psigma=_work_psigma, hybrid=_work_hybrid,
            surfp=_work_surfp, semilag=_work_semilag, hgrid=_work_hgrid)


def work(unit, rec):
  WORK[unit['kind']](unit, rec)
  if unit['kind'] in ('psigma', 'hybrid', 'semilag', 'hgrid', 'surfp'):
    import jax
    jax.clear_caches()   # these kinds compile one executable per configuration; keep the workers small
    _jitted.cache_clear()
