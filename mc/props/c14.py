"""C14: stepping and scan combinators equal their sequential definition for every split.

Bounded-exhaustive enumeration of *schedules* on the real code (dinosaur/time_integration.py), each compared with a
plain python loop (mc/ref/stepping.py):

* trajectory_from_step for every (outer, inner, start_with_input) in {1..5}^2 x {F,T}, with and without a
  structure-changing post_process_fn, with lax.scan and with nested_checkpoint_scan as outer/inner scan function;
  generic step = three non-commuting affine maps selected by a step counter carried in a 2-leaf pytree (every value
  is an exactly representable dyadic number, so a dropped / duplicated / re-ordered step or an off-by-one frame
  changes the result by >= 2**-6), and two real dinosaur steps (two-layer shallow water: semi-implicit leapfrog with
  the library's default filters, and IMEX SIL3);
* repeated for n = 0..6 (every scan nesting of n);
* step_with_filters for every ordered list (with repetition) of <= 3 out of 3 non-commuting filters, one of which
  reads the pre-step state;
* nested_checkpoint_scan for every ordered factorisation (and, on a smaller range, every tuple with unit factors)
  of every length up to the bound, depth <= 4, with / without scanned inputs, pytree carry and outputs: final carry,
  stacked outputs, loss and gradients w.r.t. carry and xs against (a) a flat lax.scan and (b) a hand-written
  reverse sweep in numpy; inconsistent `length` / xs extent must be rejected;
* accumulate_repeated for all weight vectors in {0,1,-2}^(<=4) against its defining sum;
* digital_filter_initialization on every integrator for a steady state (returned unchanged) and a linear
  oscillator, N in {1,2,3}: equals sum_n h_n x(n dt) with the Lynch-Huang Lanczos coefficients, x(n dt) from a
  python loop over the real forward step and over the real integrator applied to an independently written
  time-reversed equation (plus the closed form for forward/backward Euler);
* maybe_fix_sim_time_roundoff: accumulated k*dt snaps to k*dt; states without sim_time are returned as they are.
"""
import functools
import itertools
import math

import numpy as np

from mc import core
from mc.ref import stepping as rs

ID = 'C14'
TECHNIQUE = ('bounded-exhaustive schedule enumeration (explicit-state): every outer/inner split, scan nesting, filter '
             'list and weight vector executed on the real combinators and compared with a sequential python loop')
ASSUMPTIONS = [
    'numpy float64 arithmetic of the sequential reference loops (mc/ref/stepping.py)',
    'jax.lax.scan and jax.grad of a flat scan are trusted (they are additionally cross-checked against a hand-written '
    'reverse sweep for the enumerated scan bodies)',
    'step functions are the enumerated ones (counter-selected non-commuting affine maps; bilinear scan body; two real '
    'shallow-water steps); the combinators are generic in the step, so other steps are covered only by that genericity',
    'splits, scan lengths, nesting depths, filter-list lengths and weight-vector lengths beyond the stated bounds are not covered',
    'digital filter initialisation is checked for time_span == 2*N*dt exactly (dyadic dt); other ratios are not covered',
]
RULE = ('case = (combinator, schedule [split | nesting tuple | filter list | weight vector | integrator,N], step '
        'function, options, amplitude); distinct = distinct canonical key; non-trivial = implementation output not '
        'identically zero; distinct_nontrivial counts distinct output byte patterns; transitions = number of real '
        'step-function applications behind the case')

INTEGRATORS = ('backward_forward_euler', 'crank_nicolson_rk2', 'crank_nicolson_rk3', 'crank_nicolson_rk4',
               'imex_rk_sil3', 'semi_implicit_leapfrog')
REAL_STEPS = ('leapfrog_filtered', 'sil3')
DFI_SPLITS = ((1.0, 0.0, 0.0), (0.5, 1.5, 0.25))      # (omega_explicit, omega_implicit, implicit damping)


def _cfg(tier):
  q = tier == 'quick'
  return dict(split_max=5, repeat_max=6, filter_len=3, scan_max=24 if q else 48, scan_ones_max=4 if q else 24,
              depth=4, weights_len=4, dfi_N=(1, 2, 3), dfi_dt=(0.125,) if q else (0.125, 0.25),
              real_inner_max={'leapfrog_filtered': 5, 'sil3': 3 if q else 5})


def bounds(tier):
  c = _cfg(tier)
  return dict(outer='1..%d' % c['split_max'], inner='1..%d' % c['split_max'], start_with_input=[False, True],
              post_process_fn=['identity', 'restructuring'], scan_fns=['lax.scan', 'nested_checkpoint_scan'], nested_scan_fn=['lax.scan (default)', 'partial(lax.scan, reverse=True)'],
              repeated='n=0..%d, every nesting tuple of n (depth<=3)' % c['repeat_max'],
              filter_lists='all ordered lists with repetition, length<=%d, from 3 filters' % c['filter_len'],
              nested_scan_lengths='1..%d: every ordered factorisation (factors>=2), depth<=%d' % (c['scan_max'], c['depth']),
              nested_scan_unit_factors='1..%d: every tuple with product n containing unit factors, depth<=%d%s'
                                       % (c['scan_ones_max'], c['depth'],
                                          ' (depth<=%d for n=%d)' % (c['depth'] - 1, c['scan_ones_max']) if tier == 'quick' else ''),
              nested_scan_inputs=['xs=None', 'pytree xs'], gradients=['carry', 'xs'],
              rejected_lengths='0, n-1, n+1, 2n; xs extent n+1',
              weight_vectors='{0,1,-2}^m, m=0..%d' % c['weights_len'],
              dfi=dict(integrators=list(INTEGRATORS), N=list(c['dfi_N']), dt=list(c['dfi_dt']),
                       splits=[list(s) for s in DFI_SPLITS], states=['steady', 'oscillator'],
                       cutoff=[2.0, 'time_span'] if tier != 'quick' else '2.0 (and time_span for the empty filter list)',
                       filter_lists=3),
              real_steps={k: 'outer 1..%d x inner 1..%d x start_with_input' % (c['split_max'], v)
                          for k, v in c['real_inner_max'].items()}, sim_time='dt in {1/8, 0.1, 1/3, 0.007} x k=0..40 x {float32,float64}')


def units(tier, seed):
  c = _cfg(tier)
  q = tier == 'quick'
  pal = core.palette(seed, tier)
  amps = sorted({a for p in pal for a in p}, key=lambda a: (abs(a), a))
  us = []
  for o in range(1, c['split_max'] + 1):
    for variant in ('lax', 'nested'):
      us.append(dict(kind='traj', outer=o, inner_max=c['split_max'], variant=variant, amps=amps))
  for o in range(1, c['split_max'] + 1):
    for name in REAL_STEPS:
      us.append(dict(kind='real', outer=o, inner_max=c['real_inner_max'][name], step=name))
  us.append(dict(kind='repeated', nmax=c['repeat_max'], amps=amps))
  us.append(dict(kind='filters', length=[0, 1], first=None, amps=amps))
  us.append(dict(kind='filters', length=[2], first=None, amps=amps))
  for first in range(3):
    us.append(dict(kind='filters', length=[3], first=first, amps=amps))
  # nested_checkpoint_scan: (length, xs?) x all nesting tuples, in chunks of <= 8 tuples per unit
  for ones, nmax in ((False, c['scan_max']), (True, c['scan_ones_max'])):
    for n in range(1, nmax + 1):
      depth = c['depth'] if not (ones and q and n == c['scan_ones_max']) else c['depth'] - 1
      count = len(_nesting_tuples(n, depth, ones))
      if not count:
        continue
      chunks = -(-count // 8)
      for has_xs in (False, True):
        for j in range(chunks):
          us.append(dict(kind='nested', n=n, has_xs=has_xs, ones=ones, depth=depth, chunk=[j, chunks],
                         eager_depth=2 if q else c['depth'], amps=amps))
  for m in range(0, c['weights_len'] + 1):
    us.append(dict(kind='accum', m=m, amps=amps))
  for name in INTEGRATORS:
    for N in c['dfi_N']:
      us.append(dict(kind='dfi', integrator=name, N=N, dts=list(c['dfi_dt']), all_cutoffs=not q, amps=amps[:1]))
  us.append(dict(kind='simtime'))
  # fixed order, costly units first (the pool hands units out in list order)
  cost = {'dfi': 0, 'real': 1, 'traj': 2, 'nested': 3, 'filters': 4, 'repeated': 5, 'accum': 6, 'simtime': 7}
  us.sort(key=lambda u: (cost[u['kind']], -u.get('n', 0) * (3 if u.get('ones') else 1)))
  return us


def _nesting_tuples(n, depth, ones):
  """ones=False: ordered factorisations of n (factors >= 2, the trivial (n,) included); ones=True: the tuples with
  product n that contain at least one unit factor (and more than one entry)."""
  out = []
  for d in range(1, depth + 1):
    for t in rs.tuples_with_product(n, d):
      has_one = min(t) == 1 and d > 1
      if has_one == ones:
        out.append(t)
  return out


# --------------------------------------------------------------------------------------------------
# helpers
# --------------------------------------------------------------------------------------------------

def _np_leaves(tree):
  import jax
  return [np.asarray(l) for l in jax.tree_util.tree_leaves(tree)]


def _bytes(tree):
  return b''.join(np.ascontiguousarray(l).tobytes() for l in _np_leaves(tree))


def _cmp(rec, got, want, site, key, floor, C=1e4, mult=1.0):
  """leaf-wise comparison of two pytrees: same structure, same shapes, values within C*eps*scale.  Stops at the
  first failing leaf, so that a (site, key) pair carries at most one recorded observation."""
  import jax
  gs, ws = jax.tree_util.tree_structure(got), jax.tree_util.tree_structure(want)
  if not rec.check(gs == ws, site + ':tree_structure', key, {'got': str(gs), 'want': str(ws)}):
    return False
  for i, (g, w) in enumerate(zip(_np_leaves(got), _np_leaves(want))):
    if not rec.check(g.shape == w.shape, site + ':shape', key, {'leaf': i, 'got': list(g.shape), 'want': list(w.shape)}):
      return False
    if w.size == 0:
      continue
    scale = max(float(floor), float(np.max(np.abs(w)))) * mult
    if not rec.close(g, w, scale=scale, site=site, key=key, C=C, extra={'leaf': i}):
      return False
  return True


class _WrongShape(Exception):
  pass


_JX = {}


def _jx():
  """jax versions of the generic step, post-processing, filters and scan bodies (built from the constants of ref)."""
  if _JX:
    return _JX
  import jax
  import jax.numpy as jnp
  from dinosaur import time_integration as ti
  A = jnp.asarray(rs.A)
  B = jnp.asarray(rs.B)

  def count_step(s):
    i = jnp.asarray(s['n']).astype(jnp.int32) % rs.NMAPS
    return {'x': A[i] @ s['x'] + B[i], 'n': s['n'] + 1.0}

  def post(s):
    return {'s': s['x'][0] - 2.0 * s['x'][1], 'm': (2.0 * s['n'], s['x'])}

  def init(amp):
    return {'x': jnp.asarray([1.0, 2.0]) * amp, 'n': jnp.asarray(0.0)}

  D = jnp.asarray(rs.FILTER_DIAG)
  P = jnp.asarray(rs.FILTER_PERM)
  SH = jnp.asarray(rs.FILTER_SHIFT)
  f_scale = ti.runge_kutta_step_filter(lambda v: {'x': D * v['x'], 'n': v['n']})
  f_mix = lambda u, v: {'x': v['x'] + rs.FILTER_MIX * (u['x'] - v['x']), 'n': v['n']}
  f_swap = ti.runge_kutta_step_filter(lambda v: {'x': P @ v['x'] + SH, 'n': v['n']})

  def body_xs(c, xk):
    M = A[0] + xk['a'] * A[1]
    x1 = M @ c['x'] + xk['b']
    return {'x': x1, 'n': c['n'] + 1.0}, (x1 * c['n'], {'s': c['x'][0] * xk['a'] + c['n']})

  def body_noxs(c, _):
    i = c['n'].astype(jnp.int32) % rs.NMAPS
    x1 = A[i] @ c['x'] + B[i]
    return {'x': x1, 'n': c['n'] + 1.0}, (x1 * c['n'], {'s': c['x'][0] + c['n']})

  def loss(carry, ys, n):
    w = rs.loss_weights(n)
    return (jnp.sum(jnp.asarray(w['wx']) * carry['x']) + w['wn'] * carry['n'] + jnp.sum(jnp.asarray(w['wy']) * ys[0])
            + jnp.sum(jnp.asarray(w['ws']) * ys[1]['s']))

  _JX.update(count_step=count_step, post=post, init=init, filters=(f_scale, f_mix, f_swap), body_xs=body_xs,
             body_noxs=body_noxs, loss=loss)
  return _JX


def _split(n):
  """a non-trivial nesting of a small scan length."""
  if n == 4:
    return (2, 2)
  if n % 2:
    return (1, n)
  return (n, 1)


def _nested(lengths):
  from dinosaur import time_integration as ti
  return functools.partial(ti.nested_checkpoint_scan, nested_lengths=tuple(lengths))


# --------------------------------------------------------------------------------------------------
# work
# --------------------------------------------------------------------------------------------------

def work(unit, rec):
  return globals()['_work_' + unit['kind']](unit, rec)


# ---- trajectory_from_step, generic step ----------------------------------------------------------------

def _work_traj(unit, rec):
  from dinosaur import time_integration as ti
  J = _jx()
  o = unit['outer']
  for i in range(1, unit['inner_max'] + 1):
    for swi in (False, True):
      for use_post in (False, True):
        for variant in (unit['variant'],):
          keys = [('traj', o, i, swi, use_post, variant, amp) for amp in unit['amps']]
          if not any(rec.want(k) for k in keys):
            continue
          kw = dict(start_with_input=swi)
          if use_post:
            kw['post_process_fn'] = J['post']
          if variant == 'nested':
            kw['outer_scan_fn'] = _nested(_split(o))
            kw['inner_scan_fn'] = _nested(_split(i))
          fn = ti.trajectory_from_step(J['count_step'], o, i, **kw)
          for amp, key in zip(unit['amps'], keys):
            if not rec.want(key):
              continue
            final, frames = fn(J['init'](amp))
            rfinal, rframes = rs.trajectory(rs.count_step, rs.initial_state(amp), o, i, swi,
                                            rs.post_process if use_post else (lambda s: s))
            rec.case(key, transitions=o * i, outcome=_bytes((final, frames)),
                     sample={'op': 'trajectory_from_step', 'outer': o, 'inner': i, 'start_with_input': swi,
                             'post_process': use_post, 'scan': variant, 'amp': amp,
                             'final_x': np.asarray(final['x']).tolist()})
            _cmp(rec, final, rfinal, 'trajectory_final_state', key, abs(amp))
            _cmp(rec, frames, rframes, 'trajectory_frames', key, abs(amp))


# ---- trajectory_from_step, real dinosaur steps -------------------------------------------------------

_MODEL = {}


def _shallow_water():
  if _MODEL:
    return _MODEL
  import jax
  import jax.numpy as jnp
  from dinosaur import coordinate_systems, layer_coordinates, scales, shallow_water as sw, shallow_water_states as sws
  from dinosaur import spherical_harmonic, time_integration as ti
  grid = spherical_harmonic.Grid.with_wavenumbers(8)
  layers = 2
  coords = coordinate_systems.CoordinateSystem(grid, layer_coordinates.LayerCoordinates(layers))
  density = np.array([0.9, 1.0])
  specs = sw.ShallowWaterSpecs.from_si(density * scales.WATER_DENSITY)
  mean_potential = np.ones(layers) * 0.1
  dt = 1e-2
  lat = np.arccos(grid.cos_lat)
  s0 = sws.multi_layer(jnp.stack([np.cos(lat) / 5] * layers), density, coords)
  pert = np.zeros(s0.vorticity.shape)
  pert[0, 3, 4] = 0.02
  pert[1, 2, 3] = -0.01
  s0 = sw.State(s0.vorticity + pert, s0.divergence + 0.5 * pert, s0.potential + pert)
  leap = sw.shallow_water_leapfrog_step(coords, dt, specs, mean_potential, None)
  filters = tuple(sw.default_filters(grid, dt))
  sil3 = ti.imex_rk_sil3(sw.ShallowWaterEquations(coords, specs, None, mean_potential), dt)
  _MODEL.update(sw=sw, s0=s0, leap=leap, filters=filters, sil3=sil3, jleap=jax.jit(leap),
                jfilters=tuple(jax.jit(f) for f in filters), jsil3=jax.jit(sil3))
  return _MODEL


def _state_dict(s):
  """shallow_water.State (or a leapfrog pair of them) -> plain containers of numpy arrays."""
  if isinstance(s, tuple):
    return tuple(_state_dict(t) for t in s)
  return {'vorticity': np.asarray(s.vorticity), 'divergence': np.asarray(s.divergence), 'potential': np.asarray(s.potential)}


def _work_real(unit, rec):
  from dinosaur import time_integration as ti
  m = _shallow_water()
  sw = m['sw']
  o = unit['outer']
  name = unit['step']

  def to_state(d):
    if isinstance(d, tuple):
      return tuple(to_state(t) for t in d)
    return sw.State(d['vorticity'], d['divergence'], d['potential'])

  if name == 'leapfrog_filtered':
    step = ti.step_with_filters(m['leap'], m['filters'])          # real step + real filters through the real combinator
    seq = rs.with_filters(m['jleap'], m['jfilters'])               # the sequential definition, separately compiled
    init = (m['s0'], m['s0'])
    post = lambda x: x[0]
    rpost = lambda d: d[0]
  else:
    step = m['sil3']
    seq = m['jsil3']
    init = m['s0']
    post = rpost = lambda x: x
  seq_np = lambda d: _state_dict(seq(to_state(d)))
  mag = max(float(np.max(np.abs(l))) for l in _np_leaves(m['s0']))
  for i in range(1, unit['inner_max'] + 1):
    for swi in (False, True):
      key = ('traj_real', name, o, i, swi)
      if not rec.want(key):
        continue
      fn = ti.trajectory_from_step(step, o, i, start_with_input=swi, post_process_fn=post)
      final, frames = fn(init)
      rfinal, rframes = rs.trajectory(seq_np, _state_dict(init), o, i, swi, rpost)
      moved = float(np.max(np.abs(np.asarray(rfinal[1]['potential'] if isinstance(rfinal, tuple) else rfinal['potential'])
                                  - np.asarray(m['s0'].potential))))
      rec.case(key, transitions=o * i, outcome=_bytes((final, frames)), nontrivial=moved > 1e-6,
               sample={'op': 'trajectory_from_step', 'step': 'shallow water ' + name, 'outer': o, 'inner': i,
                       'start_with_input': swi, 'max_change_of_potential': moved})
      _cmp(rec, _state_dict(final), rfinal, 'real_step_final_state', key, mag, mult=o * i)
      _cmp(rec, _state_dict(frames), rframes, 'real_step_frames', key, mag, mult=o * i)


# ---- repeated --------------------------------------------------------------------------------------------

def _work_repeated(unit, rec):
  import jax
  from dinosaur import time_integration as ti
  J = _jx()
  for n in range(0, unit['nmax'] + 1):
    variants = [('lax', None)]
    if n >= 1:
      variants += [('nested', t) for t in rs.factorisations(n, 3, with_ones=True)]
    for vname, t in variants:
      keys = [('repeated', n, vname, list(t) if t else None, amp) for amp in unit['amps']]
      if not any(rec.want(k) for k in keys):
        continue
      fn = ti.repeated(J['count_step'], n) if t is None else ti.repeated(J['count_step'], n, _nested(t))
      for amp, key in zip(unit['amps'], keys):
        if not rec.want(key):
          continue
        got = fn(J['init'](amp))
        want = rs.repeated(rs.count_step, n)(rs.initial_state(amp))
        rec.case(key, transitions=n, outcome=_bytes(got),
                 sample={'op': 'repeated', 'n': n, 'scan': vname, 'nested_lengths': t, 'amp': amp,
                         'x': np.asarray(got['x']).tolist()})
        _cmp(rec, got, want, 'repeated_equals_n_applications', key, abs(amp))


# ---- step_with_filters -------------------------------------------------------------------------------

def _work_filters(unit, rec):
  from dinosaur import time_integration as ti
  J = _jx()
  for L in unit['length']:
    for combo in itertools.product(range(3), repeat=L):
      if unit['first'] is not None and combo[0] != unit['first']:
        continue
      keys = [('filters', list(combo), amp) for amp in unit['amps']]
      if not any(rec.want(k) for k in keys):
        continue
      fstep = ti.step_with_filters(J['count_step'], [J['filters'][j] for j in combo])
      rstep = rs.with_filters(rs.count_step, [rs.FILTERS[j] for j in combo])
      traj = ti.trajectory_from_step(fstep, 2, 2)
      for amp, key in zip(unit['amps'], keys):
        if not rec.want(key):
          continue
        # (a) three sequential eager applications, every intermediate state compared
        s, r = J['init'](amp), rs.initial_state(amp)
        outs = []
        ok = True
        for k in range(3):
          s, r = fstep(s), rstep(r)
          outs.append(s)
          ok = ok and _cmp(rec, s, r, 'filters_applied_in_order_after_every_step', key, abs(amp))
        # (b) the filtered step inside a 2 x 2 trajectory
        final, frames = traj(J['init'](amp))
        rfinal, rframes = rs.trajectory(rstep, rs.initial_state(amp), 2, 2, False)
        rec.case(key, transitions=(3 + 4) * (1 + L), outcome=_bytes((outs, final, frames)),
                 sample={'op': 'step_with_filters', 'filters': [rs.FILTERS[j].__name__ for j in combo], 'amp': amp,
                         'x_after_3_steps': np.asarray(s['x']).tolist()})
        _cmp(rec, final, rfinal, 'filtered_trajectory_final', key, abs(amp))
        _cmp(rec, frames, rframes, 'filtered_trajectory_frames', key, abs(amp))


# ---- nested_checkpoint_scan ----------------------------------------------------------------------------

def _work_nested(unit, rec):
  import jax
  import jax.numpy as jnp
  from dinosaur import time_integration as ti
  J = _jx()
  n, has_xs = unit['n'], unit['has_xs']
  body = J['body_xs'] if has_xs else J['body_noxs']
  rxs = rs.scan_xs(n) if has_xs else None
  xs = {k: jnp.asarray(v) for k, v in rxs.items()} if has_xs else None
  argnums = (0, 1) if has_xs else (0,)
  tuples = _nesting_tuples(n, unit['depth'], unit['ones'])[unit['chunk'][0]::unit['chunk'][1]]
  if not tuples:
    return

  def flat_loss(init, xs_):
    c, ys = jax.lax.scan(body, init, xs_, length=n)
    return J['loss'](c, ys, n), (c, ys)
  flat = jax.jit(jax.value_and_grad(flat_loss, argnums=argnums, has_aux=True))

  refs = {}
  for amp in unit['amps']:
    init = J['init'](amp)
    (fl, (fc, fys)), fg = flat(init, xs)
    rl, rc, rys, rg_init, rg_xs = rs.scan_loss_and_grad(rs.initial_state(amp), rxs, n)
    rg = (rg_init, rg_xs) if has_xs else (rg_init,)
    key = ('flat_scan', n, has_xs, amp)
    if rec.want(key):
      # trusted base cross-check: flat lax.scan (values and gradients) against the python loop / reverse sweep
      rec.case(key, transitions=n, outcome=_bytes((fc, fys, fg)))
      _cmp(rec, (fc, fys), (rc, rys), 'flat_scan_vs_python_loop', key, abs(amp))
      _cmp(rec, fg, rg, 'flat_scan_grad_vs_reverse_sweep', key, 1.0)
      rec.close(float(fl), rl, scale=max(1.0, abs(rl)), site='flat_scan_loss_vs_python_loop', key=key)
    refs[amp] = dict(init=init, flat=((fl, (fc, fys)), fg), ref=(rl, rc, rys, rg))

  for t in tuples:
    keys = [('nested', n, list(t), has_xs, amp) for amp in unit['amps']]
    rkey = ('nested_reject', n, list(t), has_xs)
    if not (any(rec.want(k) for k in keys) or rec.want(rkey)):
      continue

    def nested_loss(init, xs_, t=t):
      c, ys = ti.nested_checkpoint_scan(body, init, xs_, nested_lengths=t)
      shapes = [tuple(l.shape) for l in jax.tree_util.tree_leaves(ys)]
      if shapes != [(n, 2), (n,)]:
        raise _WrongShape('stacked outputs have shapes %s, expected [(%d, 2), (%d,)]' % (shapes, n, n))
      return J['loss'](c, ys, n), (c, ys)
    vg = jax.jit(jax.value_and_grad(nested_loss, argnums=argnums, has_aux=True))
    for a_i, (amp, key) in enumerate(zip(unit['amps'], keys)):
      if not rec.want(key):
        continue
      R = refs[amp]
      (fl, (fc, fys)), fg = R['flat']
      rl, rc, rys, rg = R['ref']
      try:
        (l, (c, ys)), g = vg(R['init'], xs)
      except Exception as e:  # the library refused (or mis-shaped) an admissible nesting: a violation, keep going
        rec.case(key, transitions=0, outcome=None)
        rec.fail('nested_scan_raised_or_misshaped', key, {'error': (type(e).__name__ + ': ' + str(e))[:300]})
        continue
      gscale = max(1.0, max(float(np.max(np.abs(a))) for a in _np_leaves(rg)))
      rec.case(key, transitions=n, outcome=_bytes((c, ys, g)),
               sample={'op': 'nested_checkpoint_scan', 'length': n, 'nested_lengths': list(t), 'xs': has_xs,
                       'amp': amp, 'final_x': np.asarray(c['x']).tolist(), 'loss': float(l)})
      _cmp(rec, (c, ys), (fc, fys), 'nested_values_vs_flat_scan', key, abs(amp))
      _cmp(rec, (c, ys), (rc, rys), 'nested_values_vs_python_loop', key, abs(amp))
      rec.close(float(l), float(fl), scale=max(1.0, abs(rl)), site='nested_loss_vs_flat_scan', key=key)
      _cmp(rec, g, fg, 'nested_grad_vs_flat_scan', key, gscale)
      _cmp(rec, g, rg, 'nested_grad_vs_reverse_sweep', key, gscale)
      if a_i == 0 and len(t) <= unit['eager_depth']:
        # the plain (un-differentiated, un-jitted) call, with an explicit consistent `length`
        try:
          c2, ys2 = ti.nested_checkpoint_scan(body, R['init'], xs, n, nested_lengths=list(t))
          _cmp(rec, (c2, ys2), (rc, rys), 'nested_eager_values_vs_python_loop', key, abs(amp))
        except Exception as e:
          rec.fail('nested_scan_raised_or_misshaped', key, {'error': (type(e).__name__ + ': ' + str(e))[:300], 'eager': True})
        # a caller-supplied scan_fn with other semantics (reverse scan) must be used at EVERY nesting level
        try:
          import functools
          rev = functools.partial(jax.lax.scan, reverse=True)
          c3, ys3 = jax.jit(lambda i_, x_: ti.nested_checkpoint_scan(body, i_, x_, n, nested_lengths=list(t), scan_fn=rev))(R['init'], xs)
          c4, ys4 = jax.jit(lambda i_, x_: jax.lax.scan(body, i_, x_, length=n, reverse=True))(R['init'], xs)
          _cmp(rec, (c3, ys3), (c4, ys4), 'nested_reverse_scan_fn_vs_flat_reverse_scan', key, abs(amp))
        except Exception as e:
          rec.fail('nested_scan_raised_or_misshaped', key, {'error': (type(e).__name__ + ': ' + str(e))[:300], 'scan_fn': 'reverse'})
    if rec.want(rkey):
      init = refs[unit['amps'][0]]['init']
      bad = sorted(b for b in {0, n - 1, n + 1, 2 * n} if b >= 0 and b != n)
      outcome = []
      for b in bad:
        try:
          ti.nested_checkpoint_scan(body, init, xs, b, nested_lengths=t)
          rejected = False
        except Exception:  # documented: ValueError; any refusal is a rejection
          rejected = True
        outcome.append(rejected)
      rec.check(all(outcome), 'inconsistent_length_rejected', rkey,
                {'accepted_lengths': [b for b, r in zip(bad, outcome) if not r], 'nested_lengths': list(t)})
      if has_xs:
        long_xs = {k: jnp.concatenate([v, v[:1]]) for k, v in xs.items()}
        try:
          ti.nested_checkpoint_scan(body, init, long_xs, nested_lengths=t)
          rejected = False
        except Exception:
          rejected = True
        outcome.append(rejected)
        rec.check(rejected, 'inconsistent_xs_extent_rejected', rkey, {'xs_extent': n + 1, 'nested_lengths': list(t)})
      rec.case(rkey, transitions=0, outcome=tuple(outcome), nontrivial=True)


# ---- accumulate_repeated -------------------------------------------------------------------------------

def _work_accum(unit, rec):
  import jax
  import jax.numpy as jnp
  from dinosaur import time_integration as ti
  J = _jx()
  m = unit['m']
  variants = [('lax', None)]
  if m >= 2:
    variants += [('nested', t) for t in rs.factorisations(m, 3, with_ones=True) if len(t) > 1]
  for vname, t in variants:
    if t is None:
      fn = jax.jit(lambda w, s: ti.accumulate_repeated(J['count_step'], w, s))
    else:
      fn = jax.jit(lambda w, s, t=t: ti.accumulate_repeated(J['count_step'], w, s, scan_fn=_nested(t)))
    for w in itertools.product((0.0, 1.0, -2.0), repeat=m):
      for amp in unit['amps']:
        key = ('accumulate', list(w), vname, list(t) if t else None, amp)
        if not rec.want(key):
          continue
        wj = jnp.asarray(np.asarray(w, dtype=np.float64).reshape((m,)))
        got = fn(wj, J['init'](amp))
        want = rs.accumulate(rs.count_step, w, rs.initial_state(amp))
        rec.case(key, transitions=m, outcome=_bytes(got), nontrivial=any(w),
                 sample={'op': 'accumulate_repeated', 'weights': list(w), 'scan': vname, 'nested_lengths': t,
                         'amp': amp, 'x': np.asarray(got['x']).tolist()})
        _cmp(rec, got, want, 'accumulate_equals_weighted_sum', key, abs(amp))
        if vname == 'lax' and m <= 3 and amp == unit['amps'][0]:
          got2 = ti.accumulate_repeated(J['count_step'], wj, J['init'](amp))      # eager path
          _cmp(rec, got2, want, 'accumulate_eager_equals_weighted_sum', key, abs(amp))


# ---- digital_filter_initialization -----------------------------------------------------------------------

def _work_dfi(unit, rec):
  import jax
  import jax.numpy as jnp
  from dinosaur import time_integration as ti
  name, N = unit['integrator'], unit['N']
  solver = getattr(ti, name)
  leap = name == 'semi_implicit_leapfrog'
  for dt in unit['dts']:
    span = 2 * N * dt
    for amp in unit['amps']:
      ustar = np.array([1.0, -0.5]) * amp
      for split in DFI_SPLITS:
        EX, IM = rs.oscillator_matrices(*split)
        jEX, jIM, jus = jnp.asarray(EX), jnp.asarray(IM), jnp.asarray(ustar)

        def solve2(eta, IMs, v):
          # (1 - eta*IMs)^-1 v for a 2x2 matrix, by Cramer's rule (eta may be a python float or a traced scalar)
          a, b = 1.0 - eta * IMs[0, 0], -eta * IMs[0, 1]
          c_, d = -eta * IMs[1, 0], 1.0 - eta * IMs[1, 1]
          det = a * d - b * c_
          return jnp.stack([(d * v[0] - b * v[1]) / det, (a * v[1] - c_ * v[0]) / det])

        def make_eq(sign):
          # d/dt u = sign * (EX + IM) (u - u*),  m' = 0 ;  sign = -1 is the time-reversed equation, written out
          # independently of TimeReversedImExODE
          return ti.ImplicitExplicitODE.from_functions(
              lambda s: {'u': sign * (jEX @ (s['u'] - jus)), 'm': jnp.zeros_like(s['m'])},
              lambda s: {'u': sign * (jIM @ (s['u'] - jus)), 'm': jnp.zeros_like(s['m'])},
              lambda s, eta: {'u': jus + solve2(eta, sign * IM, s['u'] - jus), 'm': s['m']})
        eq_f, eq_b = make_eq(1.0), make_eq(-1.0)
        jf, jb = jax.jit(solver(eq_f, dt)), jax.jit(solver(eq_b, dt))
        damp = lambda v: {'u': jus + 0.5 * (v['u'] - jus), 'm': v['m']}
        if leap:
          flists = ([], [ti.robert_asselin_leapfrog_filter(0.25)],
                    [ti.leapfrog_step_filter(damp), ti.robert_asselin_leapfrog_filter(0.25)])
        else:
          mix = lambda u, v: {'u': v['u'] + 0.25 * (u['u'] - v['u']), 'm': v['m']}
          flists = ([], [ti.runge_kutta_step_filter(damp)], [ti.runge_kutta_step_filter(damp), mix])
        for state_name in ('steady', 'oscillator'):
          u0 = ustar + (np.array([1.0, 0.5]) if state_name == 'oscillator' else 0.0)
          s0 = {'u': jnp.asarray(u0), 'm': jnp.asarray(2.0 * amp)}
          x0 = (s0, s0) if leap else s0
          for fi, flist in enumerate(flists):
            for cutoff in ((2.0, span) if (unit['all_cutoffs'] or fi == 0) else (2.0,)):
              key = ('dfi', name, N, dt, list(split), state_name, fi, cutoff, amp)
              if not rec.want(key):
                continue
              dfi = ti.digital_filter_initialization(eq_f, solver, flist, span, cutoff, dt)
              got = dfi(x0)
              want = rs.dfi(rs.with_filters(jf, flist), rs.with_filters(jb, flist), x0, N, dt, cutoff)
              rec.case(key, transitions=2 * N, outcome=_bytes(got),
                       sample={'op': 'digital_filter_initialization', 'integrator': name, 'N': N, 'dt': dt,
                               'omega_ex, omega_im, damp_im': list(split), 'state': state_name, 'filters': fi,
                               'cutoff_period': cutoff, 'result_u': np.asarray((got[1] if leap else got)['u']).tolist()})
              floor = float(np.max(np.abs(u0))) + abs(2.0 * amp)
              _cmp(rec, got, want, 'dfi_equals_weighted_sum_of_forward_and_backward_states', key, floor)
              if state_name == 'steady':
                _cmp(rec, got, jax.tree_util.tree_map(np.asarray, x0), 'dfi_returns_steady_state_unchanged', key, floor)
              if name == 'backward_forward_euler' and fi == 0:
                # closed form: x(n dt) = u* + M^n (u0 - u*), M from the forward / the reversed matrices
                h0, h = rs.lanczos_dfi_coefficients(N, dt, cutoff)
                acc = h0 * (u0 - ustar)
                for M in (rs.imex_euler_matrix(EX, IM, dt), rs.imex_euler_matrix(-EX, -IM, dt)):
                  d = u0 - ustar
                  for k in range(N):
                    d = M @ d
                    acc = acc + h[k] * d
                tot = h0 + 2 * h.sum()
                rec.close(np.asarray(got['u']), ustar * tot + acc, scale=floor, site='dfi_euler_closed_form', key=key)


# ---- maybe_fix_sim_time_roundoff ------------------------------------------------------------------------

def _work_simtime(unit, rec):
  import jax.numpy as jnp
  from dinosaur import primitive_equations as pe
  from dinosaur import time_integration as ti
  for dt in (0.125, 0.1, 1.0 / 3.0, 0.007):
    for dtype in (np.float32, np.float64):
      t = dtype(0.0)
      for k in range(0, 41):
        if k:
          t = dtype(t + dtype(dt))               # k accumulated steps, with round-off
        key = ('sim_time', dt, np.dtype(dtype).name, k)
        if not rec.want(key):
          continue
        z = jnp.arange(2.0)
        state = pe.StateWithTime(z, z + 1, z + 2, z + 3, sim_time=jnp.asarray(t, dtype=dtype))
        out = ti.maybe_fix_sim_time_roundoff(state, dt)
        got = np.asarray(out.sim_time)
        want = dtype(dt) * dtype(k) if dtype == np.float32 else dt * k
        eps = core.EPS32 if dtype == np.float32 else core.EPS
        rec.case(key, transitions=k, outcome=got.tobytes(), nontrivial=k > 0,
                 sample={'op': 'maybe_fix_sim_time_roundoff', 'dt': dt, 'dtype': np.dtype(dtype).name, 'k': k,
                         'accumulated': float(t), 'fixed': float(got)})
        rec.close(got.astype(np.float64), np.float64(want), scale=max(dt * k, dt), site='sim_time_snaps_to_k_dt',
                  key=key, C=4, eps=eps)
        rec.close(got.astype(np.float64), np.float64(rs.fix_sim_time(t, dtype(dt))), scale=max(dt * k, dt),
                  site='sim_time_vs_reference_rounding', key=key, C=4, eps=eps)
        rec.check(all(np.array_equal(np.asarray(getattr(out, f)), np.asarray(z + j))
                      for j, f in enumerate(('vorticity', 'divergence', 'temperature_variation', 'log_surface_pressure'))),
                  'sim_time_fix_leaves_other_fields', key)
  key = ('sim_time_absent',)
  if rec.want(key):
    plain = {'x': jnp.arange(3.0)}
    out = ti.maybe_fix_sim_time_roundoff(plain, 0.1)
    rec.case(key, transitions=0, outcome=_bytes(out))
    rec.check(out is plain, 'state_without_sim_time_returned_as_is', key)
