"""C02: spectral differential operators are exact on band-limited fields.

For every grid of the lattice Gd (shape x {gauss, equiangular} x implementation/padding options x radius)
EVERY resolved modal unit vector is pushed through every differential operator of Grid (scalar and
vector ones, clip on/off).  The resulting operator matrices are compared, in every coefficient below the
top total wavenumber, with the analytic derivative of the corresponding reference harmonic projected
with the reference's own exact quadrature; the vorticity/divergence -> wind -> vorticity/divergence
round trip (which contains curl grad = 0, div(k x grad) = 0 and div grad = Laplacian) and the inverse
Laplacian identities are checked on the same basis.  Linearity turns this into a statement about all
band-limited fields of each enumerated grid.

Extensions after the seeded-breakage rounds (DESIGN.md 8.5): Each half of the vorticity/divergence <-> wind conversion is additionally compared with its definition for two radii in one process (the composition alone cancels a common factor); the grid lattice contains trapezoidal truncations (L >= M+3).
"""
import numpy as np

from mc import core, harness
from mc.ref import sphere

ID = 'C02'
TECHNIQUE = 'bounded-exhaustive enumeration of grids x every modal basis vector x every differential operator, entrywise vs analytically differentiated reference harmonics'
ASSUMPTIONS = [
    'mc/ref/sphere.py (scipy Legendre functions and their mu-derivatives, Gauss quadrature exact for the integrands used)',
    'linearity + complete basis per enumerated grid; the palette superposition check guards linearity',
    'only coefficients with l\' <= L-2 are asserted (the property excludes the top total wavenumber); the rest must be finite',
    'the uv round trip divides by cos^2(lat) in grid space: it is asserted on gauss grids whose quadrature resolves the products involved (2L <= 2 nlat - 1, 2M-1 <= nlon) and counted elsewhere',
]
RULE = ('case = (grid shape, spacing, implementation, radius, operator); each case covers every resolved modal unit vector '
        '(transitions = basis vectors pushed through the operator); non-trivial = operator output not identically zero')

SPACINGS = ('gauss', 'equiangular')


def bounds(tier):
  return dict(shapes='with_wavenumbers(M<=%d, all dealiasings) + construct(k<=%d,n<=%d) + hand-picked' % ((6, 4, 4) if tier == 'quick' else (12, 6, 6)),
              spacings=list(SPACINGS), radii=[1.0, 2.5],
              implementations='real + fast sub-lattice (quick) / all 16 fast variants (thorough)',
              operators=['d_dlon', 'cos_lat_d_dlat', 'sec_lat_d_dlat_cos2', 'laplacian', 'inverse_laplacian', 'cos_lat_grad(clip T/F)',
                         'div_cos_lat(clip T/F)', 'curl_cos_lat(clip T/F)', 'clip_wavenumbers(1,2)', 'get_cos_lat_vector(clip T/F)',
                         'vor_div_to_uv_nodal', 'uv_nodal_to_vor_div_modal'])


def units(tier, seed):
  pal = core.palette(seed, tier)
  shapes = harness.grid_shapes(6 if tier == 'quick' else 12, construct_max=4 if tier == 'quick' else 6)
  us = []
  for shape in shapes:
    for sp in SPACINGS:
      us.append(dict(shape=list(shape), spacing=sp, full=(tier == 'thorough'), palettes=pal))
  return us


class RefOps:
  """Operator matrices A[i, l, i', l'] (input mode -> output coefficient) on the unit sphere, Real layout."""

  def __init__(self, M, L):
    self.M, self.L = M, L
    g = sphere.RefGrid(M, L, nlat=L + 2, nlon=2 * M + 2)
    self.g = g
    w = g.wmu * g.wlam
    self.dlon = np.einsum('ilxy,jkxy,y->iljk', g.Yl, g.Y, w)
    self.dmu = np.einsum('ilxy,jkxy,y->iljk', g.Ym, g.Y, w)                       # (1-mu^2) d/dmu = cos(lat) d/dlat
    sec = -2.0 * g.mu[None, None, None, :] * g.Y + g.Ym                          # d/dmu((1-mu^2) f) = sec d/dlat cos^2 f
    self.sec = np.einsum('ilxy,jkxy,y->iljk', sec, g.Y, w)
    inv = 1.0 / (1.0 - g.mu ** 2)
    self.stiff = np.einsum('ilxy,jkxy,y->iljk', g.Yl, g.Yl, w * inv) + np.einsum('ilxy,jkxy,y->iljk', g.Ym, g.Ym, w * inv)
    self.mask = sphere.real_mask(M, L)
    rows = 2 * M - 1
    self.eye = np.zeros((rows, L, rows, L))
    for i in range(rows):
      for l in range(L):
        if self.mask[i, l]:
          self.eye[i, l, i, l] = 1.0
    # inverse Laplacian on the unit sphere from the weak-form stiffness matrix (diagonal by orthogonality)
    diag = np.einsum('ilil->il', self.stiff)
    self.lap_diag = -diag
    with np.errstate(divide='ignore'):
      self.invlap_diag = np.where(diag > 0.5, -1.0 / np.where(diag > 0.5, diag, 1.0), 0.0)


def _apply(fn, x_batch):
  import jax.numpy as jnp
  return fn(jnp.asarray(x_batch))


def work(unit, rec):
  import jax.numpy as jnp
  from dinosaur import spherical_harmonic as sh
  shape = tuple(unit['shape']); sp = unit['spacing']
  M, L, nlon, nlat = shape
  stag = list(shape)
  ro = RefOps(M, L)
  rows = 2 * M - 1
  below_top = np.zeros((rows, L), dtype=bool); below_top[:, :max(L - 1, 0)] = True
  below_top &= ro.mask
  out_mask = np.broadcast_to(below_top[None, None], (rows, L, rows, L))
  in_mask = ro.mask
  impls = harness.impl_variants(full=unit['full'])
  lmax = max(L - 1, 1)
  for impl in impls:
    tag = 'real' if not harness.is_fast(impl) else 'fast:%d:%d:%d' % tuple(impl[1:])
    for radius in (1.0, 2.5):
      if radius != 1.0 and harness.is_fast(impl) and impl[1:] not in ((1, True, False), (4, True, True)):
        continue
      g = harness.make_grid(shape, sp, impl, radius=radius)
      ms = g.modal_shape
      # resolved unit vectors in this implementation's layout
      eye_real = np.zeros((rows * L, rows, L))
      for i in range(rows):
        for l in range(L):
          eye_real[i * L + l, i, l] = 1.0 if in_mask[i, l] else 0.0
      x = jnp.asarray(harness.from_real_layout(eye_real, g, impl))

      def mat(y):
        """implementation output batch -> A[i, l, i', l'] in the Real layout (resolved block)"""
        y = harness.to_real_layout(np.asarray(y), shape, impl)
        return y.reshape(rows, L, rows, L)

      def compare(name, got, want, scale, clip=0, extra_sig=None):
        key = (name, stag, sp, tag, radius)
        if not rec.want(key):
          return
        rec.case(key, transitions=int(in_mask.sum()), outcome=np.ascontiguousarray(got).tobytes(),
                 sample={'operator': name, 'shape(M,L,nlon,nlat)': stag, 'spacing': sp, 'impl': tag, 'radius': radius})
        rec.finite(got, site=name + ':finite', key=key)
        m_out = out_mask
        if clip:
          # clipped outputs: the top `clip` wavenumbers must be exactly zero
          rec.zero(got[..., L - clip:], site=name + ':clipped_top_is_zero', key=key)
        rec.close(np.where(m_out, got, 0.0), np.where(m_out, want, 0.0), scale=scale, site=name, key=key)

      s1 = float(lmax)            # derivative operators grow like l
      s2 = float(lmax * (lmax + 1))
      dlon = mat(g.d_dlon(x)); compare('d_dlon', dlon, ro.dlon, s1)
      dlat = mat(g.cos_lat_d_dlat(x)); compare('cos_lat_d_dlat', dlat, ro.dmu, s1)
      sec = mat(g.sec_lat_d_dlat_cos2(x)); compare('sec_lat_d_dlat_cos2', sec, ro.sec, s1)
      lap = mat(g.laplacian(x)); compare('laplacian', lap, -ro.stiff / radius ** 2, s2 / radius ** 2)
      ilap = mat(g.inverse_laplacian(x))
      want_il = ro.eye * (ro.invlap_diag * radius ** 2)[:, :, None, None]
      compare('inverse_laplacian', ilap, want_il, radius ** 2)
      # laplacian(inverse_laplacian(x)) = x for l >= 1 and 0 at l = 0 (all coefficients, including the top one)
      key = ('laplacian_of_inverse', stag, sp, tag, radius)
      li = mat(g.laplacian(g.inverse_laplacian(x)))
      want_li = ro.eye.copy(); want_li[:, 0] = 0.0
      rec.case(key, transitions=2 * int(in_mask.sum()), outcome=li.tobytes())
      rec.close(li, want_li, scale=1.0, site='laplacian_inverts_inverse_laplacian', key=key)
      for clip in (True, False):
        gu, gv = g.cos_lat_grad(x, clip=clip)
        compare('cos_lat_grad[lon](clip=%s)' % clip, mat(gu), ro.dlon / radius, s1 / radius, clip=int(clip))
        compare('cos_lat_grad[lat](clip=%s)' % clip, mat(gv), ro.dmu / radius, s1 / radius, clip=int(clip))
        zero = jnp.zeros_like(x)
        compare('div_cos_lat[u](clip=%s)' % clip, mat(g.div_cos_lat((x, zero), clip=clip)), ro.dlon / radius, s1 / radius, clip=int(clip))
        compare('div_cos_lat[v](clip=%s)' % clip, mat(g.div_cos_lat((zero, x), clip=clip)), ro.sec / radius, s1 / radius, clip=int(clip))
        compare('curl_cos_lat[u](clip=%s)' % clip, mat(g.curl_cos_lat((x, zero), clip=clip)), -ro.sec / radius, s1 / radius, clip=int(clip))
        compare('curl_cos_lat[v](clip=%s)' % clip, mat(g.curl_cos_lat((zero, x), clip=clip)), ro.dlon / radius, s1 / radius, clip=int(clip))
        # cos(lat) * velocity from (vorticity, divergence): U = (dchi/dlon - cos dpsi/dlat)/r, V = (cos dchi/dlat + dpsi/dlon)/r
        inv = (ro.invlap_diag * radius ** 2)[:, :, None, None]
        for which in ('vorticity', 'divergence'):
          if which == 'vorticity':
            U, V = sh.get_cos_lat_vector(x, zero, g, clip=clip)
            wantU, wantV = -inv * ro.dmu / radius, inv * ro.dlon / radius
          else:
            U, V = sh.get_cos_lat_vector(zero, x, g, clip=clip)
            wantU, wantV = inv * ro.dlon / radius, inv * ro.dmu / radius
          compare('get_cos_lat_vector[%s->U](clip=%s)' % (which, clip), mat(U), wantU, radius, clip=int(clip))
          compare('get_cos_lat_vector[%s->V](clip=%s)' % (which, clip), mat(V), wantV, radius, clip=int(clip))
      for n in (1, 2):
        if n >= L:
          continue
        key = ('clip_wavenumbers', stag, sp, tag, radius, n)
        c = mat(g.clip_wavenumbers(x, n=n))
        want_c = ro.eye.copy(); want_c[..., L - n:] = 0.0
        rec.case(key, transitions=int(in_mask.sum()), outcome=c.tobytes())
        rec.exact(c, want_c, site='clip_wavenumbers', key=key)
        full = np.asarray(g.clip_wavenumbers(x, n=n))
        rec.zero(full[..., L - n:], site='clip_wavenumbers_padding_zero', key=key)

      # vorticity/divergence -> wind -> vorticity/divergence: identity for zero-mean inputs with l <= L-2
      resolves = (sp == 'gauss') and (2 * L <= 2 * nlat - 1) and (2 * M - 1 <= nlon)
      key = ('uv_roundtrip', stag, sp, tag, radius)
      if rec.want(key):
        zero = jnp.zeros_like(x)
        res = {}
        for which in ('vorticity', 'divergence'):
          vor_in, div_in = (x, zero) if which == 'vorticity' else (zero, x)
          for clip in (True, False):
            u, v = sh.vor_div_to_uv_nodal(g, vor_in, div_in, clip=clip)
            vor, div = sh.uv_nodal_to_vor_div_modal(g, u, v, clip=clip)
            res[(which, clip)] = (mat(vor), mat(div))
            # each half on its own (the composition cancels any common factor, e.g. a stale radius picked up from a
            # compilation cache keyed on the grid): the nodal wind must be the synthesis of the (separately checked)
            # cos-lat vector divided by cos(lat); vorticity/divergence of a nodal wind must be curl/div of wind/cos(lat)
            Uc, Vc = sh.get_cos_lat_vector(vor_in, div_in, g, clip=clip)
            cl = np.asarray(g.cos_lat)
            wu, wv = np.asarray(g.to_nodal(Uc)) / cl, np.asarray(g.to_nodal(Vc)) / cl
            sgh = {'clip': clip, 'input': which}
            rec.close(np.asarray(u), wu, scale=max(float(np.abs(wu).max()), float(np.abs(wv).max()), 1e-300), site='vor_div_to_uv_nodal_is_synthesis_of_cos_lat_vector', key=key, sig=sgh)
            rec.close(np.asarray(v), wv, scale=max(float(np.abs(wu).max()), float(np.abs(wv).max()), 1e-300), site='vor_div_to_uv_nodal_is_synthesis_of_cos_lat_vector', key=key, sig=sgh)
            uo, vo = g.to_modal(jnp.asarray(wu / cl)), g.to_modal(jnp.asarray(wv / cl))
            wvor, wdiv = np.asarray(g.curl_cos_lat((uo, vo), clip=clip)), np.asarray(g.div_cos_lat((uo, vo), clip=clip))
            gvor, gdiv = sh.uv_nodal_to_vor_div_modal(g, jnp.asarray(wu), jnp.asarray(wv), clip=clip)
            sc_ = max(float(np.abs(wvor).max()), float(np.abs(wdiv).max()), 1e-300)
            rec.close(np.asarray(gvor), wvor, scale=sc_, site='uv_nodal_to_vor_div_modal_is_curl_div_of_wind_over_cos_lat', key=key, sig=sgh)
            rec.close(np.asarray(gdiv), wdiv, scale=sc_, site='uv_nodal_to_vor_div_modal_is_curl_div_of_wind_over_cos_lat', key=key, sig=sgh)
        rec.case(key, transitions=8 * int(in_mask.sum()), outcome=res[('vorticity', True)][0].tobytes())
        if resolves:
          for clip in (True, False):
            # clip=True discards the top total wavenumber of the intermediate wind (documented), so the wind of an
            # input at l = L-2 (which reaches l+1 = L-1) is not representable: asserted for l <= L-3 there.
            top_in = L - 2 if clip else L - 1
            in_ok = np.zeros((rows, L), dtype=bool); in_ok[:, 1:max(top_in, 1)] = True; in_ok &= ro.mask
            sel = in_ok[:, :, None, None] & out_mask
            want_id = ro.eye
            if clip:
              rec.note('uv_roundtrip_clip_inputs_at_L-2_not_asserted', int((ro.mask[:, L - 2] if L >= 2 else ro.mask[:, 0]).sum()))
            vv, vd = res[('vorticity', clip)]
            dv, dd = res[('divergence', clip)]
            sg = {'clip': clip}
            rec.close(np.where(sel, vv, 0), np.where(sel, want_id, 0), scale=s2, site='uv_roundtrip:vorticity_returns', key=key, sig=sg)
            rec.close(np.where(sel, vd, 0), 0 * vd, scale=s2, site='uv_roundtrip:div_of_rotated_gradient_is_zero', key=key, sig=sg)
            rec.close(np.where(sel, dd, 0), np.where(sel, want_id, 0), scale=s2, site='uv_roundtrip:divergence_returns(div grad = laplacian)', key=key, sig=sg)
            rec.close(np.where(sel, dv, 0), 0 * dv, scale=s2, site='uv_roundtrip:curl_of_gradient_is_zero', key=key, sig=sg)
        else:
          rec.note('uv_roundtrip_on_grid_not_resolving_products(counted,finite only)')
          for k_, (a, b) in res.items():
            rec.finite(a, site='uv_roundtrip:finite', key=key); rec.finite(b, site='uv_roundtrip:finite', key=key)

      # linearity on the palette: fixed pairing of resolved unit vectors
      if impl == 'real' or impl == ('fast', 4, True, True):
        idx = np.flatnonzero(in_mask.reshape(-1))
        for pal in unit['palettes']:
          a1, a2 = pal[0], (pal[-1] if len(pal) > 1 else -0.5)
          key = ('linearity', stag, sp, tag, radius, a1, a2)
          pairs = [(idx[i], idx[(i * 5 + 2) % len(idx)]) for i in range(len(idx))]
          xs = jnp.stack([a1 * x[i] + a2 * x[j] for i, j in pairs])
          got = harness.to_real_layout(np.asarray(g.sec_lat_d_dlat_cos2(xs)) + np.asarray(g.d_dlon(xs)), shape, impl)
          base = (sec + dlon).reshape(rows * L, rows, L)
          want = np.stack([a1 * base[i] + a2 * base[j] for i, j in pairs])
          rec.case(key, transitions=2 * len(pairs), outcome=got.tobytes())
          rec.close(got, want, scale=s1 * (abs(a1) + abs(a2)), site='operators_linear', key=key)
