"""python -m mc.run <ID> --tier quick|thorough [--replay FILE] [--workers N]"""
from __future__ import annotations

import argparse
import importlib
import json
import os
import sys
import time

from mc import core


def aggregate(results):
  agg = dict(states=set(), outcomes=set(), transitions=0, validated=0, evaluations=0, samples=[],
             violations=[], viol_count={}, notes={}, margins={}, worst={}, errors=[])
  n = len(results)
  pick = {0, n // 2, n - 1}
  for i, r in enumerate(results):
    agg['states'] |= r['state_hashes']
    agg['outcomes'] |= r['outcome_hashes']
    agg['transitions'] += r['transitions']
    agg['validated'] += r['validated']
    agg['evaluations'] += r['evaluations']
    if i in pick and r['samples']:
      agg['samples'].append(r['samples'][0])
    for v in r['violations']:
      v['_history'] = r.get('history', [])
    agg['violations'] += r['violations']
    for k, v in r['viol_count'].items():
      agg['viol_count'][k] = agg['viol_count'].get(k, 0) + v
    for k, v in r['notes'].items():
      agg['notes'][k] = agg['notes'].get(k, 0) + v
    for k, v in r['margins'].items():
      agg['margins'][k] = max(agg['margins'].get(k, 0.0), v)
    for k, v in r['worst'].items():
      agg['worst'][k] = max(agg['worst'].get(k, 0.0), v)
    if r['error']:
      agg['errors'].append((r['index'], r['error']))
  return agg


def main(argv=None):
  ap = argparse.ArgumentParser()
  ap.add_argument('prop')
  ap.add_argument('--tier', default=os.environ.get('VERIF_TIER', 'quick'), choices=['quick', 'thorough'])
  ap.add_argument('--replay')
  ap.add_argument('--workers', type=int, default=int(os.environ.get('VERIF_WORKERS', '0')))
  ap.add_argument('--only-units', default=None, help='python slice a:b of the unit list (debugging; evidence says so)')
  ap.add_argument('--no-evidence', action='store_true')
  args = ap.parse_args(argv)

  pid = args.prop.upper()
  seed = int(os.environ.get('VERIF_SEED', '0') or 0)
  modname = f'mc.props.{pid.lower()}'
  repo = os.environ.get('VERIF_REPO')
  if repo and repo not in sys.path:
    sys.path.insert(0, repo)
  mod = importlib.import_module(modname)
  devices = getattr(mod, 'DEVICES', 0)
  x64 = getattr(mod, 'X64', True)
  workers = args.workers or min(getattr(mod, 'WORKERS', 16), os.cpu_count() or 1)
  findings = core.load_findings()
  t0 = time.time()

  if args.replay:
    with open(args.replay) as f:
      payload = json.load(f)
    res = core.run_units(modname, list(payload.get('history_units', [])) + [payload['unit']], workers=1, devices=devices, x64=x64,
                         only=payload['key'], progress=False, fresh=True)[-1]
    if res['error']:
      print(res['error'])
    hits = [v for v in res['violations'] if v['site'] == payload['site'] and v['key'] == payload['key']]
    if res['error'] and payload['site'].startswith('exception'):
      hits = [dict(site=payload['site'], key=payload['key'], detail={'error': res['error'].strip().splitlines()[-1]})]
    if not hits:
      print(f'replay: case passes now (property={pid} site={payload["site"]})')
      return 0
    same = any(core.jsonable(w['detail']) == payload['detail'] for w in hits)
    print(f'replay: case fails; observation {"identical to" if same else "differs from"} the recorded one')
    print(json.dumps(hits[0]['detail'], indent=1))
    print(f'VIOLATION property={pid} replay={args.replay}')
    return 1

  units = mod.units(args.tier, seed)
  total_units = len(units)
  sliced = False
  if args.only_units:
    a, b = (args.only_units.split(':') + [''])[:2]
    units = units[int(a) if a else None: int(b) if b else None]
    sliced = True
  print(f'{pid} tier={args.tier} seed={seed} units={len(units)} workers={workers} devices={devices or 1}', flush=True)
  results = core.run_units(modname, units, workers=workers, devices=devices, x64=x64)
  agg = aggregate(results)

  # unit crashes are violations too (the library raised on an admissible input, or the harness broke)
  for idx, err in agg['errors']:
    last = err.strip().splitlines()[-1]
    site = 'exception:' + last.split(':')[0]
    agg['violations'].append(dict(site=site, sig={'site': site}, key=['unit', idx], detail={'error': last},
                                  unit=core.jsonable(units[idx])))
    agg['viol_count'][site] = agg['viol_count'].get(site, 0) + 1
    print(err, file=sys.stderr)

  exit_code = 0
  known_printed = {}
  new = []
  for v in agg['violations']:
    f = core.match_finding(v, pid, findings)
    if f is not None:
      known_printed.setdefault(f['id'], f)
    else:
      new.append(v)
  for fid, f in known_printed.items():
    print(f'KNOWN-FINDING: property={pid} {fid}: {f["what"]}')
  confirmed = 0
  for v in new[:5]:
    hist_units = None
    if not v['site'].startswith('exception'):
      # determinism: the recorded case must reproduce bit for bit in a FRESH process before it is reported; if it
      # only fails after the units that the finding worker had executed before it (hidden state in the library, e.g.
      # a cache mutated in place), the same history is replayed in a fresh process and becomes part of the case
      def reproduce(prefix):
        res = core.run_units(modname, prefix + [v['unit']], workers=1, devices=devices, x64=x64, only=v['key'], progress=False, fresh=True)[-1]
        hits = [w for w in res['violations'] if w['site'] == v['site'] and w['key'] == v['key']]
        return any(core.jsonable(w['detail']) == v['detail'] for w in hits), hits
      ok, hits = reproduce([])
      if not ok and v.get('_history'):
        hist_units = [units[i] for i in v['_history']]
        ok, hits = reproduce(hist_units)
      if not ok:
        print(f'HARNESS-ERROR property={pid}: violation at {v["site"]} key={v["key"]} did not reproduce identically '
              f'(first={v["detail"]} second={[w["detail"] for w in hits[:3]]})')
        exit_code = 2
        continue
    v.pop('_history', None)
    path = core.write_replay(pid, v, args.tier, seed, hist_units)
    confirmed += 1
    print(f'VIOLATION property={pid} replay={path}')
    print(f'  site={v["site"]} key={json.dumps(v["key"])[:300]} detail={json.dumps(v["detail"])[:400]}')
    if exit_code == 0:
      exit_code = 1
  if len(new) > 5:
    print(f'  ... {len(new)-5} further recorded violations not written out; counts per site: {agg["viol_count"]}')

  wall = time.time() - t0
  n_viol = len(new)
  coverage = dict(
      states=len(agg['states']),
      transitions=agg['transitions'],
      traces_validated_against_impl=agg['validated'],
      evaluations=agg['evaluations'],
      distinct_nontrivial=len(agg['outcomes']),
      rule=mod.RULE,
      samples=agg['samples'] or [{'note': 'no sample recorded'}],
      exhaustive=not sliced and not agg['errors'],
      units=len(units), units_in_space=total_units,
      bounds=mod.bounds(args.tier),
      counted_not_asserted=agg['notes'],
      worst_residual_over_tolerance=agg['margins'],
      worst_abs_residual=agg['worst'],
      violations_per_site=agg['viol_count'],
      known_findings_seen=sorted(known_printed),
      technique=getattr(mod, 'TECHNIQUE', ''),
      explanation=getattr(mod, '__doc__', '') or '',
  )
  if not args.no_evidence:
    core.write_evidence(pid, args.tier, seed, 'model_checking', coverage, list(mod.ASSUMPTIONS), wall, max(0, n_viol))
  print(f'{pid}: states={coverage["states"]} transitions={coverage["transitions"]} '
        f'validated={coverage["traces_validated_against_impl"]} distinct_outcomes={coverage["distinct_nontrivial"]} '
        f'notes={agg["notes"]} wall={wall:.1f}s')
  if agg['margins']:
    worst = sorted(agg['margins'].items(), key=lambda kv: -kv[1])[:6]
    print('  worst residual/tolerance:', ', '.join(f'{k}={v:.2e}' for k, v in worst))
  slow = sorted(((r['wall'], r['index']) for r in results), reverse=True)[:4]
  print('  slowest units:', ', '.join(f'#{i}={w:.0f}s' for w, i in slow))
  print(f'{pid}: {"OK" if exit_code == 0 else "FAILED"} (exit {exit_code})')
  return exit_code


if __name__ == '__main__':
  sys.exit(main())
