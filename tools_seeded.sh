#!/bin/bash
# usage: tools_seeded.sh <dir with patch.diff + demo.py> <ID> [more IDs]     (development aid, not registered)
# Confirms a seeded breakage in a scratch copy of /repo's working tree (outside /repo and /verif):
#   1. demo.py passes on the unchanged copy, 2. patch applies, 3. demo.py fails on the patched copy,
#   4. (SEED_TESTS="dinosaur/a_test.py ...") the named existing test files still pass with the patch,
#   5. the quick (or $MUT_TIER) checks of the given properties are run against the patched copy.
# Prints one summary line per step; removes the copy.
d="$(realpath "$1")"; shift
tier="${MUT_TIER:-quick}"
scratch="$(mktemp -d /tmp/seed_XXXXXX)"
trap 'rm -rf "$scratch"' EXIT
mkdir -p "$scratch/repo"
rsync -a --exclude .git --exclude '__pycache__' /repo/ "$scratch/repo/"
export JAX_PLATFORMS=cpu XLA_FLAGS=--xla_force_host_platform_device_count=8 PYTHONDONTWRITEBYTECODE=1
run_demo() { (cd "$scratch" && PYTHONPATH="$scratch/repo" timeout 900 /venv/bin/python "$d/demo.py" > "$scratch/demo.out" 2>&1); echo $?; }
echo "demo-on-clean rc=$(run_demo)"
if ! (cd "$scratch/repo" && patch -p1 --quiet < "$d/patch.diff"); then echo "PATCH-FAILED"; exit 3; fi
echo "demo-on-patched rc=$(run_demo) :: $(grep -v WARNING "$scratch/demo.out" | tail -2 | tr '\n' ' ' | cut -c1-200)"
if [[ -n "$SEED_TESTS" ]]; then
  res="$(cd "$scratch/repo" && PYTHONPATH="$scratch/repo" timeout 3000 /venv/bin/python -m pytest -q -p no:cacheprovider --timeout=900 $SEED_TESTS 2>&1 | tail -1)"
  echo "tests-on-patched [$SEED_TESTS]: $res"
fi
unset XLA_FLAGS
export VERIF_REPO="$scratch/repo" VERIF_REPLAY_DIR="$scratch/replays"
for id in "$@"; do
  out="$(cd /verif && ./check "$id" "$tier" --no-evidence ${MUT_WORKERS:+--workers $MUT_WORKERS} 2>&1)"; rc=$?
  echo "== check $id $tier rc=$rc $(echo "$out" | grep -c '^VIOLATION') violation lines"
  echo "$out" | grep -E '^(VIOLATION|KNOWN-FINDING|HARNESS-ERROR|  site=)' | head -4 | cut -c1-400
done
