#!/venv/bin/python
"""Prints the markdown table of seeded/*/meta.json (development aid; pasted into DESIGN.md section 8.5)."""
import glob, json, os
HERE = os.path.dirname(os.path.abspath(__file__))
rows = []
for p in sorted(glob.glob(os.path.join(HERE, 'seeded', '*', 'meta.json'))):
  m = json.load(open(p))
  det = ', '.join('%s: %s' % (k, 'caught' if v.startswith('VIOLATION') else v) for k, v in m['checks_run'].items())
  site = (m.get('first_violation') or '').split(' key=')[0].replace('site=', '')
  rows.append('| `%s` | %s | %s | %s | `%s` |' % (m['name'], m['breaks_property'], m['needs_to_manifest'].replace('|', '/'), det, site[:70]))
print('| seeded change | property | needs to manifest | quick checks run against it | first violation site |')
print('|---|---|---|---|---|')
print('\n'.join(rows))
