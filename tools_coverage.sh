#!/bin/bash
# usage: tools_coverage.sh [ids...]   (development aid, not registered)
# Runs the quick checks with line coverage of /repo/dinosaur/*.py switched on in the workers and prints, per library
# file, the lines that no check executes -- a list of behaviour the enumeration cannot say anything about.
cd "$(dirname "$0")"
dir="$(mktemp -d /tmp/vcov_XXXXXX)"
export VERIF_COVERAGE_DIR="$dir" COVERAGE_CORE=sysmon
ids="${@:-C01 C02 C03 C04 C05 C06 C07 C08 C09 C10 C11 C12 C13 C14 C15 C16 C17 C18 C19 C20}"
for id in $ids; do ./check $id quick --no-evidence > "$dir/$id.log" 2>&1; echo "$id rc=$?"; done
cd "$dir" && /venv/bin/python -m coverage combine -q . >/dev/null 2>&1
/venv/bin/python -m coverage report -m --include='*/dinosaur/*.py' --omit='*_test.py' 2>/dev/null | tee "${COV_OUT:-/tmp/verif_coverage.txt}"
rm -rf "$dir"
