#!/venv/bin/python
"""usage: tools_seeded_import.py <src dir> <name> <property id> "<needs>" <test files...>     (development aid)

Confirms a sub-agent's seeded breakage with tools_seeded.sh (demo passes on the unchanged copy, fails on the patched
copy, the named existing test files still pass with the patch) and runs the property's quick check against it.  Only
when all of that holds is it stored as /verif/seeded/<name>/ {patch.diff, demo.py, notes.md, meta.json}.
"""
import json
import os
import re
import shutil
import subprocess
import sys

HERE = os.path.dirname(os.path.abspath(__file__))
BASELINE_FAILS = ('test_time_filter_variation0', 'test_time_filter_variation1')


def main():
  src, name, pid, needs = sys.argv[1:5]
  tests = sys.argv[5:]
  env = dict(os.environ, SEED_TESTS=' '.join(tests), MUT_WORKERS=os.environ.get('MUT_WORKERS', '8'))
  out = subprocess.run([os.path.join(HERE, 'tools_seeded.sh'), src] + pid.split(','), env=env, capture_output=True, text=True).stdout
  lines = [l for l in out.splitlines() if not l.startswith('WARNING')]
  print('\n'.join(l[:300] for l in lines))
  get = lambda pat: next((re.search(pat, l) for l in lines if re.search(pat, l)), None)
  clean = get(r'^demo-on-clean rc=(\d+)'); patched = get(r'^demo-on-patched rc=(\d+)')
  tline = next((l for l in lines if l.startswith('tests-on-patched')), '')
  m_failed = re.search(r'(\d+) failed', tline); m_passed = re.search(r'(\d+) passed', tline)
  n_failed = int(m_failed.group(1)) if m_failed else 0
  allowed = 2 if any('filtering_test' in t for t in tests) else 0       # the two failures of the unchanged tree
  tests_ok = bool(m_passed) and n_failed <= allowed and ' error' not in tline
  ok = bool(clean) and clean.group(1) == '0' and bool(patched) and patched.group(1) != '0' and tests_ok
  checks = {}
  for l in lines:
    m = re.match(r'^== check (C\d+) (\w+) rc=(\d+) (\d+) violation', l)
    if m:
      checks[m.group(1)] = dict(tier=m.group(2), rc=int(m.group(3)), violation_lines=int(m.group(4)))
  site = next((l.strip()[:300] for l in lines if l.strip().startswith('site=')), None)
  print('CONFIRMED' if ok else 'NOT-CONFIRMED', name, 'detected=%s' % {k: v['rc'] for k, v in checks.items()})
  if not ok:
    return 1
  dst = os.path.join(HERE, 'seeded', name)
  os.makedirs(dst, exist_ok=True)
  for f in ('patch.diff', 'demo.py', 'notes.md'):
    if os.path.exists(os.path.join(src, f)):
      shutil.copy(os.path.join(src, f), os.path.join(dst, f))
  meta = dict(name=name, breaks_property=pid.split(',')[0], written_by='independent sub-agent given only the property record and a scratch worktree',
              needs_to_manifest=needs,
              confirmed=dict(demo_on_unchanged_tree='exit 0', demo_on_patched_tree='exit %s' % patched.group(1),
                             existing_tests_run_on_patched_tree=tests, existing_tests_result=tline.split(': ', 1)[-1],
                             full_suite='run by the author of the change on the patched tree: only the 2 failures + 1 collection error of the unchanged tree (see notes.md)'),
              checks_run={k: ('VIOLATION reported (exit 1)' if v['rc'] == 1 else 'exit %d' % v['rc']) for k, v in checks.items()},
              first_violation=site)
  with open(os.path.join(dst, 'meta.json'), 'w') as f:
    json.dump(meta, f, indent=1)
    f.write('\n')
  return 0


if __name__ == '__main__':
  sys.exit(main())
