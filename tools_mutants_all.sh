#!/bin/bash
# usage: tools_mutants_all.sh [glob]   (development aid, not registered)
# Runs every mutants/cXX_*.diff against the quick check of property CXX (scratch copy of /repo, see tools_mutant.sh)
# and appends "<mutant> <id> <rc> <violation lines>" to $MUT_OUT (default /tmp/mutants_results.tsv).
cd "$(dirname "$0")"
out="${MUT_OUT:-/tmp/mutants_results.tsv}"
for p in mutants/${1:-c*}.diff; do
  b="$(basename "$p" .diff)"; id="$(echo "${b:0:3}" | tr a-z A-Z)"
  s=$(date +%s)
  res="$(./tools_mutant.sh "$p" "$id" 2>&1)"
  line="$(echo "$res" | grep '^== ' | head -1)"
  first="$(echo "$res" | grep -E '^  site=' | head -1 | cut -c1-160)"
  echo -e "$b\t$id\t$(echo "$line" | sed -E 's/.*rc=([0-9]+) ([0-9]+) violation.*/\1\t\2/')\t$(( $(date +%s) - s ))s\t$first" | tee -a "$out"
done
