#!/usr/bin/env python3
"""Regenerates MANIFEST.json from the table below (development aid; the checks never read it)."""
import json, os

HERE = os.path.dirname(os.path.abspath(__file__))
ALL = ['C%02d' % i for i in range(1, 21)]

TB = ('Trusted base: numpy/scipy float64 reference models under mc/ref (never import dinosaur), the JAX CPU backend with '
      'x64 enabled, and the explorer in mc/core.py. Bounds are spelled out in the evidence file (coverage.bounds).')

# id -> (level text, note, technique, design section)
CHECKS = {
    'C13': ('Every level set on the tenths lattice (K<=4 quick, all 512 thorough, + 2 irregular) x axis x direction x '
            'cumsum method x every basis column / (w,x) basis pair, and every boundary sequence of length <=5 over the '
            'quarter lattice, is executed on the real sigma calculus and compared with an independent reference and with '
            'the identities of the property. (Bi)linearity makes the basis enumeration a statement about all data on each '
            'enumerated level set.',
            TB, 'bounded-exhaustive explicit-state enumeration vs reference model', '4/C13'),
}

PENDING = 'check not built yet in this session (work in progress; see DESIGN.md section 4 for the planned enumeration)'


def main():
  checks = []
  for pid in ALL:
    if pid not in CHECKS:
      continue
    text, note, tech, ref = CHECKS[pid]
    checks.append(dict(
        property_id=pid,
        quick_cmd=f'./check {pid} quick',
        thorough_cmd=f'./check {pid} thorough',
        evidence_file=f'/verif/evidence/{pid}.json',
        replay_cmd_template=f'./check {pid} --replay {{path}}',
        engine='mc-explorer',
        level_claimed=dict(category='model_checking', text=text, design_ref=ref),
        level_note=note,
        technique=tech,
    ))
  man = dict(
      version=1,
      setup_cmd='/venv/bin/python -c "import jax, scipy, numpy, dinosaur; print(\'ok\')"',
      hooks=dict(
          guard='GOOGLE_RESEARCH_DINOSAUR_VERIF',
          enable='no source hooks are needed: checks import /repo/dinosaur from the working tree (editable install) in a fresh process; '
                 './check exports GOOGLE_RESEARCH_DINOSAUR_VERIF=1 for uniformity only',
          baseline_off_cmd='cd /repo && /venv/bin/python -m pytest -ra -q -p no:cacheprovider --timeout=900 --continue-on-collection-errors',
          source_commits=[],
          add_only=True,
      ),
      engines=[dict(name='mc-explorer', path='/verif/mc',
                    serves_properties=sorted(CHECKS),
                    kind_free_text='hand-written explicit-state / bounded-exhaustive explorer in Python driving the real dinosaur code '
                                   '(work units over a spawn pool, canonical state keys, reference models in mc/ref, replay files)')],
      checks=checks,
      notes='Violations: exit 1 + "VIOLATION property=<id> replay=<path>"; known findings (known_findings.json) print "KNOWN-FINDING: ..." and exit 0. '
            'Six genuine defects were repaired in /repo by "fix:" commits (see known_findings.json, DESIGN.md section 3).',
      not_applicable=[dict(property_id=p, reason=PENDING) for p in ALL if p not in CHECKS],
  )
  with open(os.path.join(HERE, 'MANIFEST.json'), 'w') as f:
    json.dump(man, f, indent=1)
    f.write('\n')


if __name__ == '__main__':
  main()
