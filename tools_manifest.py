#!/venv/bin/python
"""Regenerates MANIFEST.json from the property modules' own metadata (development aid; the checks never read it).

A property is claimed iff it is listed in CLAIMED below; everything else goes to not_applicable with its reason.
"""
import ast
import json
import os
import re

HERE = os.path.dirname(os.path.abspath(__file__))
ALL = ['C%02d' % i for i in range(1, 21)]

TB = ('Trusted base: numpy/scipy float64 reference models under mc/ref (never import dinosaur), the JAX CPU backend with '
      'x64 enabled, and the explorer in mc/core.py. Bounds are spelled out in the evidence file (coverage.bounds). ')

# properties whose check is registered (quick run passes on the unchanged tree, mutants detected; see DESIGN.md section 8)
CLAIMED = ['C01', 'C02', 'C03', 'C04', 'C05', 'C06', 'C07', 'C08', 'C09', 'C10', 'C11', 'C12', 'C13', 'C14', 'C15', 'C16', 'C17', 'C18', 'C19', 'C20']
NOT_APPLICABLE = {}


def module_meta(pid):
  path = os.path.join(HERE, 'mc', 'props', pid.lower() + '.py')
  tree = ast.parse(open(path).read())
  doc = ast.get_docstring(tree) or ''
  vals = {}
  for node in tree.body:
    if isinstance(node, ast.Assign) and len(node.targets) == 1 and isinstance(node.targets[0], ast.Name):
      name = node.targets[0].id
      if name in ('TECHNIQUE', 'ASSUMPTIONS'):
        try:
          vals[name] = ast.literal_eval(node.value)
        except Exception:
          pass
  return doc, vals.get('TECHNIQUE', ''), vals.get('ASSUMPTIONS', [])


def main():
  checks = []
  for pid in ALL:
    if pid not in CLAIMED:
      continue
    doc, tech, assumptions = module_meta(pid)
    text = re.sub(r'\s+', ' ', doc).strip()
    text = (text + ' Level: bounded-exhaustive model checking of the implementation itself -- every case of the stated finite space is '
            'executed on the real code and compared with an independent reference model or the identity the property states; what the '
            'bound implies beyond the lattice (linearity + complete basis, polynomial degree + unisolvent lattice, or small scope only) is '
            'stated in DESIGN.md section 4 and in the evidence assumptions.')
    checks.append(dict(
        property_id=pid,
        quick_cmd=f'./check {pid} quick',
        thorough_cmd=f'./check {pid} thorough',
        evidence_file=f'/verif/evidence/{pid}.json',
        replay_cmd_template=f'./check {pid} --replay {{path}}',
        engine='mc-explorer',
        level_claimed=dict(category='model_checking', text=text, design_ref=f'4/{pid}'),
        level_note=TB + 'Assumptions: ' + '; '.join(assumptions),
        technique=tech or 'bounded-exhaustive explicit-state enumeration vs reference model',
    ))
  man = dict(
      version=1,
      setup_cmd='/venv/bin/python -c "import jax, scipy, numpy, dinosaur; print(\'ok\')"',
      hooks=dict(
          guard='GOOGLE_RESEARCH_DINOSAUR_VERIF',
          enable='no source hooks are needed: checks import /repo/dinosaur from the working tree (editable install) in a fresh process; '
                 './check exports GOOGLE_RESEARCH_DINOSAUR_VERIF=1 for uniformity only',
          baseline_off_cmd='cd /repo && /venv/bin/python -m pytest -ra -q -p no:cacheprovider --timeout=900 --continue-on-collection-errors',
          source_commits=[],
          add_only=True,
      ),
      engines=[dict(name='mc-explorer', path='/verif/mc',
                    serves_properties=sorted(CLAIMED),
                    kind_free_text='hand-written explicit-state / bounded-exhaustive explorer in Python driving the real dinosaur code '
                                   '(work units over a spawn pool, canonical state keys, reference models in mc/ref, replay files)')],
      checks=checks,
      notes='Violations: exit 1 + "VIOLATION property=<id> replay=<path>"; known findings (known_findings.json) print "KNOWN-FINDING: ..." and exit 0. '
            'Genuine defects repaired in /repo by "fix:" commits are listed as status=fixed in known_findings.json (see DESIGN.md section 3).',
      not_applicable=[dict(property_id=p, reason=NOT_APPLICABLE.get(p, 'check not registered yet')) for p in ALL if p not in CLAIMED],
  )
  with open(os.path.join(HERE, 'MANIFEST.json'), 'w') as f:
    json.dump(man, f, indent=1)
    f.write('\n')


if __name__ == '__main__':
  main()
