#!/venv/bin/python
"""Rewrites the generated tables of DESIGN.md (between the BEGIN/END markers) from mutants/RESULTS_quick.tsv and seeded/*/meta.json."""
import os, re, subprocess
HERE = os.path.dirname(os.path.abspath(__file__))
s = open(os.path.join(HERE, 'DESIGN.md')).read()
rows = [l.rstrip('\n').split('\t') for l in open(os.path.join(HERE, 'mutants', 'RESULTS_quick.tsv'))]
out = ['| mutant (`mutants/<name>.diff`) | property | quick check | first violation site |', '|---|---|---|---|']
for r in rows:
  site = r[5].strip().split(' key=')[0].replace('site=', '') if len(r) > 5 else ''
  verdict = {'1': 'VIOLATION', '2': 'VIOLATION (was exit 2 before the replay fix of 8.3)', '0': 'missed'}[r[2]]
  out.append('| `%s` | %s | %s | `%s` |' % (r[0], r[1], verdict, site[:80]))
s = re.sub(r'<!-- MUTANT-TABLE-BEGIN -->.*?<!-- MUTANT-TABLE-END -->', lambda m: '<!-- MUTANT-TABLE-BEGIN -->\n' + '\n'.join(out) + '\n<!-- MUTANT-TABLE-END -->', s, flags=re.S)
tab = subprocess.run([os.path.join(HERE, 'tools_seeded_table.py')], capture_output=True, text=True).stdout.strip()
s = re.sub(r'<!-- SEEDED-TABLE-BEGIN -->.*?<!-- SEEDED-TABLE-END -->', lambda m: '<!-- SEEDED-TABLE-BEGIN -->\n' + tab + '\n<!-- SEEDED-TABLE-END -->', s, flags=re.S)
open(os.path.join(HERE, 'DESIGN.md'), 'w').write(s)
