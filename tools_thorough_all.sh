#!/bin/bash
# usage: tools_thorough_all.sh [ids...]  (development aid) runs thorough tier of each id, --no-evidence, logs verdict lines
cd "$(dirname "$0")"
ids="${@:-C13 C06 C14 C15 C18 C19 C17 C20 C16 C12 C11 C10 C03 C01 C02 C05 C04 C09 C08 C07}"
for id in $ids; do
  s=$(date +%s)
  out="$(./check $id thorough --no-evidence 2>&1)"; rc=$?
  echo "== $id thorough rc=$rc wall=$(( $(date +%s) - s ))s"
  echo "$out" | grep -E "^(VIOLATION|KNOWN-FINDING|HARNESS-ERROR|  site=|C[0-9]+:|  worst|  slowest)" | cut -c1-700 | head -12
done
